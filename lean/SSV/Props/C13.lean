import SSV.Proofs.TcpRelay
/-
C13 — The TCP relay connects clients to the routed destination and mirrors half-closes (PARTIAL).

The theorems are about `SSV.TcpRelay.handleConn`, which is the INTERPRETATION of the step program regenerated from
service/tcp.go on every run (`SSV.Gen.C13`), and about the two copy loops regenerated from netio/stream.go.
They hold for every environment `e : Env`: every request, router answer, Proceed/deadline outcome, wait-read outcome
(kind and byte count: kernel timing enters here as a universally quantified input), dial result, pair of byte streams
and every interleaving `e.sched` of the two copy loops (any list of labels; labels that are not enabled are no-ops).

What is NOT covered (hence partial): that the kernel's TCP behaves like the model's streams (a loop delivers a prefix of
its source in order), the protocol codecs behind HandleStream / DialStream / Proceed / Abort (C01, C07), the router's
choice (C09). Those are sampled by the loopback engine corr_c13.
-/
namespace SSV.C13
open SSV SSV.TcpRelay SSV.Gen.C13

/-- a sample environment (used by the satisfiability examples): a SOCKS5-like server in front of a native client,
the client's first 2 bytes arrive within the wait window -/
def sampleEnv : Env :=
  { serverNative := false, waitDisabled := false, bufSize := 8, req := some ⟨"a:1", [], "u"⟩, routeErr := none,
    clientNative := true, proceedOk := true, setDeadlineOk := true, clientStream := [1, 2, 3], waitKind := .data, waitN := 2,
    clearDeadlineOk := true, dialErr := none, targetStream := [9],
    sched := [.chunk .right 1, .chunk .left 1, .eof .left, .eof .right] }

/-! ### wait_decision -/

/-- The brief wait for the initial payload happens iff the request carried no payload, the routed client can carry one,
the server protocol cannot, and the listener did not disable it — exactly the condition of the source
(`len(req.Payload) == 0 && clientInfo.NativeInitialPayload && lnc.waitForInitialPayload`, with
`waitForInitialPayload = !serverNativeInitialPayload && !lnc.DisableInitialPayloadWait`). -/
theorem wait_decision (e : Env) (r : Req) (hr : e.req = some r) (hroute : e.routeErr = none)
    (hp : e.proceedOk = true) (hs : e.setDeadlineOk = true) :
    (∃ n, Action.waitRead n ∈ handleConn e) ↔
      (r.payload = [] ∧ e.clientNative = true ∧ e.serverNative = false ∧ e.waitDisabled = false) := by
  rw [← waits_iff, handleConn_cases e r hr hroute]
  cases hw : waits e r
  · simp only [Bool.false_eq_true, if_false, iff_false, not_exists]
    intro n
    simp only [fromDial]
    repeat' split
    all_goals simp
  · simp only [if_true, iff_true]
    exact ⟨e.bufSize, by simp [afterWait, hp, hs]⟩

example : (∃ n, Action.waitRead n ∈ handleConn sampleEnv) := ⟨8, by decide⟩

/-- Order of the key calls: when the relay waits, success is signalled (Proceed) BEFORE anything else and the read uses the
configured buffer; when it does not, DialStream with the request's own payload comes first. -/
theorem wait_decision_order (e : Env) (r : Req) (hr : e.req = some r) (hroute : e.routeErr = none) :
    (waits e r = true → ∃ t, handleConn e = .handshake :: .routed :: .proceed :: t) ∧
    (waits e r = false → ∃ t, handleConn e = .handshake :: .routed :: .dial r.addr r.payload :: t) := by
  rw [handleConn_cases e r hr hroute]
  constructor
  · intro hw; simp [hw, afterWait]
  · intro hw; simp [hw, fromDial]

/-! ### payload_once -/

/-- DialStream is called at most once, with exactly the requested address, and with exactly the request's payload or
exactly the bytes the wait read returned — never both (the wait only happens when the request's payload is empty). -/
theorem payload_once (e : Env) (r : Req) (hr : e.req = some r) (hroute : e.routeErr = none)
    (a : String) (p : Bytes) (h : Action.dial a p ∈ handleConn e) :
    a = r.addr ∧
    p = (if waits e r then e.clientStream.take (waitBytes e) else r.payload) ∧
    (waits e r = true → r.payload = []) ∧
    dialCount (handleConn e) = 1 := by
  refine ⟨?_, ?_, fun hw => ((waits_iff e r).1 hw).1, ?_⟩
  all_goals
    rw [handleConn_cases e r hr hroute] at *
    cases hw : waits e r
  · simp only [hw, Bool.false_eq_true, if_false, fromDial] at h
    revert h; (repeat' split) <;> simp_all
  · simp only [hw, if_true, afterWait, fromDial] at h
    revert h; (repeat' split) <;> simp_all
  · simp only [hw, Bool.false_eq_true, if_false, fromDial] at h ⊢
    revert h; (repeat' split) <;> simp_all
  · simp only [hw, if_true, afterWait, fromDial] at h ⊢
    revert h; (repeat' split) <;> simp_all
  · simp [dialCount, dialCount_fromDial]
  · simp only [hw, if_true, afterWait] at h ⊢
    revert h
    (repeat' split) <;> simp [dialCount, dialCount_fromDial]

example : Action.dial "a:1" [1, 2] ∈ handleConn sampleEnv := by decide

/-- For EVERY interleaving of the copy loops and every wait-read outcome, what the remote side has received (DialStream's
payload followed by what the copy wrote) is a prefix of `request payload ++ client stream`: nothing is repeated, nothing is
skipped, the bytes handed to DialStream are not read again by the copy. -/
theorem payload_once_delivered_prefix (e : Env) (r : Req) (hr : e.req = some r) (hroute : e.routeErr = none)
    (hd : e.dialErr = none) :
    ∃ rest, targetReceived (handleConn e) ++ rest = r.payload ++ e.clientStream := by
  rw [handleConn_cases e r hr hroute]
  cases hw : waits e r
  · simp only [Bool.false_eq_true, if_false, targetReceived, targetReceived_fromDial e r false r.payload 0 hd]
    have inv := copyRun_inv e 0
    split
    · exact ⟨e.clientStream, by simp⟩
    · exact ⟨(copyRun e 0).todoL, by rw [List.append_assoc, inv.strL]; simp⟩
  · have hpay : r.payload = [] := ((waits_iff e r).1 hw).1
    simp only [if_true, hpay, List.nil_append]
    have inv := copyRun_inv e (waitBytes e)
    by_cases hok : e.proceedOk = true ∧ e.setDeadlineOk = true ∧ e.waitKind ≠ .error ∧ e.clearDeadlineOk = true
    · obtain ⟨h1, h2, h3, h4⟩ := hok
      rw [afterWait_ok e r h1 h2 h3 h4]
      simp only [targetReceived, targetReceived_fromDial e r true _ _ hd]
      exact ⟨(copyRun e (waitBytes e)).todoL, by
        simp only [Bool.not_true, Bool.false_and, Bool.false_eq_true, if_false, List.append_assoc, inv.strL,
          List.take_append_drop]⟩
    · refine ⟨e.clientStream, ?_⟩
      simp only [afterWait]
      (repeat' split) <;> simp_all [targetReceived]

/-- … and once the client's end-of-stream has been passed on (CloseWrite on the remote side) without a copy error, the
remote side has received exactly `request payload ++ client stream`, whatever the interleaving and the wait-read outcome. -/
theorem payload_once_delivered (e : Env) (r : Req) (hr : e.req = some r) (hroute : e.routeErr = none)
    (hd : e.dialErr = none) (hnf : ∀ l ∈ e.sched, l ≠ .fail .left)
    (hcw : Action.closeWrite .right ∈ handleConn e) :
    targetReceived (handleConn e) = r.payload ++ e.clientStream := by
  have key : ∀ k, (copyRun e k).cwR = true → (copyRun e k).rxR = e.clientStream.drop k := by
    intro k hk
    have inv := copyRun_inv e k
    have hdone : (copyRun e k).doneL = true := by rw [← inv.cwR]; exact hk
    have hfail : (copyRun e k).failL = false := failL_run e.sched _ hnf rfl
    have := inv.strL
    rw [inv.eofL hdone hfail, List.append_nil] at this
    exact this
  rw [handleConn_cases e r hr hroute] at hcw ⊢
  cases hw : waits e r
  · simp only [hw, Bool.false_eq_true, if_false] at hcw
    simp only [Bool.false_eq_true, if_false, targetReceived, targetReceived_fromDial e r false r.payload 0 hd]
    have hc : (copyRun e 0).cwR = true ∧ e.proceedOk = true := by
      simp only [fromDial, hd] at hcw
      revert hcw; (repeat' split) <;> simp_all
    simp [hc.2, key 0 hc.1]
  · have hpay : r.payload = [] := ((waits_iff e r).1 hw).1
    simp only [hw, if_true, afterWait] at hcw
    simp only [if_true, afterWait, hpay, List.nil_append]
    have hc : (copyRun e (waitBytes e)).cwR = true ∧ e.proceedOk = true ∧ e.setDeadlineOk = true ∧
        e.waitKind ≠ .error ∧ e.clearDeadlineOk = true := by
      simp only [fromDial, hd] at hcw
      revert hcw; (repeat' split) <;> simp_all
    obtain ⟨h1, h2, h3, h4, h5⟩ := hc
    simp [h2, h3, h4, h5, targetReceived, targetReceived_fromDial e r true _ _ hd, key _ h1]

example : Action.closeWrite .right ∈ handleConn sampleEnv ∧ targetReceived (handleConn sampleEnv) = [1, 2, 3] := by decide

/-! ### the wait-path branches that real TCP rarely or never produces (exercised by the scripted-connection engine) -/

/-- A failing Proceed, a failing SetReadDeadline, a wait read that fails with anything but a timeout, or a failing
deadline reset on the wait path: the connection is dropped — nothing is dialed, nothing is aborted (success was already
signalled), nothing is recorded, and the last thing that happens is the close of the client connection. -/
theorem wait_path_failure_drops (e : Env) (r : Req) (hr : e.req = some r) (hroute : e.routeErr = none)
    (hw : waits e r = true)
    (hf : e.proceedOk = false ∨ e.setDeadlineOk = false ∨ e.waitKind = .error ∨ e.clearDeadlineOk = false) :
    dialCount (handleConn e) = 0 ∧ (∀ c, Action.abort c ∉ handleConn e) ∧
    (∀ u d up, Action.collect u d up ∉ handleConn e) ∧ (handleConn e).getLast? = some .closeClient := by
  rw [handleConn_cases e r hr hroute]
  simp only [hw, if_true, afterWait]
  rcases hf with h | h | h | h
  · simp [h, dialCount]
  · cases hp : e.proceedOk <;> simp [h, hp, dialCount]
  · cases hp : e.proceedOk <;> cases hs : e.setDeadlineOk <;> simp [h, hp, hs, dialCount]
  · cases hp : e.proceedOk <;> cases hs : e.setDeadlineOk <;> by_cases hk : e.waitKind = .error <;>
      simp [h, hp, hs, hk, dialCount]

example : waits { sampleEnv with waitKind := .error } ⟨"a:1", [], "u"⟩ = true := by decide

/-- End-of-stream that arrives TOGETHER with data in the wait read (one Read returning n > 0 and io.EOF): the n bytes are
the DialStream payload, the copy then starts after them, so they are forwarded exactly once; and when the client-side loop
sees the end of the stream the write shutdown is passed on (CloseWrite on the remote side) with exactly the client's bytes
delivered. -/
theorem wait_eof_with_data (e : Env) (r : Req) (hr : e.req = some r) (hroute : e.routeErr = none)
    (hw : waits e r = true) (hp : e.proceedOk = true) (hs : e.setDeadlineOk = true) (hk : e.waitKind = .eof)
    (hc : e.clearDeadlineOk = true) (hd : e.dialErr = none) :
    handleConn e = .handshake :: .routed :: .proceed :: .setDeadline :: .waitRead e.bufSize :: .clearDeadline ::
      fromDial e r true (e.clientStream.take (waitBytes e)) (waitBytes e) ∧
    ((∀ l ∈ e.sched, l ≠ .fail .left) → Action.closeWrite .right ∈ handleConn e →
      targetReceived (handleConn e) = e.clientStream) := by
  have hk' : e.waitKind ≠ .error := by rw [hk]; decide
  refine ⟨?_, ?_⟩
  · rw [handleConn_cases e r hr hroute]
    simp [hw, afterWait_ok e r hp hs hk' hc]
  · intro hnf hcw
    have := payload_once_delivered e r hr hroute hd hnf hcw
    rwa [((waits_iff e r).1 hw).1, List.nil_append] at this

example : Action.closeWrite .right ∈ handleConn { sampleEnv with waitKind := .eof, waitN := 3, sched := [.eof .left, .chunk .right 1, .eof .right] } := by decide

/-! ### failure_reply -/

/-- A router failure is answered with Abort(code of the router error); nothing is dialed, nothing is proceeded. -/
theorem failure_reply_route (e : Env) (r : Req) (c : Code) (hr : e.req = some r) (h : e.routeErr = some c) :
    handleConn e = [.handshake, .abort c, .closeClient] := handleConn_routeErr e r c hr h

/-- A failed DialStream is answered with Abort(code of the dial error) iff the pending connection was not yet proceeded;
no other code is ever used. -/
theorem failure_reply (e : Env) (r : Req) (c : Code) (hr : e.req = some r) (hroute : e.routeErr = none)
    (hd : e.dialErr = some c) :
    (Action.abort c ∈ handleConn e ↔ Action.proceed ∉ handleConn e) ∧
    (∀ c', Action.abort c' ∈ handleConn e → c' = c) ∧
    (Action.proceed ∈ handleConn e ↔ waits e r = true) := by
  rw [handleConn_cases e r hr hroute]
  cases hw : waits e r
  · simp [fromDial, hd]
  · simp only [if_true, afterWait, fromDial, hd]
    refine ⟨?_, ?_, ?_⟩
    · (repeat' split) <;> simp
    · intro c'; (repeat' split) <;> simp
    · (repeat' split) <;> simp

example : ∃ (e : Env) (r : Req) (c : Code), e.req = some r ∧ e.routeErr = none ∧ e.dialErr = some c ∧ Action.abort c ∈ handleConn e :=
  ⟨{ sampleEnv with clientNative := false, dialErr := some 111 }, ⟨"a:1", [], "u"⟩, 111, rfl, rfl, rfl, by decide⟩

/-- In no environment at all does one connection see both an Abort and a Proceed (no failure reply after the success
reply, no success reply after a failure reply), and an Abort always carries the code of the failure that happened. -/
theorem never_abort_and_proceed (e : Env) (c : Code) (h : Action.abort c ∈ handleConn e) :
    Action.proceed ∉ handleConn e ∧ (e.routeErr = some c ∨ (e.routeErr = none ∧ e.dialErr = some c)) := by
  cases hr : e.req with
  | none => simp [handleConn, hr] at h
  | some r =>
    cases hroute : e.routeErr with
    | some c' =>
      rw [handleConn_routeErr e r c' hr hroute] at h ⊢
      simp at h; simp [h]
    | none =>
      rw [handleConn_cases e r hr hroute] at h ⊢
      cases hw : waits e r
      · simp only [hw, Bool.false_eq_true, if_false, fromDial] at h ⊢
        revert h; (repeat' split) <;> simp_all
      · simp only [hw, if_true, afterWait, fromDial] at h ⊢
        revert h; (repeat' split) <;> simp_all

/-! ### half_close -/

/-- The two copy loops, for every pair of streams and EVERY interleaving `sched`:
(1) CloseWrite has been issued on one side exactly when the loop reading from the other side has ended;
(2) when that loop ended by end-of-stream, everything its source sent had been written before (EOF is not passed on early,
    nothing is lost in front of it);
(3) a step of one loop changes nothing the opposite loop owns, and whatever the opposite loop could do it still can do
    (the opposite direction keeps flowing);
(4) a loop that has not ended can always take a step (no stuck state of the copy logic itself). -/
theorem half_close (a b : Bytes) (sched : List Label) (s : Side) :
    let c := runSched (CopySt.init a b) sched
    c.cw (otherSide s) = c.done s ∧
    (c.done s = true → c.failed s = false → c.rx (otherSide s) = (match s with | .left => a | .right => b)) ∧
    (∀ l l', l.side = s → l'.side = otherSide s →
      loopView (stepCopy c l) (otherSide s) = loopView c (otherSide s) ∧ enabled (stepCopy c l) l' = enabled c l') ∧
    (c.done s = false → enabled c (.eof s) = true ∨ enabled c (.chunk s (c.todo s).length) = true) := by
  intro c
  have inv : CopyInv a b c := copyInv_run sched (copyInv_init a b)
  refine ⟨?_, ?_, ?_, ?_⟩
  · cases s
    · exact inv.cwR
    · exact inv.cwL
  · intro hdone hfail
    cases s
    · have := inv.strL; rw [inv.eofL hdone hfail, List.append_nil] at this; exact this
    · have := inv.strR; rw [inv.eofR hdone hfail, List.append_nil] at this; exact this
  · intro l l' hl hl'
    subst hl
    exact ⟨step_frame c l, opposite_keeps_running c l l' hl'⟩
  · intro hnd
    cases s
    · simp only [CopySt.done] at hnd
      cases ht : c.todoL with
      | nil => left; simp [enabled, CopySt.done, CopySt.todo, hnd, ht]
      | cons x xs => right; simp [enabled, CopySt.done, CopySt.todo, hnd, ht, Nat.blt, Nat.ble_eq]
    · simp only [CopySt.done] at hnd
      cases ht : c.todoR with
      | nil => left; simp [enabled, CopySt.done, CopySt.todo, hnd, ht]
      | cons x xs => right; simp [enabled, CopySt.done, CopySt.todo, hnd, ht, Nat.blt, Nat.ble_eq]

/-- End-of-stream from one side becomes a write shutdown of the other side: when the loop reading from `s` sees EOF, the
step issues CloseWrite on the opposite side, ends only that loop, and does so without an error. -/
theorem half_close_eof (a b : Bytes) (sched : List Label) (s : Side)
    (h : enabled (runSched (CopySt.init a b) sched) (.eof s) = true) :
    let c' := stepCopy (runSched (CopySt.init a b) sched) (.eof s)
    c'.cw (otherSide s) = true ∧ c'.done s = true ∧ c'.failed s = false ∧
    loopView c' (otherSide s) = loopView (runSched (CopySt.init a b) sched) (otherSide s) := by
  intro c'
  obtain ⟨h1, h2, h3⟩ := eof_becomes_closeWrite _ s h
  exact ⟨h1, h2, h3, step_frame _ (.eof s)⟩

example : enabled (runSched (CopySt.init [1] [2, 3]) [.chunk .left 1]) (.eof .left) = true := by decide

/-- The handler reports a CloseWrite towards the remote side exactly when the copy ran and the client-side loop ended, and
towards the client exactly when the remote-side loop ended (EOF order is mirrored, per direction). -/
theorem half_close_in_handler (e : Env) (r : Req) (hr : e.req = some r) (hroute : e.routeErr = none)
    (hw : waits e r = false) (hd : e.dialErr = none) (hp : e.proceedOk = true) :
    (Action.closeWrite .right ∈ handleConn e ↔ (copyRun e 0).doneL = true) ∧
    (Action.closeWrite .left ∈ handleConn e ↔ (copyRun e 0).doneR = true) := by
  have inv := copyRun_inv e 0
  rw [handleConn_cases e r hr hroute]
  simp only [hw, Bool.false_eq_true, if_false, fromDial, hd, hp]
  rw [← inv.cwR, ← inv.cwL]
  constructor <;> (repeat' split) <;> simp_all

/-! ### stats_exact -/

/-- The figures handed to the statistics collector: the user of the request, downlink = bytes written to the client,
uplink = bytes handed to the remote side (DialStream's payload, counted once, plus what the copy wrote). For every
interleaving and every wait-read outcome, INCLUDING schedules whose loops end with `fail` labels (copy errors): the
figures are then the bytes delivered up to the error. -/
theorem stats_exact (e : Env) (r : Req) (hr : e.req = some r) (hroute : e.routeErr = none)
    (u : String) (d up : Nat) (h : Action.collect u d up ∈ handleConn e) :
    u = r.user ∧ up = (targetReceived (handleConn e)).length ∧ d = (clientReceived (handleConn e)).length := by
  rw [handleConn_cases e r hr hroute] at h ⊢
  cases hw : waits e r
  · have inv := copyRun_inv e 0
    simp only [hw, Bool.false_eq_true, if_false, List.mem_cons, reduceCtorEq, false_or] at h
    obtain ⟨hd, hp, hu, hdn, hup⟩ := collect_mem_fromDial e r false r.payload 0 u d up h
    simp only [Bool.false_eq_true, if_false, targetReceived, clientReceived,
      targetReceived_fromDial e r false r.payload 0 hd, clientReceived_fromDial e r false r.payload 0 hd, hp]
    refine ⟨hu, ?_, ?_⟩
    · rw [hup, inv.cntL, List.length_append]; omega
    · rw [hdn, inv.cntR]
  · have inv := copyRun_inv e (waitBytes e)
    simp only [hw, if_true, List.mem_cons, reduceCtorEq, false_or] at h
    obtain ⟨h1, h2, h3, h4, hm⟩ := collect_mem_afterWait e r u d up h
    obtain ⟨hd, hp, hu, hdn, hup⟩ := collect_mem_fromDial e r true _ _ u d up hm
    simp only [if_true, afterWait_ok e r h1 h2 h3 h4, targetReceived, clientReceived,
      targetReceived_fromDial e r true _ _ hd, clientReceived_fromDial e r true _ _ hd, hp]
    refine ⟨hu, ?_, ?_⟩
    · rw [hup, inv.cntL, List.length_append]; simp; omega
    · rw [hdn, inv.cntR]; simp

example : Action.collect "u" 1 3 ∈ handleConn sampleEnv := by decide

/-- The session IS recorded whenever BidirectionalCopy returned — for every schedule, in particular those in which a loop
ends with a `fail` label (read or write error, e.g. the remote resets after data was relayed): the collect call comes before
the handler's `if err != nil { return }`. Together with `stats_exact` the recorded figures are the bytes delivered each way
up to the error. (`copied ∈ trace ∧ blocked ∉ trace` says exactly that both loops have returned.) -/
theorem stats_recorded (e : Env) (r : Req) (hr : e.req = some r) (hroute : e.routeErr = none)
    (a b : Bytes) (hc : Action.copied a b ∈ handleConn e) (hnb : Action.blocked ∉ handleConn e) :
    Action.collect r.user (clientReceived (handleConn e)).length (targetReceived (handleConn e)).length ∈ handleConn e := by
  have key : ∃ d up, Action.collect r.user d up ∈ handleConn e := by
    rw [handleConn_cases e r hr hroute] at hc hnb ⊢
    cases hw : waits e r
    · simp only [hw, Bool.false_eq_true, if_false, List.mem_cons, reduceCtorEq, false_or, not_or, not_false_eq_true, true_and] at hc hnb ⊢
      exact ⟨_, _, collect_of_copied_fromDial e r false r.payload 0 a b hc hnb⟩
    · simp only [hw, if_true, List.mem_cons, reduceCtorEq, false_or, not_or, not_false_eq_true, true_and] at hc hnb ⊢
      obtain ⟨h1, h2, h3, h4, hm⟩ := copied_mem_afterWait e r a b hc
      rw [afterWait_ok e r h1 h2 h3 h4] at hnb ⊢
      simp only [List.mem_cons, reduceCtorEq, false_or, not_or, not_false_eq_true, true_and] at hnb ⊢
      exact ⟨_, _, collect_of_copied_fromDial e r true _ _ a b hm hnb⟩
  obtain ⟨d, up, h⟩ := key
  obtain ⟨_, hup, hd⟩ := stats_exact e r hr hroute r.user d up h
  rw [← hup, ← hd]; exact h

/-- a session that relayed data and then ended with errors on both loops is recorded with what was delivered -/
example : Action.collect "u" 1 3 ∈ handleConn { sampleEnv with sched := [.chunk .right 1, .chunk .left 1, .fail .right, .fail .left] } := by decide


end SSV.C13

#print axioms SSV.C13.wait_decision
#print axioms SSV.C13.wait_decision_order
#print axioms SSV.C13.payload_once
#print axioms SSV.C13.payload_once_delivered_prefix
#print axioms SSV.C13.payload_once_delivered
#print axioms SSV.C13.wait_path_failure_drops
#print axioms SSV.C13.wait_eof_with_data
#print axioms SSV.C13.failure_reply_route
#print axioms SSV.C13.failure_reply
#print axioms SSV.C13.never_abort_and_proceed
#print axioms SSV.C13.half_close
#print axioms SSV.C13.half_close_eof
#print axioms SSV.C13.half_close_in_handler
#print axioms SSV.C13.stats_exact
#print axioms SSV.C13.stats_recorded
