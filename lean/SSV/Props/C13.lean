import SSV.Model.TcpRelay
/-
C13 — property theorems (first batch; the full set follows).
-/
namespace SSV.C13
open SSV SSV.TcpRelay SSV.Gen.C13

/-- A router failure is answered with Abort(code of the router error) and nothing else happens. -/
theorem route_error_reply (e : Env) (r : Req) (c : Code) (hr : e.req = some r) (h : e.routeErr = some c) :
    handleConn e = [.handshake, .abort c, .closeClient] := by
  simp [handleConn, hr, finish, runSteps, handleConnProgram, execStep, h, abortIf, routeAbort, St.emit, St.ret]

/-- a sample environment (used by the satisfiability examples) -/
def sampleEnv : Env :=
  { serverNative := false, waitDisabled := false, bufSize := 1440, req := some ⟨"a:1", [], ""⟩, routeErr := none,
    clientNative := true, proceedOk := true, setDeadlineOk := true, clientStream := [1, 2, 3], waitKind := .data, waitN := 2,
    clearDeadlineOk := true, dialErr := none, targetStream := [9], sched := [.chunk .left 1, .eof .left, .chunk .right 1, .eof .right] }

example : ∃ (e : Env) (r : Req) (c : Code), e.req = some r ∧ e.routeErr = some c :=
  ⟨{ sampleEnv with routeErr := some 13 }, ⟨"a:1", [], ""⟩, 13, rfl, rfl⟩

end SSV.C13

#print axioms SSV.C13.route_error_reply
