import SSV.Proofs.Persist
import SSV.Proofs.PersistGen
import SSV.Proofs.Debounce
/-
C20 — A crash or write failure while saving credentials never destroys the store.

Statement: "At every instant during an automatic save of credential changes made through the API, the
user-key store file on disk is a complete, loadable document holding either the previous or the new user
set, so that after a crash, kill or disk-full error at any point the server restarts and accepts exactly
the persisted users. Changes acknowledged before shutdown begins are written before the service stops."

All theorems are about the programs REGENERATED from cred/manager.go (`saveProg?`, `dequeueProg?`,
decoded from `SSV.Gen.C20`). The first three theorems are the Gen side conditions: the source has the
temp-file / fsync / rename shape (finding F13 repaired) and looks at the queue once more on cancellation
(finding F14 repaired). On a tree where `saveToFile` still is `os.WriteFile`, or `dequeueSave` returns
at once on `ctx.Done()`, they fail, and with them everything below; what is true of those shapes instead
is proved at the end (`writeFile_…`, `noDrain_…`).

Model: SSV/Model/Persist.lean. `trace doc fault prog 0 r` lists every file-system state a run passes
through: before every call, after every byte count 0..len of the write, and the final state; with
`fault = some (j, k)` call number `j` fails (the write: after `k` bytes). `PostCrash fs c`: `c` is what a
restart may find at the store path after a power loss in state `fs` (any directory binding since the
start; arbitrary content for a file not fsynced since its last change); `afterKill fs` is what it finds
after a process kill. `load` is `LoadFromFile` at start-up.
-/
namespace SSV.C20
open SSV.Persist

/-! ## Gen side conditions -/

/-- the regenerated save procedure is: stat, CreateTemp in the same directory, write, chmod, fsync, close,
rename over the store path; on failure remove the temporary file and return the error -/
theorem saveProg_is_tempRename : saveProg? = some progTempRename := by decide

/-- the regenerated debounce loop looks at the queue once more when it sees the cancellation -/
theorem dequeueProg_is_drain : dequeueProg? = some progDrain := by decide

/-- facts the debounce model relies on: 1-slot queue; every API mutator calls `enqueueSave` on its only
success path (so "acknowledged" implies "announced") -/
theorem debounce_facts : SSV.Gen.C20.queueCap = 1 ∧ SSV.Gen.C20.mutatorsEnqueue = true := by decide

/-! ## crash safety -/

/-- **crash_safe.** For every old and new store content, at every instant of the save (every prefix of the
FS program, every byte count of the write) a power loss — and a fortiori a process kill — leaves at the
store path a file that the start-up loader reads as exactly the old or the new user set. -/
theorem crash_safe {U : Type} (C : Codec U) (hC : C.Lawful) (old new : U)
    (prog : List Stmt) (hp : saveProg? = some prog) :
    ∀ fs ∈ trace (C.ser new) none prog 0 (startRun (initFS (C.ser old))),
      ∀ c, PostCrash fs c → load C c = some old ∨ load C c = some new := by
  have : prog = progTempRename := by
    have := hp.symm.trans saveProg_is_tempRename; exact Option.some.inj this
  subst this
  intro fs hfs c hc
  rcases trace_tempRename_safe (C.ser old) (C.ser new) none fs hfs c hc with h | h
  · left; rw [h]; exact load_ser C hC old
  · right; rw [h]; exact load_ser C hC new

/-- the same for a process kill (kernel keeps running: the loader sees the current directory and page cache) -/
theorem kill_safe {U : Type} (C : Codec U) (hC : C.Lawful) (old new : U)
    (prog : List Stmt) (hp : saveProg? = some prog) (fault : Fault) :
    ∀ fs ∈ trace (C.ser new) fault prog 0 (startRun (initFS (C.ser old))),
      load C (afterKill fs) = some old ∨ load C (afterKill fs) = some new := by
  have : prog = progTempRename := by
    have := hp.symm.trans saveProg_is_tempRename; exact Option.some.inj this
  subst this
  intro fs hfs
  rcases kill_tempRename (C.ser old) (C.ser new) fault fs hfs with h | h
  · left; rw [h]; exact load_ser C hC old
  · right; rw [h]; exact load_ser C hC new

/-- **enospc_safe.** The same when call number `j` of the save returns an error instead of the machine
crashing (the write: after any `k` bytes — ENOSPC, EFBIG, EIO; also a failing CreateTemp, chmod, fsync,
close, rename): at every instant of the run, including its error path and a crash on that path, the store
is the old or the new set; and when the run is over the store holds the new set iff the save reported
success, otherwise still the old one. -/
theorem enospc_safe {U : Type} (C : Codec U) (hC : C.Lawful) (old new : U)
    (prog : List Stmt) (hp : saveProg? = some prog) (j k : Nat) :
    (∀ fs ∈ trace (C.ser new) (some (j, k)) prog 0 (startRun (initFS (C.ser old))),
      ∀ c, PostCrash fs c → load C c = some old ∨ load C c = some new) ∧
    (let r := finalRun (C.ser new) (some (j, k)) none prog 0 (startRun (initFS (C.ser old)))
     (r.err = false → load C (afterKill r.fs) = some new) ∧
     (r.err = true → load C (afterKill r.fs) = some old)) := by
  have : prog = progTempRename := by
    have := hp.symm.trans saveProg_is_tempRename; exact Option.some.inj this
  subst this
  refine ⟨?_, ?_⟩
  · intro fs hfs c hc
    rcases trace_tempRename_safe (C.ser old) (C.ser new) (some (j, k)) fs hfs c hc with h | h
    · left; rw [h]; exact load_ser C hC old
    · right; rw [h]; exact load_ser C hC new
  · have h := final_tempRename (C.ser old) (C.ser new) (some (j, k))
    refine ⟨fun he => ?_, fun he => ?_⟩
    · rw [h.1 he]; exact load_ser C hC new
    · rw [h.2 he]; exact load_ser C hC old

/-- a save without any fault ends with the new set at the store path and reports success -/
theorem save_completes {U : Type} (C : Codec U) (hC : C.Lawful) (old new : U)
    (prog : List Stmt) (hp : saveProg? = some prog) :
    let r := finalRun (C.ser new) none none prog 0 (startRun (initFS (C.ser old)))
    r.err = false ∧ load C (afterKill r.fs) = some new := by
  have : prog = progTempRename := by
    have := hp.symm.trans saveProg_is_tempRename; exact Option.some.inj this
  subst this
  have h := final_tempRename (C.ser old) (C.ser new) none
  have he : (finalRun (C.ser new) none none progTempRename 0 (startRun (initFS (C.ser old)))).err = false := by
    simp [finalRun, progTempRename, enabled, faultAt, execOp, execOk, writeBytes, upd, startRun, initFS]
  exact ⟨he, by rw [h.1 he]; exact load_ser C hC new⟩

/-! ### every save of every history, from any file system -/

/-- **crash_safe, any start state.** Not only from the two-file toy directory: from ANY file system in
which the store path names a synced file with the old document and that entry is on stable storage
(arbitrary other inodes, stale temporary files left by earlier crashes, any temp-name counter), with or
without one failing call: at every instant a power loss leaves the old or the new set. -/
theorem crash_safe_any_start {U : Type} (C : Codec U) (hC : C.Lawful) (old new : U)
    (prog : List Stmt) (hp : saveProg? = some prog) (fs0 : FS) (hq : Quiescent fs0 (C.ser old)) (fault : Fault) :
    ∀ fs ∈ trace (C.ser new) fault prog 0 (startRun fs0),
      ∀ c, PostCrash fs c → load C c = some old ∨ load C c = some new := by
  have : prog = progTempRename := by
    have := hp.symm.trans saveProg_is_tempRename; exact Option.some.inj this
  subst this
  intro fs hfs c hc
  rcases trace_tempRename_safe_gen fs0 (C.ser old) (C.ser new) hq fault fs hfs c hc with h | h
  · left; rw [h]; exact load_ser C hC old
  · right; rw [h]; exact load_ser C hC new

/-- **every save of every history, across crashes and restarts.** A history is any list of saves, each
writing any set, each with or without one failing call (the write after any byte count), each either
running to its end or KILLED right after any statement — the process then restarts on whatever the
directory holds (left-over temporary files included). From any file system whose store path shows `u0`
(regular file or symbolic link, any stray files next to it), after any such history:
(1) the store path loads to `u0` or to the set of one of the saves;
(2) the next save **without a fault succeeds** and the store then loads to exactly the new set — no
    left-over can block it (this is what "changes acknowledged before shutdown are written" needs from the
    file system after earlier crashes);
(3) at every instant of the next save, with any failing call, a kill leaves that previous set or the new one. -/
theorem kill_safe_history {U : Type} (C : Codec U) (hC : C.Lawful) (u0 new : U)
    (prog : List Stmt) (hp : saveProg? = some prog) (fs0 : FS) (h0 : afterKill fs0 = some (C.ser u0))
    (hist : List (U × Fault × Option Nat)) (fault : Fault) :
    let evs : List SaveEv := hist.map (fun p => ⟨C.ser p.1, p.2.1, p.2.2⟩)
    let fs1 := runSaves prog fs0 evs
    ∃ prev, (prev = u0 ∨ prev ∈ hist.map (·.1)) ∧
      load C (afterKill fs1) = some prev ∧
      (let r := finalRun (C.ser new) none none prog 0 (startRun fs1)
       r.err = false ∧ load C (afterKill r.fs) = some new) ∧
      ∀ fs ∈ trace (C.ser new) fault prog 0 (startRun fs1),
        load C (afterKill fs) = some prev ∨ load C (afterKill fs) = some new := by
  have : prog = progTempRename := by
    have := hp.symm.trans saveProg_is_tempRename; exact Option.some.inj this
  subst this
  intro evs fs1
  obtain ⟨d, hd, hk⟩ := history_kq fs0 (C.ser u0) evs h0
  have hprev : ∃ prev, (prev = u0 ∨ prev ∈ hist.map (·.1)) ∧ C.ser prev = d := by
    rcases hd with h | h
    · exact ⟨u0, Or.inl rfl, h.symm⟩
    · simp only [evs, List.map_map, List.mem_map] at h
      obtain ⟨p, hp1, hp2⟩ := h
      exact ⟨p.1, Or.inr (List.mem_map.mpr ⟨p, hp1, rfl⟩), by simpa using hp2⟩
  obtain ⟨prev, hpm, hps⟩ := hprev
  subst hps
  refine ⟨prev, hpm, ?_, ?_, ?_⟩
  · have : afterKill fs1 = some (C.ser prev) := hk
    rw [this]; exact load_ser C hC prev
  · have h := save_completes_gen fs1 (C.ser prev) (C.ser new) hk
    refine ⟨h.1, ?_⟩
    have : afterKill (finalRun (C.ser new) none none progTempRename 0 (startRun fs1)).fs = some (C.ser new) := h.2
    rw [this]; exact load_ser C hC new
  · intro fs hfs
    rcases kill_tempRename_gen _ (C.ser prev) (C.ser new) hk fault fs hfs with h | h
    · left; rw [h]; exact load_ser C hC prev
    · right; rw [h]; exact load_ser C hC new

/-- **temp-name freshness** (the hypothesis about `os.CreateTemp` with a `*` pattern, built into `createTemp`
of the model and tied to the source by the extractor, which maps only `os.CreateTemp(dir, "…*…")` to it):
the name it yields is not in the directory and is not the fixed name `<store>.tmp`. -/
theorem createTemp_name_fresh (tmps : List (Nat × Nat)) :
    freshName tmps ≠ 0 ∧ ∀ p ∈ tmps, p.1 < freshName tmps := by
  refine ⟨by simp [freshName], ?_⟩
  have key : ∀ (l : List (Nat × Nat)) (m : Nat), m ≤ l.foldl (fun m p => max m p.1) m ∧
      ∀ p ∈ l, p.1 ≤ l.foldl (fun m p => max m p.1) m := by
    intro l
    induction l with
    | nil => intro m; simp
    | cons x xs ih =>
      intro m
      obtain ⟨h1, h2⟩ := ih (max m x.1)
      refine ⟨by simp only [List.foldl_cons]; omega, ?_⟩
      intro p hp
      simp only [List.mem_cons] at hp
      simp only [List.foldl_cons]
      rcases hp with rfl | hp
      · omega
      · exact h2 p hp
  intro p hp
  have := (key tmps 0).2 p hp
  simp only [freshName]; omega

/-- **symbolic-link stores: what the repaired code does** (an observation about the repair, not a defect of
crash safety): `rename` replaces the link at the store path by a regular file holding the new set; the
file the link pointed to keeps the old document. Every theorem above holds for link stores too (`FS.isLink`
is unconstrained in them); the server itself always reads the store path, so it restarts on the new set. -/
theorem symlink_store_link_replaced {U : Type} (C : Codec U) (hC : C.Lawful) (old new : U)
    (prog : List Stmt) (hp : saveProg? = some prog) :
    let r := finalRun (C.ser new) none none prog 0 (startRun (initLinkFS (C.ser old)))
    r.err = false ∧ r.fs.isLink = false ∧ load C (afterKill r.fs) = some new ∧
    r.fs.dest = some 0 ∧ r.fs.inodes[0]? = some ⟨C.ser old, true⟩ := by
  have : prog = progTempRename := by
    have := hp.symm.trans saveProg_is_tempRename; exact Option.some.inj this
  subst this
  have h := symlink_replaced (initLinkFS (C.ser old)) (C.ser old) (C.ser new) 0 true rfl rfl rfl rfl
  refine ⟨h.1, h.2.1, ?_, h.2.2.2.1, h.2.2.2.2⟩
  rw [h.2.2.1]; exact load_ser C hC new

example (d : Bytes) : Quiescent (initFS d) d := quiescent_init d
/-- a start state with an unrelated inode, stale temporary files (also under the fixed name) and a symlinked store -/
example : Quiescent
    ({ inodes := [⟨[9], false⟩, ⟨[1, 0], true⟩, ⟨[1, 1], false⟩], target := some 1, thist := [some 1], tmps := [(4, 2), (0, 0)], isLink := true, dest := some 1 } : FS)
    [1, 0] := ⟨1, rfl, rfl, rfl⟩

/-! ### the hypotheses are satisfiable, the quantifiers range over something -/

/-- a lawful codec (unary numbers terminated by 0) for which strict prefixes do not load -/
def toyCodec : Codec Nat :=
  { ser := fun n => List.replicate n 1 ++ [0]
    decode := fun b => if b.getLast? = some 0 then some (b.length - 1) else none
    empty := 0 }

theorem toy_lawful : toyCodec.Lawful :=
  ⟨by intro u; simp [toyCodec], by intro u; simp [toyCodec]⟩

example : saveProg? = some progTempRename := saveProg_is_tempRename
/-- the trace of a concrete save has 12 + 3·… states; among them one with a half-written temporary file -/
example : ({ inodes := [⟨[1, 1, 0], true⟩, ⟨[1, 1], false⟩], target := some 0, thist := [some 0], tmps := [(1, 1)], isLink := false, dest := none } : FS)
    ∈ trace (toyCodec.ser 3) none progTempRename 0 (startRun (initFS (toyCodec.ser 2))) := by decide
example : PostCrash (initFS [1, 0]) (some [1, 0]) := ⟨some 0, by simp [initFS], ⟨[1, 0], true⟩, rfl, [1, 0], rfl, fun _ => rfl⟩
/-- a dirty file really can come back as anything -/
example : PostCrash { inodes := [⟨[1, 0], false⟩], target := some 0, thist := [some 0], tmps := [], isLink := false, dest := none } (some [7, 7, 7]) :=
  ⟨some 0, by simp, ⟨[1, 0], false⟩, rfl, [7, 7, 7], rfl, by simp⟩
example : (finalRun (toyCodec.ser 3) (some (3, 2)) none progTempRename 0 (startRun (initFS (toyCodec.ser 2)))).err = true := by decide

/-! ## acknowledged changes are saved before Stop returns -/

/-- **ack_saved_before_stop.** In every reachable state of the debounce transition system — every interleaving
of API calls (mutate, then enqueue, then return), the cancellation, and the saver goroutine, with every choice
a `select` with several ready alternatives can make, whatever the phase (queued / cooling down / saving) in
which the cancellation arrives — once the saver goroutine has returned (`wg.Wait()` in `Stop` is released)
the file holds at least every change acknowledged before the cancellation. -/
theorem ack_saved_before_stop (prog : List Node) (hp : dequeueProg? = some prog)
    (s : DState) (h : Reach prog s) (hx : s.exited = true) : s.acked ≤ s.disk := by
  have : prog = progDrain := by
    have := hp.symm.trans dequeueProg_is_drain; exact Option.some.inj this
  subst this
  obtain ⟨_, _, _, hex, _, h4, _⟩ := dinv_reach h
  exact (h4 (hex hx)).2

/-- the goroutine returns only after the cancellation (no spontaneous exit that would end saving) -/
theorem exit_only_after_cancel (prog : List Node) (hp : dequeueProg? = some prog)
    (s : DState) (h : Reach prog s) (hx : s.exited = true) : s.cancelled = true := by
  have : prog = progDrain := by
    have := hp.symm.trans dequeueProg_is_drain; exact Option.some.inj this
  subst this
  obtain ⟨_, _, _, hex, _, h4, _⟩ := dinv_reach h
  exact (h4 (hex hx)).1

/-- non-vacuity: a run in which a change is acknowledged, the shutdown arrives during the cool-down, the
goroutine saves and exits -/
theorem stop_reachable : ∃ s, Reach progDrain s ∧ s.exited = true ∧ s.acked = 1 ∧ s.disk = 1 := by
  have r1 := Reach.step Reach.init (Step.mutate (prog := progDrain) dinit)
  have r2 := Reach.step r1 (Step.enqueue _ 1 (by simp [dinit]))
  have r3 := Reach.step r2 (Step.sel _ [(.queue, 1), (.ctx, 5)] .queue 1 rfl rfl (by simp) rfl)
  have r4 := Reach.step r3 (Step.cancel _)
  have r5 := Reach.step r4 (Step.sel _ [(.timer, 2), (.ctx, 2)] .ctx 2 rfl rfl (by simp) rfl)
  have r6 := Reach.step r5 (Step.sel _ [(.queue, 3), (.dflt, 3)] .dflt 3 rfl rfl (by simp) rfl)
  have r7 := Reach.step r6 (Step.save _ 0 rfl rfl)
  have r8 := Reach.step r7 (Step.sel _ [(.queue, 1), (.ctx, 5)] .ctx 5 rfl rfl (by simp) rfl)
  have r9 := Reach.step r8 (Step.sel _ [(.queue, 1), (.dflt, 4)] .dflt 4 rfl rfl (by simp) rfl)
  have r10 := Reach.step r9 (Step.ret _ rfl rfl)
  exact ⟨_, r10, rfl, rfl, rfl⟩

/-! ## the shapes of the pinned tree (findings F13, F14): what fails, and what still holds -/

/-- **F13 witness.** With `os.WriteFile` (truncate, then write) the run passes through a state in which the
store path names an empty file — after a kill and after a power loss alike. The loader then "succeeds" with
the empty store: neither the old nor the new user set unless one of them is empty. -/
theorem writeFile_not_crash_safe {U : Type} (C : Codec U) (old new : U) (ho : old ≠ C.empty) (hn : new ≠ C.empty) :
    ¬ (∀ fs ∈ trace (C.ser new) none progWriteFile 0 (startRun (initFS (C.ser old))),
        ∀ c, PostCrash fs c → load C c = some old ∨ load C c = some new) := by
  intro h
  obtain ⟨fs, hfs, _, hpc⟩ := writeFile_passes_empty (C.ser old) (C.ser new)
  rcases h fs hfs _ hpc with h | h <;> simp [load] at h
  · exact ho h.symm
  · exact hn h.symm

/-- **F13, every byte count.** With `os.WriteFile`, for every `j` the run passes through a state in which
the store path names exactly the first `j` bytes of the new document; under the JSON hypothesis
`PrefixUnloadable` such a file does not load (start-up aborts), except for the document without its final
newline. -/
theorem writeFile_cut_unloadable {U : Type} (C : Codec U) (hP : C.PrefixUnloadable) (old new : U) (j : Nat)
    (h0 : 0 < j) (hj : j < (C.ser new).length) :
    ∃ fs ∈ trace (C.ser new) none progWriteFile 0 (startRun (initFS (C.ser old))),
      afterKill fs = some ((C.ser new).take j) ∧
      (load C (afterKill fs) = none ∨ load C (afterKill fs) = some new) := by
  obtain ⟨fs, hfs, hk⟩ := writeFile_passes_prefix (C.ser old) (C.ser new) j (Nat.le_of_lt hj)
  refine ⟨fs, hfs, hk, ?_⟩
  rw [hk]
  have hne : (C.ser new).take j ≠ [] := by
    intro h
    have h1 : ((C.ser new).take j).length = 0 := by rw [h]; rfl
    rw [List.length_take] at h1; omega
  have hne2 : (C.ser new).take j ≠ C.ser new := by
    intro h
    have h1 : ((C.ser new).take j).length = (C.ser new).length := by rw [h]
    rw [List.length_take] at h1; omega
  have := hP new _ (List.take_prefix j (C.ser new)) hne2 hne
  cases ht : (C.ser new).take j with
  | nil => exact absurd ht hne
  | cons b bs => simp only [load]; rw [← ht]; exact this

/-- **crash_safe_partial for the truncate-then-write shape**: what does hold — under a process kill or a
failing call the store path holds the old document or a prefix of the new one, never unrelated bytes. -/
theorem writeFile_crash_safe_partial (o n : Bytes) (fault : Fault) :
    ∀ fs ∈ trace n fault progWriteFile 0 (startRun (initFS o)),
      afterKill fs = some o ∨ ∃ p, p <+: n ∧ afterKill fs = some p :=
  writeFile_kill_prefix o n fault

/-- **fixed temporary name (`<store>.tmp`, O_EXCL) — what fails.** Each save alone is still atomic, but a save
killed inside its write (after any `k` bytes) leaves the name behind: the store still shows the old set, and
the next save — after the restart, with no fault whatsoever — fails with EEXIST; the store keeps the old
set, the acknowledged change is not written. With `os.CreateTemp` this cannot happen (`kill_safe_history` (2)). -/
theorem exclTmp_blocks_saves_after_crash {U : Type} (C : Codec U) (hC : C.Lawful) (old new new2 : U) (k : Nat) :
    let fs1 := (finalRun (C.ser new) (some (3, k)) (some 3) progExclTmp 0 (startRun (initFS (C.ser old)))).fs
    let r2 := finalRun (C.ser new2) none none progExclTmp 0 (startRun fs1)
    load C (afterKill fs1) = some old ∧ r2.err = true ∧ load C (afterKill r2.fs) = some old := by
  have h := exclTmp_stuck_after_crash (C.ser old) (C.ser new) (C.ser new2) k
  refine ⟨?_, h.2.1, ?_⟩
  · rw [h.1]; exact load_ser C hC old
  · rw [h.2.2]; exact load_ser C hC old

/-- **"keep a backup" before the final rename — what fails.** With `rename(store, store.bak)` inserted just before
`rename(tmp, store)` the run passes through a state — between the two calls — in which the store path does not
exist: a kill there (and a power loss) leaves no store, the loader fails with ENOENT, start-up aborts. Byte
counts of the write never reach this instant; the `syscall` engine kills at every call boundary. -/
theorem backupRename_not_kill_safe {U : Type} (C : Codec U) (old new : U) :
    ∃ fs ∈ trace (C.ser new) none progBackupRename 0 (startRun (initFS (C.ser old))),
      afterKill fs = none ∧ load C (afterKill fs) = none ∧ PostCrash fs none := by
  refine ⟨{ inodes := [⟨C.ser old, true⟩, ⟨C.ser new, true⟩], target := none, thist := [none, some 0], tmps := [(1, 1)],
            isLink := false, dest := none }, ?_, rfl, rfl, ⟨none, by simp, rfl⟩⟩
  simp [trace, progBackupRename, enabled, faultAt, execOp, execOk, interm, writeBytes, upd, startRun, initFS, freshName]

/-- **F14 witness.** Without the final look at the queue: change acknowledged, context cancelled, the first
`select` takes `ctx.Done()`, the goroutine returns — `Stop` returns with the change not on disk. -/
theorem noDrain_loses_acknowledged_change : ∃ s, Reach progNoDrain s ∧ s.exited = true ∧ s.disk < s.acked := by
  have r1 := Reach.step Reach.init (Step.mutate (prog := progNoDrain) dinit)
  have r2 := Reach.step r1 (Step.enqueue _ 1 (by simp [dinit]))
  have r3 := Reach.step r2 (Step.cancel _)
  have r4 := Reach.step r3 (Step.sel _ [(.queue, 1), (.ctx, 4)] .ctx 4 rfl rfl (by simp) rfl)
  have r5 := Reach.step r4 (Step.ret _ rfl rfl)
  exact ⟨_, r5, rfl, by decide⟩

end SSV.C20

#print axioms SSV.C20.saveProg_is_tempRename
#print axioms SSV.C20.dequeueProg_is_drain
#print axioms SSV.C20.debounce_facts
#print axioms SSV.C20.crash_safe
#print axioms SSV.C20.kill_safe
#print axioms SSV.C20.enospc_safe
#print axioms SSV.C20.save_completes
#print axioms SSV.C20.crash_safe_any_start
#print axioms SSV.C20.kill_safe_history
#print axioms SSV.C20.createTemp_name_fresh
#print axioms SSV.C20.symlink_store_link_replaced
#print axioms SSV.C20.exclTmp_blocks_saves_after_crash
#print axioms SSV.C20.backupRename_not_kill_safe
#print axioms SSV.C20.toy_lawful
#print axioms SSV.C20.ack_saved_before_stop
#print axioms SSV.C20.exit_only_after_cancel
#print axioms SSV.C20.stop_reachable
#print axioms SSV.C20.writeFile_not_crash_safe
#print axioms SSV.C20.writeFile_cut_unloadable
#print axioms SSV.C20.writeFile_crash_safe_partial
#print axioms SSV.C20.noDrain_loses_acknowledged_change
