import SSV.Model.Persist
/-
C20 — property theorems.
-/
namespace SSV.C20
open SSV.Persist

/-- the regenerated save procedure is the temp-file / sync / rename shape -/
theorem saveProg_is_tempRename : saveProg? = some progTempRename := by decide

/-- the regenerated debounce loop looks at the queue once more on cancellation -/
theorem dequeueProg_is_drain : dequeueProg? = some progDrain := by decide

end SSV.C20

#print axioms SSV.C20.saveProg_is_tempRename
#print axioms SSV.C20.dequeueProg_is_drain
