import SSV.Proofs.Persist
import SSV.Proofs.PersistGen
import SSV.Proofs.Debounce
/-
C20 — A crash or write failure while saving credentials never destroys the store.

Statement: "At every instant during an automatic save of credential changes made through the API, the
user-key store file on disk is a complete, loadable document holding either the previous or the new user
set, so that after a crash, kill or disk-full error at any point the server restarts and accepts exactly
the persisted users. Changes acknowledged before shutdown begins are written before the service stops."

All theorems are about the programs REGENERATED from cred/manager.go (`saveProg?`, `dequeueProg?`,
decoded from `SSV.Gen.C20`). The first three theorems are the Gen side conditions: the source has the
temp-file / fsync / rename shape (finding F13 repaired) and looks at the queue once more on cancellation
(finding F14 repaired). On a tree where `saveToFile` still is `os.WriteFile`, or `dequeueSave` returns
at once on `ctx.Done()`, they fail, and with them everything below; what is true of those shapes instead
is proved at the end (`writeFile_…`, `noDrain_…`).

Model: SSV/Model/Persist.lean. `trace doc fault prog 0 r` lists every file-system state a run passes
through: before every call, after every byte count 0..len of the write, and the final state; with
`fault = some (j, k)` call number `j` fails (the write: after `k` bytes). `PostCrash fs c`: `c` is what a
restart may find at the store path after a power loss in state `fs` (any directory binding since the
start; arbitrary content for a file not fsynced since its last change); `afterKill fs` is what it finds
after a process kill. `load` is `LoadFromFile` at start-up.
-/
namespace SSV.C20
open SSV.Persist

/-! ## Gen side conditions -/

/-- the regenerated save procedure is: stat, CreateTemp in the same directory, write, chmod, fsync, close,
rename over the store path; on failure remove the temporary file and return the error -/
theorem saveProg_is_tempRename : saveProg? = some progTempRename := by decide

/-- the regenerated debounce loop looks at the queue once more when it sees the cancellation -/
theorem dequeueProg_is_drain : dequeueProg? = some progDrain := by decide

/-- facts the debounce model relies on: 1-slot queue; every API mutator calls `enqueueSave` on its only
success path (so "acknowledged" implies "announced") -/
theorem debounce_facts : SSV.Gen.C20.queueCap = 1 ∧ SSV.Gen.C20.mutatorsEnqueue = true := by decide

/-! ## crash safety -/

/-- **crash_safe.** For every old and new store content, at every instant of the save (every prefix of the
FS program, every byte count of the write) a power loss — and a fortiori a process kill — leaves at the
store path a file that the start-up loader reads as exactly the old or the new user set. -/
theorem crash_safe {U : Type} (C : Codec U) (hC : C.Lawful) (old new : U)
    (prog : List Stmt) (hp : saveProg? = some prog) :
    ∀ fs ∈ trace (C.ser new) none prog 0 (startRun (initFS (C.ser old))),
      ∀ c, PostCrash fs c → load C c = some old ∨ load C c = some new := by
  have : prog = progTempRename := by
    have := hp.symm.trans saveProg_is_tempRename; exact Option.some.inj this
  subst this
  intro fs hfs c hc
  rcases trace_tempRename_safe (C.ser old) (C.ser new) none fs hfs c hc with h | h
  · left; rw [h]; exact load_ser C hC old
  · right; rw [h]; exact load_ser C hC new

/-- the same for a process kill (kernel keeps running: the loader sees the current directory and page cache) -/
theorem kill_safe {U : Type} (C : Codec U) (hC : C.Lawful) (old new : U)
    (prog : List Stmt) (hp : saveProg? = some prog) (fault : Fault) :
    ∀ fs ∈ trace (C.ser new) fault prog 0 (startRun (initFS (C.ser old))),
      load C (afterKill fs) = some old ∨ load C (afterKill fs) = some new := by
  have : prog = progTempRename := by
    have := hp.symm.trans saveProg_is_tempRename; exact Option.some.inj this
  subst this
  intro fs hfs
  rcases kill_tempRename (C.ser old) (C.ser new) fault fs hfs with h | h
  · left; rw [h]; exact load_ser C hC old
  · right; rw [h]; exact load_ser C hC new

/-- **enospc_safe.** The same when call number `j` of the save returns an error instead of the machine
crashing (the write: after any `k` bytes — ENOSPC, EFBIG, EIO; also a failing CreateTemp, chmod, fsync,
close, rename): at every instant of the run, including its error path and a crash on that path, the store
is the old or the new set; and when the run is over the store holds the new set iff the save reported
success, otherwise still the old one. -/
theorem enospc_safe {U : Type} (C : Codec U) (hC : C.Lawful) (old new : U)
    (prog : List Stmt) (hp : saveProg? = some prog) (j k : Nat) :
    (∀ fs ∈ trace (C.ser new) (some (j, k)) prog 0 (startRun (initFS (C.ser old))),
      ∀ c, PostCrash fs c → load C c = some old ∨ load C c = some new) ∧
    (let r := finalRun (C.ser new) (some (j, k)) none prog 0 (startRun (initFS (C.ser old)))
     (r.err = false → load C (afterKill r.fs) = some new) ∧
     (r.err = true → load C (afterKill r.fs) = some old)) := by
  have : prog = progTempRename := by
    have := hp.symm.trans saveProg_is_tempRename; exact Option.some.inj this
  subst this
  refine ⟨?_, ?_⟩
  · intro fs hfs c hc
    rcases trace_tempRename_safe (C.ser old) (C.ser new) (some (j, k)) fs hfs c hc with h | h
    · left; rw [h]; exact load_ser C hC old
    · right; rw [h]; exact load_ser C hC new
  · have h := final_tempRename (C.ser old) (C.ser new) (some (j, k))
    refine ⟨fun he => ?_, fun he => ?_⟩
    · rw [h.1 he]; exact load_ser C hC new
    · rw [h.2 he]; exact load_ser C hC old

/-- a save without any fault ends with the new set at the store path and reports success -/
theorem save_completes {U : Type} (C : Codec U) (hC : C.Lawful) (old new : U)
    (prog : List Stmt) (hp : saveProg? = some prog) :
    let r := finalRun (C.ser new) none none prog 0 (startRun (initFS (C.ser old)))
    r.err = false ∧ load C (afterKill r.fs) = some new := by
  have : prog = progTempRename := by
    have := hp.symm.trans saveProg_is_tempRename; exact Option.some.inj this
  subst this
  have h := final_tempRename (C.ser old) (C.ser new) none
  have he : (finalRun (C.ser new) none none progTempRename 0 (startRun (initFS (C.ser old)))).err = false := by
    simp [finalRun, progTempRename, enabled, faultAt, execOp, execOk, writeBytes, upd, startRun, initFS]
  exact ⟨he, by rw [h.1 he]; exact load_ser C hC new⟩

/-! ### every save of every history, from any file system -/

/-- **crash_safe, any start state.** Not only from the two-file toy directory: from ANY file system in
which the store path names a synced file with the old document and that entry is on stable storage
(arbitrary other inodes, stale temporary files left by earlier crashes, any temp-name counter), with or
without one failing call: at every instant a power loss leaves the old or the new set. -/
theorem crash_safe_any_start {U : Type} (C : Codec U) (hC : C.Lawful) (old new : U)
    (prog : List Stmt) (hp : saveProg? = some prog) (fs0 : FS) (hq : Quiescent fs0 (C.ser old)) (fault : Fault) :
    ∀ fs ∈ trace (C.ser new) fault prog 0 (startRun fs0),
      ∀ c, PostCrash fs c → load C c = some old ∨ load C c = some new := by
  have : prog = progTempRename := by
    have := hp.symm.trans saveProg_is_tempRename; exact Option.some.inj this
  subst this
  intro fs hfs c hc
  rcases trace_tempRename_safe_gen fs0 (C.ser old) (C.ser new) hq fault fs hfs c hc with h | h
  · left; rw [h]; exact load_ser C hC old
  · right; rw [h]; exact load_ser C hC new

/-- **every save of a history (process kill / write errors).** After any history of saves — each writing any
document, each with or without a failing call (the write after any byte count) — from any file system whose
store path shows the set `u0`: at every instant of the next save (again with any failing call) a process
kill leaves the store path readable as exactly the set of the last save that reported success, or the new
set. The directory may contain whatever the history left behind. -/
theorem kill_safe_history {U : Type} (C : Codec U) (hC : C.Lawful) (u0 new : U)
    (prog : List Stmt) (hp : saveProg? = some prog) (fs0 : FS) (h0 : afterKill fs0 = some (C.ser u0))
    (hist : List (U × Fault)) (fault : Fault) :
    let docs := hist.map (fun p => (C.ser p.1, p.2))
    ∃ prev, (prev = u0 ∨ prev ∈ hist.map (·.1)) ∧
      C.ser prev = lastSaved prog fs0 (C.ser u0) docs ∧
      ∀ fs ∈ trace (C.ser new) fault prog 0 (startRun (runSaves prog fs0 docs)),
        load C (afterKill fs) = some prev ∨ load C (afterKill fs) = some new := by
  have : prog = progTempRename := by
    have := hp.symm.trans saveProg_is_tempRename; exact Option.some.inj this
  subst this
  intro docs
  have hk := history_kq fs0 (C.ser u0) docs h0
  have hm := lastSaved_mem progTempRename fs0 (C.ser u0) docs
  have hprev : ∃ prev, (prev = u0 ∨ prev ∈ hist.map (·.1)) ∧ C.ser prev = lastSaved progTempRename fs0 (C.ser u0) docs := by
    rcases hm with h | h
    · exact ⟨u0, Or.inl rfl, h.symm⟩
    · simp only [docs, List.map_map, List.mem_map] at h
      obtain ⟨p, hp1, hp2⟩ := h
      exact ⟨p.1, Or.inr (List.mem_map.mpr ⟨p, hp1, rfl⟩), by simpa using hp2⟩
  obtain ⟨prev, hpm, hps⟩ := hprev
  refine ⟨prev, hpm, hps, ?_⟩
  intro fs hfs
  rw [← hps] at hk
  rcases kill_tempRename_gen _ (C.ser prev) (C.ser new) hk fault fs hfs with h | h
  · left; rw [h]; exact load_ser C hC prev
  · right; rw [h]; exact load_ser C hC new

example (d : Bytes) : Quiescent (initFS d) d := quiescent_init d
/-- a start state with an unrelated inode, a stale temporary file and an advanced counter -/
example : Quiescent
    ({ inodes := [⟨[9], false⟩, ⟨[1, 0], true⟩, ⟨[1, 1], false⟩], target := some 1, thist := [some 1], tmps := [(4, 2)], next := 7 } : FS)
    [1, 0] := ⟨1, rfl, rfl, rfl⟩

/-! ### the hypotheses are satisfiable, the quantifiers range over something -/

/-- a lawful codec (unary numbers terminated by 0) for which strict prefixes do not load -/
def toyCodec : Codec Nat :=
  { ser := fun n => List.replicate n 1 ++ [0]
    decode := fun b => if b.getLast? = some 0 then some (b.length - 1) else none
    empty := 0 }

theorem toy_lawful : toyCodec.Lawful :=
  ⟨by intro u; simp [toyCodec], by intro u; simp [toyCodec]⟩

example : saveProg? = some progTempRename := saveProg_is_tempRename
/-- the trace of a concrete save has 12 + 3·… states; among them one with a half-written temporary file -/
example : ({ inodes := [⟨[1, 1, 0], true⟩, ⟨[1, 1], false⟩], target := some 0, thist := [some 0], tmps := [(0, 1)], next := 1 } : FS)
    ∈ trace (toyCodec.ser 3) none progTempRename 0 (startRun (initFS (toyCodec.ser 2))) := by decide
example : PostCrash (initFS [1, 0]) (some [1, 0]) := ⟨some 0, by simp [initFS], ⟨[1, 0], true⟩, rfl, [1, 0], rfl, fun _ => rfl⟩
/-- a dirty file really can come back as anything -/
example : PostCrash { inodes := [⟨[1, 0], false⟩], target := some 0, thist := [some 0], tmps := [], next := 0 } (some [7, 7, 7]) :=
  ⟨some 0, by simp, ⟨[1, 0], false⟩, rfl, [7, 7, 7], rfl, by simp⟩
example : (finalRun (toyCodec.ser 3) (some (3, 2)) none progTempRename 0 (startRun (initFS (toyCodec.ser 2)))).err = true := by decide

/-! ## acknowledged changes are saved before Stop returns -/

/-- **ack_saved_before_stop.** In every reachable state of the debounce transition system — every interleaving
of API calls (mutate, then enqueue, then return), the cancellation, and the saver goroutine, with every choice
a `select` with several ready alternatives can make, whatever the phase (queued / cooling down / saving) in
which the cancellation arrives — once the saver goroutine has returned (`wg.Wait()` in `Stop` is released)
the file holds at least every change acknowledged before the cancellation. -/
theorem ack_saved_before_stop (prog : List Node) (hp : dequeueProg? = some prog)
    (s : DState) (h : Reach prog s) (hx : s.exited = true) : s.acked ≤ s.disk := by
  have : prog = progDrain := by
    have := hp.symm.trans dequeueProg_is_drain; exact Option.some.inj this
  subst this
  obtain ⟨_, _, _, hex, _, h4, _⟩ := dinv_reach h
  exact (h4 (hex hx)).2

/-- the goroutine returns only after the cancellation (no spontaneous exit that would end saving) -/
theorem exit_only_after_cancel (prog : List Node) (hp : dequeueProg? = some prog)
    (s : DState) (h : Reach prog s) (hx : s.exited = true) : s.cancelled = true := by
  have : prog = progDrain := by
    have := hp.symm.trans dequeueProg_is_drain; exact Option.some.inj this
  subst this
  obtain ⟨_, _, _, hex, _, h4, _⟩ := dinv_reach h
  exact (h4 (hex hx)).1

/-- non-vacuity: a run in which a change is acknowledged, the shutdown arrives during the cool-down, the
goroutine saves and exits -/
theorem stop_reachable : ∃ s, Reach progDrain s ∧ s.exited = true ∧ s.acked = 1 ∧ s.disk = 1 := by
  have r1 := Reach.step Reach.init (Step.mutate (prog := progDrain) dinit)
  have r2 := Reach.step r1 (Step.enqueue _ 1 (by simp [dinit]))
  have r3 := Reach.step r2 (Step.sel _ [(.queue, 1), (.ctx, 5)] .queue 1 rfl rfl (by simp) rfl)
  have r4 := Reach.step r3 (Step.cancel _)
  have r5 := Reach.step r4 (Step.sel _ [(.timer, 2), (.ctx, 2)] .ctx 2 rfl rfl (by simp) rfl)
  have r6 := Reach.step r5 (Step.sel _ [(.queue, 3), (.dflt, 3)] .dflt 3 rfl rfl (by simp) rfl)
  have r7 := Reach.step r6 (Step.save _ 0 rfl rfl)
  have r8 := Reach.step r7 (Step.sel _ [(.queue, 1), (.ctx, 5)] .ctx 5 rfl rfl (by simp) rfl)
  have r9 := Reach.step r8 (Step.sel _ [(.queue, 1), (.dflt, 4)] .dflt 4 rfl rfl (by simp) rfl)
  have r10 := Reach.step r9 (Step.ret _ rfl rfl)
  exact ⟨_, r10, rfl, rfl, rfl⟩

/-! ## the shapes of the pinned tree (findings F13, F14): what fails, and what still holds -/

/-- **F13 witness.** With `os.WriteFile` (truncate, then write) the run passes through a state in which the
store path names an empty file — after a kill and after a power loss alike. The loader then "succeeds" with
the empty store: neither the old nor the new user set unless one of them is empty. -/
theorem writeFile_not_crash_safe {U : Type} (C : Codec U) (old new : U) (ho : old ≠ C.empty) (hn : new ≠ C.empty) :
    ¬ (∀ fs ∈ trace (C.ser new) none progWriteFile 0 (startRun (initFS (C.ser old))),
        ∀ c, PostCrash fs c → load C c = some old ∨ load C c = some new) := by
  intro h
  obtain ⟨fs, hfs, _, hpc⟩ := writeFile_passes_empty (C.ser old) (C.ser new)
  rcases h fs hfs _ hpc with h | h <;> simp [load] at h
  · exact ho h.symm
  · exact hn h.symm

/-- **F13, every byte count.** With `os.WriteFile`, for every `j` the run passes through a state in which
the store path names exactly the first `j` bytes of the new document; under the JSON hypothesis
`PrefixUnloadable` such a file does not load (start-up aborts), except for the document without its final
newline. -/
theorem writeFile_cut_unloadable {U : Type} (C : Codec U) (hP : C.PrefixUnloadable) (old new : U) (j : Nat)
    (h0 : 0 < j) (hj : j < (C.ser new).length) :
    ∃ fs ∈ trace (C.ser new) none progWriteFile 0 (startRun (initFS (C.ser old))),
      afterKill fs = some ((C.ser new).take j) ∧
      (load C (afterKill fs) = none ∨ load C (afterKill fs) = some new) := by
  obtain ⟨fs, hfs, hk⟩ := writeFile_passes_prefix (C.ser old) (C.ser new) j (Nat.le_of_lt hj)
  refine ⟨fs, hfs, hk, ?_⟩
  rw [hk]
  have hne : (C.ser new).take j ≠ [] := by
    intro h
    have h1 : ((C.ser new).take j).length = 0 := by rw [h]; rfl
    rw [List.length_take] at h1; omega
  have hne2 : (C.ser new).take j ≠ C.ser new := by
    intro h
    have h1 : ((C.ser new).take j).length = (C.ser new).length := by rw [h]
    rw [List.length_take] at h1; omega
  have := hP new _ (List.take_prefix j (C.ser new)) hne2 hne
  cases ht : (C.ser new).take j with
  | nil => exact absurd ht hne
  | cons b bs => simp only [load]; rw [← ht]; exact this

/-- **crash_safe_partial for the truncate-then-write shape**: what does hold — under a process kill or a
failing call the store path holds the old document or a prefix of the new one, never unrelated bytes. -/
theorem writeFile_crash_safe_partial (o n : Bytes) (fault : Fault) :
    ∀ fs ∈ trace n fault progWriteFile 0 (startRun (initFS o)),
      afterKill fs = some o ∨ ∃ p, p <+: n ∧ afterKill fs = some p :=
  writeFile_kill_prefix o n fault

/-- **F14 witness.** Without the final look at the queue: change acknowledged, context cancelled, the first
`select` takes `ctx.Done()`, the goroutine returns — `Stop` returns with the change not on disk. -/
theorem noDrain_loses_acknowledged_change : ∃ s, Reach progNoDrain s ∧ s.exited = true ∧ s.disk < s.acked := by
  have r1 := Reach.step Reach.init (Step.mutate (prog := progNoDrain) dinit)
  have r2 := Reach.step r1 (Step.enqueue _ 1 (by simp [dinit]))
  have r3 := Reach.step r2 (Step.cancel _)
  have r4 := Reach.step r3 (Step.sel _ [(.queue, 1), (.ctx, 4)] .ctx 4 rfl rfl (by simp) rfl)
  have r5 := Reach.step r4 (Step.ret _ rfl rfl)
  exact ⟨_, r5, rfl, by decide⟩

end SSV.C20

#print axioms SSV.C20.saveProg_is_tempRename
#print axioms SSV.C20.dequeueProg_is_drain
#print axioms SSV.C20.debounce_facts
#print axioms SSV.C20.crash_safe
#print axioms SSV.C20.kill_safe
#print axioms SSV.C20.enospc_safe
#print axioms SSV.C20.save_completes
#print axioms SSV.C20.crash_safe_any_start
#print axioms SSV.C20.kill_safe_history
#print axioms SSV.C20.toy_lawful
#print axioms SSV.C20.ack_saved_before_stop
#print axioms SSV.C20.exit_only_after_cancel
#print axioms SSV.C20.stop_reachable
#print axioms SSV.C20.writeFile_not_crash_safe
#print axioms SSV.C20.writeFile_cut_unloadable
#print axioms SSV.C20.writeFile_crash_safe_partial
#print axioms SSV.C20.noDrain_loses_acknowledged_change
