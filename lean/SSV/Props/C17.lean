import SSV.Proofs.Lru
import SSV.Proofs.LruSpec
import SSV.Proofs.Dns
/-
C17 — The resolver returns only upstream's answers, honours TTLs, degrades safely.

Property theorems about the models `SSV.Model.Lru` (cache/cache.go) and `SSV.Model.Dns`
(dns/dns.go). Facts that come from the source (`SSV.Gen.C17`): the two transaction ids, the
rcode classes, the shape of every expiry assignment of `parseMsg` (`failureExpiryMin`,
`answerExpiryMin`, `soaOnlyIfZero`), the caching time of failures, the retry counts.
`expiry_le_every_ttl` needs `failureExpiryMin = true`: with the pinned source (finding F11:
a failure rcode overwrites the expiry unconditionally) it does not check.
-/
namespace SSV.C17
open SSV.Dns SSV.Gen.C17 SSV.Lru

/-! ### LRU cache -/

/-- **lru_refines_map.** For EVERY capacity and EVERY sequence of Get/Set/Insert/Remove/Contains,
the pointer-level model of `BoundedCache` (heap nodes with `prev`/`next`, `head`, `tail`, the
`nodeByKey` index) never dereferences nil, answers exactly like a map restricted to the `cap` most
recently used keys (`Lru.Spec`), and its list and index stay consistent: `All()` enumerates exactly
the represented entries from least to most recently used and terminates, `Backward()` the reverse,
`Len()` is their number, keys are distinct and there are never more than `cap` of them. -/
theorem lru_refines_map {K V : Type} [DecidableEq K] (capacity : Int) (ops : List (Lru.Op K V)) :
    ∃ c outs s,
      Lru.run (Lru.new capacity) ops = some (c, outs) ∧
      Lru.Spec.run (Lru.new capacity : Lru.Cache K V).cap [] ops = (s, outs) ∧
      Lru.all c = (s, true) ∧ Lru.backward c = (s.reverse, true) ∧ Lru.len c = s.length ∧
      (s.map Prod.fst).Nodup ∧ s.length ≤ c.cap ∧ c.cap = (Lru.new capacity : Lru.Cache K V).cap :=
  Lru.run_refines capacity ops

example : (Lru.run (Lru.new 2 : Lru.Cache Nat Nat) [.set 1 10, .set 2 20, .get 1, .set 3 30, .get 2, .get 1]).map (·.2)
    = some [.done, .done, .got (some 10), .done, .got none, .got (some 10)] := by decide

/-- the specification really is a bounded map: a `Get` changes no binding -/
theorem spec_get_keeps_bindings {K V : Type} [DecidableEq K] (s : Lru.Spec K V) (k k' : K) :
    Lru.Spec.find (Lru.Spec.get s k).1 k' = Lru.Spec.find s k' := find_get s k k'

/-- the specification is the bounded map the property speaks of: after `Set k v` a lookup of `k` finds `v` (any capacity) -/
theorem spec_set_find_self {K V : Type} [DecidableEq K] (cap : Nat) (s : Spec K V) (k : K) (v : V) :
    Spec.find (Spec.set cap s k v) k = some v := by
  unfold Spec.set
  cases hf : Spec.find s k with
  | none =>
    have hn := (sfind_none_iff s k).1 hf
    have : Spec.find (if s.length = cap then s.tail else s) k = none := by
      rw [sfind_none_iff]; intro p hp
      split at hp
      · exact hn p (List.mem_of_mem_tail hp)
      · exact hn p hp
    simp [Spec.add, sfind_append, this, Spec.find]
  | some w => simp [Spec.touch, sfind_append, sfind_erase_self, Spec.find]

/-- … and a `Set` that does not evict (the key was present, or the cache is not full) changes no other binding -/
theorem spec_set_find_other {K V : Type} [DecidableEq K] (cap : Nat) (s : Spec K V) (k k' : K) (v : V) (hk : k' ≠ k)
    (hroom : Spec.find s k ≠ none ∨ s.length ≠ cap) :
    Spec.find (Spec.set cap s k v) k' = Spec.find s k' := by
  have hkk : ¬ k = k' := fun e => hk e.symm
  unfold Spec.set
  cases hf : Spec.find s k with
  | none =>
    have hl : s.length ≠ cap := by
      rcases hroom with h | h
      · exact absurd hf h
      · exact h
    simp [Spec.add, hl, sfind_append, Spec.find, hkk]
    cases Spec.find s k' <;> rfl
  | some w =>
    simp [Spec.touch, sfind_append, sfind_erase_other s k k' hk, Spec.find, hkk]
    cases Spec.find s k' <;> rfl
example : Lru.Spec.find (Lru.Spec.set 2 [(1, 10), (2, 20)] 3 30) 3 = some 30 ∧ Lru.Spec.find (Lru.Spec.set 2 [(1, 10), (2, 20)] 3 30) 1 = none ∧
    Lru.Spec.find (Lru.Spec.set 3 [(1, 10), (2, 20)] 3 30) 1 = some 10 := by decide

/-- **node_key_stable** (pointer stability, for the `*Entry`-returning API `Gen.entryPointerAPIs` =
`GetEntry`): starting from a new cache, whatever operations run, a node that exists after a prefix of
the operations still exists after the whole sequence and still carries the same key: nodes are never
recycled for another key, so a pointer obtained for key `k` can never alias the binding of another
key. (The seeded "re-key the evicted node in place" edit breaks exactly this; Gen refuses it.) -/
theorem node_key_stable {K V : Type} [DecidableEq K] (capacity : Int) (ops1 ops2 : List (Lru.Op K V))
    (c1 c2 : Lru.Cache K V) (o1 o2 : List (Lru.Out V))
    (h1 : Lru.run (Lru.new capacity) ops1 = some (c1, o1)) (h2 : Lru.run c1 ops2 = some (c2, o2))
    (i : Nat) (n : Lru.Node K V) (hn : c1.heap i = some n) :
    ∃ n', c2.heap i = some n' ∧ n'.key = n.key := by
  have hb0 : Lru.HB (Lru.new capacity : Lru.Cache K V).heap (Lru.new capacity : Lru.Cache K V).fresh := fun _ _ => rfl
  have s1 := Lru.run_stable _ c1 ops1 o1 h1 hb0
  exact (Lru.run_stable c1 c2 ops2 o2 h2 s1.2).1 i n hn

/-! ### TTLs -/

/-- **expiry_le_every_ttl.** Whatever the upstream script (UDP events, TCP connections) and the
configuration: the builder `sendQueries` ends with is the result of feeding `parseMsg` a sequence
`tr` of timed messages that all really came from upstream (datagrams from the configured server
address, frames of the lookup's TCP connections), and for EVERY message of that sequence that was
looked at (its family still open, usable header): the final expiry is set and is at most
`receive time + ttl` for every answer record of it (also the record whose body fails to parse
is covered by `parseMsg` itself), and at most `receive time + rcodeFailureCachingDuration` if it
carries a failure rcode. Depends on the Gen facts `failureExpiryMin`, `answerExpiryMin`. -/
theorem expiry_le_every_ttl (cfg : Config) (now : Nat) (up : Upstream) :
    ∃ tr, (sendQueries cfg now up).b = feed {} tr ∧ Sourced (FromUpstream up) tr ∧
      ∀ pre t m u post, tr = pre ++ (t, Wire.msg m, u) :: post → Open (feed {} pre) m → Usable m →
        (m.qOk = true → ∀ x ∈ m.answers, ExpLe (sendQueries cfg now up).b.exp (t + x.ttl * sec)) ∧
        (rcodeFailure.contains m.rcode = true →
          ExpLe (sendQueries cfg now up).b.exp (t + rcodeFailureCachingDuration)) := by
  obtain ⟨tr, h1, h2⟩ := sendQueries_trace cfg now up
  refine ⟨tr, h1, h2, ?_⟩
  intro pre t m u post htr ho hu
  rw [h1, htr, feed_append]
  simp only [feed]
  exact ⟨fun hq x hx => feed_lowers _ post _ (parseMsg_ans_le _ t m u ho hu hq x hx),
         fun hf => feed_lowers _ post _ (parseMsg_fail_le _ t m u ho hu hf)⟩

/-- hypotheses of `expiry_le_every_ttl` are satisfiable: the F11 witness (A with TTL 10 s, then AAAA
SERVFAIL) — with the repaired source the entry expires after 10 s, not 30 s. -/
def f11Up : Upstream := { conns := [.conn
  [.wire 0 (.msg { id := 4, response := true, ra := true, tc := false, rcode := 0, qOk := true,
                   answers := [{ kind := 1, ttl := 10, addr := "c0000201" }], ansEnd := .done, auths := [], authEnd := .done }),
   .wire 0 (.msg { id := 6, response := true, ra := true, tc := false, rcode := 2, qOk := true,
                   answers := [], ansEnd := .done, auths := [], authEnd := .done })] (.close 0)] }

example : (sendQueries { hasUDP := false, hasTCP := true, cap := 4 } 0 f11Up).b.exp = some (10 * sec) := by decide

/-- a fresh lookup result is the builder's result -/
theorem fresh_is_builder (cfg : Config) (st : State) (name : String) (up : Upstream) (r : Result)
    (h : (lookup cfg st name up).out = .fresh r) : r = (sendQueries cfg st.now up).b.result := by
  unfold lookup at h
  dsimp only at h
  split at h
  · split at h
    · cases h
    · split at h <;> cases h; rfl
  · split at h <;> cases h; rfl

/-- **no_reuse_after_expiry.** (a) A lookup is served from the cache only while the entry's expiry
has not passed: then the cached entry is returned as it is and upstream is not asked. (b) Once the
expiry of the cached entry has passed (or there is none), upstream is asked again. -/
theorem no_reuse_after_expiry (cfg : Config) (st : State) (name : String) (up : Upstream) :
    (∀ r, (lookup cfg st name up).out = .hit r →
        Spec.find st.cache name = some r ∧ (∃ e, r.exp = some e ∧ st.now ≤ e) ∧ (lookup cfg st name up).send = none) ∧
    ((∀ r, Spec.find st.cache name = some r → r.hasExpired st.now = true) →
        (lookup cfg st name up).send = some (sendQueries cfg st.now up)) := by
  have hg := get_snd st.cache name
  unfold lookup
  dsimp only
  cases hf : Spec.find st.cache name with
  | none =>
    rw [hf] at hg
    simp only [hg]
    refine ⟨?_, ?_⟩
    · intro r h; split at h <;> cases h
    · intro _; split <;> rfl
  | some r0 =>
    rw [hf] at hg
    simp only [hg]
    refine ⟨?_, ?_⟩
    · intro r h
      split at h
      · rename_i hne
        cases h
        refine ⟨rfl, ?_, by simp [hne]⟩
        unfold Result.hasExpired at hne
        cases he : r0.exp with
        | none => simp [he] at hne
        | some e => simp only [he] at hne; exact ⟨e, rfl, by simpa using hne⟩
      · split at h <;> cases h
    · intro hall
      have := hall r0 rfl
      simp only [this, Bool.not_true, Bool.false_eq_true, if_false]
      split <;> rfl

/-- **stale_only_on_failure.** An expired entry is served only if it is the cached entry for the
name, it has expired, and asking upstream failed (not both families answered on any transport). -/
theorem stale_only_on_failure (cfg : Config) (st : State) (name : String) (up : Upstream) (r : Result)
    (h : (lookup cfg st name up).out = .stale r) :
    Spec.find st.cache name = some r ∧ r.hasExpired st.now = true ∧ (sendQueries cfg st.now up).b.isDone = false := by
  have hg := get_snd st.cache name
  unfold lookup at h
  dsimp only at h
  cases hf : Spec.find st.cache name with
  | none =>
    rw [hf] at hg; simp only [hg] at h
    split at h <;> cases h
  | some r0 =>
    rw [hf] at hg; simp only [hg] at h
    split at h
    · cases h
    · rename_i hexp
      split at h
      · rename_i hnd
        cases h
        exact ⟨rfl, by simpa using hexp, by simpa using hnd⟩
      · cases h


/-! ### Fallback order -/
/-- the UDP receive loop only ever reports "done" when both families are done, and while it runs
the builder is not done: every other way of leaving it (timeout/silence, truncation, unusable
response) leaves the lookup unfinished. -/
theorem udp_unfinished_unless_done (dl : Nat) (evs : List UdpEv) (o : UdpOut) (h0 : o.b.isDone = false)
    (hs : (udpLoop dl o evs).why ≠ .done) : (udpLoop dl o evs).b.isDone = false := by
  induction evs generalizing o with
  | nil => simpa [udpLoop] using h0
  | cons ev rest ih =>
    cases ev with
    | silence => simpa [udpLoop] using h0
    | readErr dt =>
      unfold udpLoop at hs ⊢
      split
      · exact h0
      · rename_i hh; simp only [hh, if_false] at hs; exact ih _ h0 hs
    | dgram dt fs w =>
      unfold udpLoop at hs ⊢
      split
      · exact h0
      · rename_i hh
        simp only [hh, if_false] at hs
        dsimp only at hs ⊢
        cases fs with
        | false =>
          simp only [Bool.not_false, if_true] at hs ⊢
          exact ih _ h0 hs
        | true =>
          simp only [Bool.not_true, Bool.false_eq_true, if_false] at hs ⊢
          cases hp : parseMsg o.b (o.now + dt) w true with
          | mk b' r =>
            simp only [hp] at hs ⊢
            cases r with
            | none =>
              dsimp only
              have := parseMsg_err_done o.b (o.now + dt) w true (by rw [hp])
              rw [hp] at this
              have h1 : b'.v4done = o.b.v4done := this.1
              have h2 : b'.v6done = o.b.v6done := this.2
              simp only [Builder.isDone, h1, h2] at h0 ⊢
              exact h0
            | some h =>
              dsimp only at hs ⊢
              by_cases htc : h.tc = true
              · simp only [htc, if_true] at hs ⊢
                have := parseMsg_tc_udp o.b b' (o.now + dt) w h hp htc
                simp only [Builder.isDone, this.1, this.2] at h0 ⊢
                exact h0
              · simp only [htc, Bool.false_eq_true, if_false] at hs ⊢
                by_cases hd : b'.isDone = true
                · simp [hd] at hs
                · simp only [hd, Bool.false_eq_true, if_false] at hs ⊢
                  exact ih _ (by simpa using hd) hs


/-- **fallback_order.** (1) UDP is tried first when configured; unless its receive loop ended because
both families were answered — i.e. whenever it ended by timeout/silence (unanswered), by a truncated
response, or by an unusable response — the lookup is unfinished after UDP. (2) TCP is consulted exactly
when a TCP client is configured and the lookup is unfinished after the UDP phase (or there was none).
(3) The lookup fails (stale entry or error; see `stale_only_on_failure`) exactly when the builder is not
done after both phases — that is the definition of `lookup` and is used by `stale_only_on_failure`. -/
theorem fallback_order (cfg : Config) (now : Nat) (up : Upstream) :
    ((sendQueriesUDP {} now up.udp).why ≠ .done → (sendQueriesUDP {} now up.udp).b.isDone = false) ∧
    (sendQueries cfg now up).tcpTried =
      (cfg.hasTCP && !(if cfg.hasUDP then (sendQueriesUDP {} now up.udp).b.isDone else false)) := by
  refine ⟨fun h => udp_unfinished_unless_done _ up.udp { b := {}, now := now } rfl h, ?_⟩
  unfold sendQueries
  dsimp only
  cases cfg.hasUDP <;> cases cfg.hasTCP <;> simp [Builder.isDone]
  all_goals (cases (sendQueriesUDP {} now up.udp).b.v4done <;> cases (sendQueriesUDP {} now up.udp).b.v6done <;> simp)

/-- **fallback_order, budgets.** Each transport arms its own `lookupTimeout` (Gen facts `udpOwnBudget`,
`tcpOwnBudget`: the only deadlines of the package are the first statements of `sendQueriesUDP` and
`sendQueriesTCP`). So a UDP phase that ends by timeout — upstream silent for the whole
`lookupTimeout` — ends at `now + lookupTimeout`, and the TCP fallback then runs with a FRESH full
budget (deadline `now + 2·lookupTimeout`): the result of the lookup is exactly the result of the TCP
retry loop under that budget, i.e. the lookup fails only if TCP fails within its own budget. -/
theorem tcp_fresh_budget_after_udp_timeout (cfg : Config) (now : Nat) (up : Upstream)
    (hU : cfg.hasUDP = true) (hT : cfg.hasTCP = true)
    (hto : (sendQueriesUDP {} now up.udp).why = .timeout) :
    udpOwnBudget = true ∧ tcpOwnBudget = true ∧
    (sendQueriesUDP {} now up.udp).now = now + lookupTimeout ∧
    (sendQueries cfg now up).b =
      (tcpLoop (now + lookupTimeout + lookupTimeout) tcpAttempts
        { b := (sendQueriesUDP {} now up.udp).b, now := now + lookupTimeout } up.conns).b := by
  have hnow : (sendQueriesUDP {} now up.udp).now = now + lookupTimeout := udpLoop_timeout_now _ _ _ hto
  have hnd : (sendQueriesUDP {} now up.udp).b.isDone = false :=
    udp_unfinished_unless_done _ up.udp { b := {}, now := now } rfl (by
      have : (udpLoop (now + lookupTimeout) { b := {}, now := now } up.udp).why = .timeout := hto
      rw [this]; intro h; cases h)
  refine ⟨rfl, rfl, hnow, ?_⟩
  unfold sendQueries
  simp only [hU, hT, if_true, hnd, Bool.not_false, Bool.and_self, sendQueriesTCP, hnow]

/-- UDP silent for the whole lookup timeout, TCP answers both queries: the lookup succeeds, 20 s late. -/
def silentUdpUp : Upstream := { udp := [.silence], conns := f11Up.conns }

example : (sendQueries { hasUDP := true, hasTCP := true, cap := 4 } 0 silentUdpUp).b.isDone = true ∧
    (sendQueries { hasUDP := true, hasTCP := true, cap := 4 } 0 silentUdpUp).now = lookupTimeout := by decide


/-! ### Malformed responses -/


/-- **malformed_no_poison** (1): if every message upstream sends for this lookup is one `parseMsg`
rejects (garbage, wrong id, not a response, RA=0, unknown rcode, malformed at any stage), the
lookup does not complete, whatever the order, transport and timing. -/
theorem malformed_never_completes (cfg : Config) (now : Nat) (up : Upstream)
    (hbad : ∀ w, FromUpstream up w → Bad w) : (sendQueries cfg now up).b.isDone = false := by
  obtain ⟨tr, h1, h2⟩ := sendQueries_trace cfg now up
  have := feed_bad_done tr {} (fun e he => hbad e.2.1 (h2 e he))
  rw [h1]
  simp only [Builder.isDone, this.1, this.2]
  rfl

/-- **malformed_no_poison** (2): a lookup that does not end with a fresh upstream result (cache hit,
stale answer, failure) leaves every binding of the cache as it was — only the recency order moves. -/
theorem no_poison (cfg : Config) (st : State) (name : String) (up : Upstream)
    (hnf : ∀ r, (lookup cfg st name up).out ≠ .fresh r) (k : String) :
    Spec.find (lookup cfg st name up).st.cache k = Spec.find st.cache k := by
  have hfg := find_get st.cache name k
  unfold lookup at hnf ⊢
  dsimp only at hnf ⊢
  split
  · split
    · exact hfg
    · split
      · exact hfg
      · rename_i h1 h2 h3
        exfalso
        simp only [h1, h2, h3, if_false] at hnf
        exact hnf _ rfl
  · split
    · exact hfg
    · rename_i h1 h3
      exfalso
      simp only [h1, h3, if_false] at hnf
      exact hnf _ rfl


/-! ### Only upstream's answers -/

/-- **answers_only.** Every address in the builder `sendQueries` ends with — hence in every fresh
lookup result (`fresh_is_builder`) — is the address of an A/AAAA record in the answer section of a
message that (i) really came from upstream for this lookup: a datagram whose source is the configured
server address or a frame on one of the lookup's own TCP connections (datagrams from other sources are
never parsed), (ii) carries one of the lookup's own two transaction ids, and (iii) is a response
(QR=1) with RA=1. For all upstream scripts, orders, transports and timings. -/
theorem answers_only (cfg : Config) (now : Nat) (up : Upstream) (x : String)
    (hx : x ∈ (sendQueries cfg now up).b.addrs) :
    ∃ m, FromUpstream up (.msg m) ∧ AddrIn m x := by
  obtain ⟨tr, h1, h2⟩ := sendQueries_trace cfg now up
  rw [h1] at hx
  rcases feed_addrs tr {} x hx with h | ⟨e, he, m, hm, ha⟩
  · simp [Builder.addrs] at h
  · exact ⟨m, by rw [← hm]; exact h2 e he, ha⟩

example : "c0000201" ∈ (sendQueries { hasUDP := false, hasTCP := true, cap := 4 } 0 f11Up).b.addrs := by decide

/-- a message with a foreign transaction id has no effect at all -/
theorem foreign_id_no_effect (b : Builder) (t : Nat) (m : Msg) (u : Bool) (h4 : m.id ≠ idV4) (h6 : m.id ≠ idV6) :
    parseMsg b t (.msg m) u = (b, none) := by
  simp [parseMsg, idCheck, h4, h6]

/-- **answers_only_conc.** Concurrent lookups on one resolver: each `Lookup` is a locked cache probe
(`Act.probe`), an unlocked upstream round trip, and a locked store (`Act.finish`); the actions of any
number of goroutines interleave ARBITRARILY, the cache has any capacity (evictions included). In every
interleaving, every result handed to a caller for name `X` — fresh, served from the cache, or stale —
is the completed result of an upstream round trip that was made for a lookup of `X` itself
(`Justified`: some goroutine probed `X` at `t0`, its round trip ended with script `up`, the result is
what `sendQueries` built from `up`), and so every address in it comes from an accepted upstream answer
to a query for `X` (`answers_only`). No binding ever moves from one name to another. This rests on the
Gen facts that `Lookup` reads the cache only by `Get(name)` and writes it only by `Set(name, result)`
under the mutex (no entry pointer survives the unlocked part), and on `lru_refines_map` for the cache. -/
theorem answers_only_conc (cfg : Config) (acts : List Act) :
    ∀ e ∈ (crun cfg {} acts).2, ∀ r, Carries e.out r →
      ∃ tid t0 up, Act.probe tid e.name t0 ∈ acts ∧ Act.finish tid up ∈ acts ∧
        (sendQueries cfg t0 up).b.isDone = true ∧ r = (sendQueries cfg t0 up).b.result ∧
        ∀ x ∈ r.a ++ r.aaaa, ∃ m, FromUpstream up (.msg m) ∧ AddrIn m x := by
  have hinv : CInv cfg [] ({} : CState) := ⟨(by intro kv h; cases h), (by intro tp h; cases h)⟩
  obtain ⟨_, h2⟩ := crun_inv cfg acts [] {} hinv
  intro e he r hr
  obtain ⟨tid, t0, up, p1, p2, p3, p4⟩ := h2 e he r hr
  simp only [List.nil_append] at p1 p2
  refine ⟨tid, t0, up, p1, p2, p3, p4, ?_⟩
  intro x hx
  rw [p4] at hx
  exact answers_only cfg t0 up x hx

/-- the Gen facts the concurrent model and the pointer-level cache model stand on (GEN-BROKEN, i.e. a
broken tie, if the source has another shape) -/
theorem gen_shapes : lookupProbeIsGet = true ∧ lookupStoreIsSetByName = true ∧ insertAllocatesFreshNode = true ∧
    udpOwnBudget = true ∧ tcpOwnBudget = true ∧ answerTTLBeforeBody = true := by
  decide

end SSV.C17

#print axioms SSV.C17.lru_refines_map
#print axioms SSV.C17.spec_get_keeps_bindings
#print axioms SSV.C17.node_key_stable
#print axioms SSV.C17.expiry_le_every_ttl
#print axioms SSV.C17.fresh_is_builder
#print axioms SSV.C17.no_reuse_after_expiry
#print axioms SSV.C17.stale_only_on_failure
#print axioms SSV.C17.udp_unfinished_unless_done
#print axioms SSV.C17.fallback_order
#print axioms SSV.C17.tcp_fresh_budget_after_udp_timeout
#print axioms SSV.C17.malformed_never_completes
#print axioms SSV.C17.no_poison
#print axioms SSV.C17.answers_only
#print axioms SSV.C17.foreign_id_no_effect
#print axioms SSV.C17.answers_only_conc
#print axioms SSV.C17.gen_shapes
#print axioms SSV.C17.spec_set_find_self
#print axioms SSV.C17.spec_set_find_other
