import SSV.Model.Dns
/-
C17 — property theorems.
-/
namespace SSV.C17
open SSV.Dns SSV.Gen.C17

/-- A response whose header does not parse changes nothing. -/
theorem garbage_no_effect (b : Builder) (now : Nat) (isUDP : Bool) :
    parseMsg b now .garbage isUDP = (b, none) := rfl

end SSV.C17

#print axioms SSV.C17.garbage_no_effect
