import SSV.Proofs.Lru
import SSV.Proofs.Dns
/-
C17 — The resolver returns only upstream's answers, honours TTLs, degrades safely.

Property theorems about the models `SSV.Model.Lru` (cache/cache.go) and `SSV.Model.Dns`
(dns/dns.go). Facts that come from the source (`SSV.Gen.C17`): the two transaction ids, the
rcode classes, the shape of every expiry assignment of `parseMsg` (`failureExpiryMin`,
`answerExpiryMin`, `soaOnlyIfZero`), the caching time of failures, the retry counts.
`expiry_le_every_ttl` needs `failureExpiryMin = true`: with the pinned source (finding F11:
a failure rcode overwrites the expiry unconditionally) it does not check.
-/
namespace SSV.C17
open SSV.Dns SSV.Gen.C17 SSV.Lru

/-! ### LRU cache -/

/-- **lru_refines_map.** For EVERY capacity and EVERY sequence of Get/Set/Insert/Remove/Contains,
the pointer-level model of `BoundedCache` (heap nodes with `prev`/`next`, `head`, `tail`, the
`nodeByKey` index) never dereferences nil, answers exactly like a map restricted to the `cap` most
recently used keys (`Lru.Spec`), and its list and index stay consistent: `All()` enumerates exactly
the represented entries from least to most recently used and terminates, `Backward()` the reverse,
`Len()` is their number, keys are distinct and there are never more than `cap` of them. -/
theorem lru_refines_map {K V : Type} [DecidableEq K] (capacity : Int) (ops : List (Lru.Op K V)) :
    ∃ c outs s,
      Lru.run (Lru.new capacity) ops = some (c, outs) ∧
      Lru.Spec.run (Lru.new capacity : Lru.Cache K V).cap [] ops = (s, outs) ∧
      Lru.all c = (s, true) ∧ Lru.backward c = (s.reverse, true) ∧ Lru.len c = s.length ∧
      (s.map Prod.fst).Nodup ∧ s.length ≤ c.cap ∧ c.cap = (Lru.new capacity : Lru.Cache K V).cap :=
  Lru.run_refines capacity ops

example : (Lru.run (Lru.new 2 : Lru.Cache Nat Nat) [.set 1 10, .set 2 20, .get 1, .set 3 30, .get 2, .get 1]).map (·.2)
    = some [.done, .done, .got (some 10), .done, .got none, .got (some 10)] := by decide

/-- the specification really is a bounded map: a `Get` changes no binding -/
theorem spec_get_keeps_bindings {K V : Type} [DecidableEq K] (s : Lru.Spec K V) (k k' : K) :
    Lru.Spec.find (Lru.Spec.get s k).1 k' = Lru.Spec.find s k' := find_get s k k'

/-! ### TTLs -/

/-- **expiry_le_every_ttl.** Whatever the upstream script (UDP events, TCP connections) and the
configuration: the builder `sendQueries` ends with is the result of feeding `parseMsg` a sequence
`tr` of timed messages that all really came from upstream (datagrams from the configured server
address, frames of the lookup's TCP connections), and for EVERY message of that sequence that was
looked at (its family still open, usable header): the final expiry is set and is at most
`receive time + ttl` for every answer record of it (also the record whose body fails to parse
is covered by `parseMsg` itself), and at most `receive time + rcodeFailureCachingDuration` if it
carries a failure rcode. Depends on the Gen facts `failureExpiryMin`, `answerExpiryMin`. -/
theorem expiry_le_every_ttl (cfg : Config) (now : Nat) (up : Upstream) :
    ∃ tr, (sendQueries cfg now up).b = feed {} tr ∧ Sourced (FromUpstream up) tr ∧
      ∀ pre t m u post, tr = pre ++ (t, Wire.msg m, u) :: post → Open (feed {} pre) m → Usable m →
        (m.qOk = true → ∀ x ∈ m.answers, ExpLe (sendQueries cfg now up).b.exp (t + x.ttl * sec)) ∧
        (rcodeFailure.contains m.rcode = true →
          ExpLe (sendQueries cfg now up).b.exp (t + rcodeFailureCachingDuration)) := by
  obtain ⟨tr, h1, h2⟩ := sendQueries_trace cfg now up
  refine ⟨tr, h1, h2, ?_⟩
  intro pre t m u post htr ho hu
  rw [h1, htr, feed_append]
  simp only [feed]
  exact ⟨fun hq x hx => feed_lowers _ post _ (parseMsg_ans_le _ t m u ho hu hq x hx),
         fun hf => feed_lowers _ post _ (parseMsg_fail_le _ t m u ho hu hf)⟩

/-- hypotheses of `expiry_le_every_ttl` are satisfiable: the F11 witness (A with TTL 10 s, then AAAA
SERVFAIL) — with the repaired source the entry expires after 10 s, not 30 s. -/
def f11Up : Upstream := { conns := [.conn
  [.wire 0 (.msg { id := 4, response := true, ra := true, tc := false, rcode := 0, qOk := true,
                   answers := [{ kind := 1, ttl := 10, addr := "c0000201" }], ansEnd := .done, auths := [], authEnd := .done }),
   .wire 0 (.msg { id := 6, response := true, ra := true, tc := false, rcode := 2, qOk := true,
                   answers := [], ansEnd := .done, auths := [], authEnd := .done })] (.close 0)] }

example : (sendQueries { hasUDP := false, hasTCP := true, cap := 4 } 0 f11Up).b.exp = some (10 * sec) := by decide

/-- a fresh lookup result is the builder's result -/
theorem fresh_is_builder (cfg : Config) (st : State) (name : String) (up : Upstream) (r : Result)
    (h : (lookup cfg st name up).out = .fresh r) : r = (sendQueries cfg st.now up).b.result := by
  unfold lookup at h
  dsimp only at h
  split at h
  · split at h
    · cases h
    · split at h <;> cases h; rfl
  · split at h <;> cases h; rfl

/-- **no_reuse_after_expiry.** (a) A lookup is served from the cache only while the entry's expiry
has not passed: then the cached entry is returned as it is and upstream is not asked. (b) Once the
expiry of the cached entry has passed (or there is none), upstream is asked again. -/
theorem no_reuse_after_expiry (cfg : Config) (st : State) (name : String) (up : Upstream) :
    (∀ r, (lookup cfg st name up).out = .hit r →
        Spec.find st.cache name = some r ∧ (∃ e, r.exp = some e ∧ st.now ≤ e) ∧ (lookup cfg st name up).send = none) ∧
    ((∀ r, Spec.find st.cache name = some r → r.hasExpired st.now = true) →
        (lookup cfg st name up).send = some (sendQueries cfg st.now up)) := by
  have hg := get_snd st.cache name
  unfold lookup
  dsimp only
  cases hf : Spec.find st.cache name with
  | none =>
    rw [hf] at hg
    simp only [hg]
    refine ⟨?_, ?_⟩
    · intro r h; split at h <;> cases h
    · intro _; split <;> rfl
  | some r0 =>
    rw [hf] at hg
    simp only [hg]
    refine ⟨?_, ?_⟩
    · intro r h
      split at h
      · rename_i hne
        cases h
        refine ⟨rfl, ?_, by simp [hne]⟩
        unfold Result.hasExpired at hne
        cases he : r0.exp with
        | none => simp [he] at hne
        | some e => simp only [he] at hne; exact ⟨e, rfl, by simpa using hne⟩
      · split at h <;> cases h
    · intro hall
      have := hall r0 rfl
      simp only [this, Bool.not_true, Bool.false_eq_true, if_false]
      split <;> rfl

/-- **stale_only_on_failure.** An expired entry is served only if it is the cached entry for the
name, it has expired, and asking upstream failed (not both families answered on any transport). -/
theorem stale_only_on_failure (cfg : Config) (st : State) (name : String) (up : Upstream) (r : Result)
    (h : (lookup cfg st name up).out = .stale r) :
    Spec.find st.cache name = some r ∧ r.hasExpired st.now = true ∧ (sendQueries cfg st.now up).b.isDone = false := by
  have hg := get_snd st.cache name
  unfold lookup at h
  dsimp only at h
  cases hf : Spec.find st.cache name with
  | none =>
    rw [hf] at hg; simp only [hg] at h
    split at h <;> cases h
  | some r0 =>
    rw [hf] at hg; simp only [hg] at h
    split at h
    · cases h
    · rename_i hexp
      split at h
      · rename_i hnd
        cases h
        exact ⟨rfl, by simpa using hexp, by simpa using hnd⟩
      · cases h

end SSV.C17

#print axioms SSV.C17.lru_refines_map
#print axioms SSV.C17.spec_get_keeps_bindings
#print axioms SSV.C17.expiry_le_every_ttl
#print axioms SSV.C17.fresh_is_builder
#print axioms SSV.C17.no_reuse_after_expiry
#print axioms SSV.C17.stale_only_on_failure
