import SSV.Proofs.ClientGroupsSched
/-
C19 — Client groups pick clients as their policy says.

Model: SSV/Model/ClientGroups.lean (clientgroups/clientgroups.go, clientgroups/probe.go); numbers, comparison
operators, initial bests and the failure record come from SSV/Gen/C19.lean (regenerated from the source).
Vocabulary (SSV/Proofs/ClientGroupsRun.lean): `History n` = list of rounds, a round = the outcome of every
client's probe (`none` = failed, `some d` = succeeded after `d` ns); `column hist i` = client i's outcomes;
`specScore` = the figure the statement ranks clients by, computed from the client's WHOLE history:
successes among the last 64 rounds / mean latency over the 32-round window in integer ns / worst latency among
the last 32 rounds, a failed probe counting as the timeout.
-/
namespace SSV.C19
open SSV.ClientGroups SSV.Gen.C19

/-! ## round-robin -/

/-- `rr_cyclic` (sequential part): the first `m ≤ 2^63` selections of a round-robin group of `n` clients are
    clients `0, 1, …, n-1, 0, 1, …` in configuration order, none skipped. -/
theorem rr_cyclic (n m : Nat) (hm : m ≤ 2 ^ 63) :
    rrRun rrInit n m = (List.range m).map (fun k => k % n) := by
  rw [← ctrBefore_zero, rrRun_from, List.range_eq_range']
  apply List.map_congr_left
  intro k hk
  have : k < m := by simpa using (List.mem_range'_1.mp hk).2
  exact pickOfTicket_small n k (by omega)

example : (3 : Nat) ≤ 2 ^ 63 := by decide

/-- the counter's wrap, stated: for EVERY `m` the k-th selection is client `(k mod 2^63) mod n`; so after
    `2^63` selections the cycle restarts at client 0, which continues the cyclic order only if `n` divides `2^63`. -/
theorem rr_counter_wrap (n m : Nat) :
    rrRun rrInit n m = (List.range m).map (fun k => k % 2 ^ 63 % n) := by
  rw [← ctrBefore_zero, rrRun_from, List.range_eq_range']
  apply List.map_congr_left
  intro k _
  exact pickOfTicket_eq n k

/-- the wrap on a concrete group of 3: selections number `2^63 - 1` and `2^63` are clients 1 and 0 (not 1 and 2). -/
theorem rr_wrap_witness : (2 ^ 63 - 1) % 2 ^ 63 % 3 = 1 ∧ 2 ^ 63 % 2 ^ 63 % 3 = 0 ∧ 2 ^ 63 % 3 = 2 := by decide

/-- `rr_cyclic` (concurrent part). Threads perform `index.Add(1)` atomically and finish their selection (mask,
    modulo, index) later, in any order. For ANY sequence of such events: when no selection is in flight, the
    clients handed out so far (in completion order) are a permutation of `0 mod n, 1 mod n, …, (m-1) mod n`,
    `m` = number of selections started (`≤ 2^63`). -/
theorem rr_concurrent_multiset (n : Nat) (evs : List RREvent) (hm : addCount evs ≤ 2 ^ 63)
    (hdone : (rrExec n rrInitState evs).pending = []) :
    (rrExec n rrInitState evs).done.Perm ((List.range (addCount evs)).map (fun k => k % n)) := by
  have h := (rrInv_exec n evs 0 rrInitState (rrInv_init n)).perm
  rw [hdone, Nat.zero_add] at h
  simp only [List.map_nil, List.nil_append] at h
  have e : (List.range (addCount evs)).map (pickOfTicket n) = (List.range (addCount evs)).map (fun k => k % n) := by
    apply List.map_congr_left
    intro k hk
    exact pickOfTicket_small n k (by have := List.mem_range.mp hk; omega)
  rw [e] at h
  exact h

example : addCount [.add 1, .add 2, .fin 2, .fin 1] ≤ 2 ^ 63 ∧
    (rrExec 2 rrInitState [.add 1, .add 2, .fin 2, .fin 1]).pending = [] ∧
    (rrExec 2 rrInitState [.add 1, .add 2, .fin 2, .fin 1]).done = [1, 0] := by decide

/-- the same at every instant of every interleaving: selections in flight + selections returned = the tickets
    `0 … m-1` handed out by the atomic counter (nothing skipped, nothing handed out twice). -/
theorem rr_concurrent_invariant (n : Nat) (evs : List RREvent) (hm : addCount evs ≤ 2 ^ 63) :
    let s := rrExec n rrInitState evs
    (s.pending.map (fun q => rrPick q.2 n) ++ s.done).Perm ((List.range (addCount evs)).map (fun k => k % n)) := by
  have h := (rrInv_exec n evs 0 rrInitState (rrInv_init n)).perm
  rw [Nat.zero_add] at h
  have e : (List.range (addCount evs)).map (pickOfTicket n) = (List.range (addCount evs)).map (fun k => k % n) := by
    apply List.map_congr_left
    intro k hk
    exact pickOfTicket_small n k (by have := List.mem_range.mp hk; omega)
  rw [e] at h
  exact h

example : addCount [.add 7, .fin 7, .add 8] ≤ 2 ^ 63 := by decide

/-- round-robin never indexes outside the group (groups are only built from non-empty client lists) -/
theorem rr_member (v n : Nat) (hn : 0 < n) : rrPick v n < n := by
  unfold rrPick
  exact Nat.mod_lt _ hn

example : ∃ v n, 0 < n ∧ rrPick v n < n := ⟨5, 3, by decide, by decide⟩

/-! ## random -/

/-- `random_member`: whatever `rand.IntN(len)` returns within its contract, the client handed out is a member;
    outside the contract the expression panics (`none`), it never yields a non-member. -/
theorem random_member (n draw i : Nat) (h : randomPick n draw = some i) : i < n := by
  unfold randomPick at h
  by_cases hd : draw < n
  · simp [hd] at h; omega
  · simp [hd] at h

example : randomPick 3 2 = some 2 := by decide

/-- within the contract of `rand.IntN` a member is always handed out -/
theorem random_total (n draw : Nat) (hd : draw < n) : randomPick n draw = some draw := by
  simp [randomPick, hd]

example : (2 : Nat) < 3 := by decide

/-! ## availability / latency / min-max latency -/

/-- what the source retains (regenerated): 64 rounds of success bits, 32 latencies -/
theorem retention_64_32 : retention .avail = 64 ∧ retention .lat = 32 ∧ retention .minmax = 32 := by decide

/-- `best_is_argmax_first`, availability: after every round of every history (any length, any group size) the
    selection is the FIRST client in configuration order with the most successes in the retained history. -/
theorem best_is_argmax_first_availability {n : Nat} (hn : 0 < n) (timeout : Nat) (hist : History n) (hne : hist ≠ []) :
    ∃ h : (run .avail timeout (init .avail n) (hist.map List.ofFn)).sel < n,
      (∀ j : Fin n, specScore .avail timeout (column hist j) ≤
          specScore .avail timeout (column hist ⟨(run .avail timeout (init .avail n) (hist.map List.ofFn)).sel, h⟩)) ∧
      (∀ j : Fin n, j.val < (run .avail timeout (init .avail n) (hist.map List.ofFn)).sel →
          specScore .avail timeout (column hist j) <
          specScore .avail timeout (column hist ⟨(run .avail timeout (init .avail n) (hist.map List.ofFn)).sel, h⟩)) := by
  have hb : StrictOrd (cmpTest (cmpOf .avail)) := by simp only [cmpOf, avail_cmp]; exact strictOrd_gt
  have hfb := run_firstBest .avail timeout hn hist hne hb (by
    intro i; simp [cmpOf, avail_cmp, initBestOf, avail_init, valOf, cmpTest])
  obtain ⟨h, h1, h2⟩ := firstBestL_ofFn _ _ _ hfb
  refine ⟨h, ?_, ?_⟩
  · intro j
    have := h1 j
    simp only [cmpOf, avail_cmp, cmpTest, decide_eq_false_iff_not] at this
    omega
  · intro j hj
    have := h2 j hj
    simp only [cmpOf, avail_cmp, cmpTest, decide_eq_true_eq] at this
    omega

example : ∃ hist : History 2, hist ≠ [] := ⟨[fun _ => some 3], by simp⟩

/-- `best_is_argmax_first`, latency: the selection is the FIRST client with the lowest mean latency over the
    retained history (failures counted as the timeout), provided successful probes report at most the timeout
    (their own deadline). -/
theorem best_is_argmax_first_latency {n : Nat} (hn : 0 < n) (timeout : Nat) (hist : History n) (hne : hist ≠ [])
    (hlat : ∀ f ∈ hist, ∀ (i : Fin n) (d : Nat), f i = some d → d ≤ timeout) :
    ∃ h : (run .lat timeout (init .lat n) (hist.map List.ofFn)).sel < n,
      (∀ j : Fin n, specScore .lat timeout (column hist ⟨(run .lat timeout (init .lat n) (hist.map List.ofFn)).sel, h⟩) ≤
          specScore .lat timeout (column hist j)) ∧
      (∀ j : Fin n, j.val < (run .lat timeout (init .lat n) (hist.map List.ofFn)).sel →
          specScore .lat timeout (column hist ⟨(run .lat timeout (init .lat n) (hist.map List.ofFn)).sel, h⟩) <
          specScore .lat timeout (column hist j)) := by
  have hb : StrictOrd (cmpTest (cmpOf .lat)) := by simp only [cmpOf, lat_cmp]; exact strictOrd_lt
  have hcol : ∀ i : Fin n, ∀ o ∈ column hist i, ∀ d, o = some d → d ≤ timeout := by
    intro i o ho d hd
    obtain ⟨f, hf, rfl⟩ := List.mem_map.mp ho
    exact hlat f hf i d hd
  have hfb := run_firstBest .lat timeout hn hist hne hb (by
    intro i
    have := specScore_lat_le timeout (column hist i) (hcol i)
    simp only [cmpOf, lat_cmp, initBestOf, lat_init, valOf, cmpTest, decide_eq_false_iff_not]
    omega)
  obtain ⟨h, h1, h2⟩ := firstBestL_ofFn _ _ _ hfb
  refine ⟨h, ?_, ?_⟩
  · intro j
    have := h1 j
    simp only [cmpOf, lat_cmp, cmpTest, decide_eq_false_iff_not] at this
    omega
  · intro j hj
    have := h2 j hj
    simp only [cmpOf, lat_cmp, cmpTest, decide_eq_true_eq] at this
    omega

example : ∃ hist : History 2, hist ≠ [] ∧ ∀ f ∈ hist, ∀ (i : Fin 2) (d : Nat), f i = some d → d ≤ 10 :=
  ⟨[fun _ => some 3, fun _ => none], by simp, by
    intro f hf i d h
    simp at hf
    rcases hf with rfl | rfl
    · simp at h; omega
    · simp at h⟩

/-- `best_is_argmax_first`, min-max latency: the selection is the FIRST client with the lowest worst latency over
    the retained history (failures counted as the timeout), under the same proviso. -/
theorem best_is_argmax_first_minmax {n : Nat} (hn : 0 < n) (timeout : Nat) (hist : History n) (hne : hist ≠ [])
    (hlat : ∀ f ∈ hist, ∀ (i : Fin n) (d : Nat), f i = some d → d ≤ timeout) :
    ∃ h : (run .minmax timeout (init .minmax n) (hist.map List.ofFn)).sel < n,
      (∀ j : Fin n, specScore .minmax timeout (column hist ⟨(run .minmax timeout (init .minmax n) (hist.map List.ofFn)).sel, h⟩) ≤
          specScore .minmax timeout (column hist j)) ∧
      (∀ j : Fin n, j.val < (run .minmax timeout (init .minmax n) (hist.map List.ofFn)).sel →
          specScore .minmax timeout (column hist ⟨(run .minmax timeout (init .minmax n) (hist.map List.ofFn)).sel, h⟩) <
          specScore .minmax timeout (column hist j)) := by
  have hb : StrictOrd (cmpTest (cmpOf .minmax)) := by simp only [cmpOf, minmax_cmp]; exact strictOrd_lt
  have hcol : ∀ i : Fin n, ∀ o ∈ column hist i, ∀ d, o = some d → d ≤ timeout := by
    intro i o ho d hd
    obtain ⟨f, hf, rfl⟩ := List.mem_map.mp ho
    exact hlat f hf i d hd
  have hfb := run_firstBest .minmax timeout hn hist hne hb (by
    intro i
    have := specScore_minmax_le timeout (column hist i) (hcol i)
    simp only [cmpOf, minmax_cmp, initBestOf, minmax_init, valOf, cmpTest, decide_eq_false_iff_not]
    omega)
  obtain ⟨h, h1, h2⟩ := firstBestL_ofFn _ _ _ hfb
  refine ⟨h, ?_, ?_⟩
  · intro j
    have := h1 j
    simp only [cmpOf, minmax_cmp, cmpTest, decide_eq_false_iff_not] at this
    omega
  · intro j hj
    have := h2 j hj
    simp only [cmpOf, minmax_cmp, cmpTest, decide_eq_true_eq] at this
    omega

example : ∃ hist : History 1, hist ≠ [] ∧ ∀ f ∈ hist, ∀ (i : Fin 1) (d : Nat), f i = some d → d ≤ 5 :=
  ⟨[fun _ => none], by simp, by intro f hf i d h; simp at hf; subst hf; simp at h⟩

/-- "after each round": the selection published after round `k` of a history is the one the three theorems
    above speak about for the prefix of `k+1` rounds. -/
theorem after_each_round (p : Policy) (timeout : Nat) (st : State) (hist : List (List Outcome)) (k : Nat)
    (hk : k < hist.length) :
    (selections p timeout st hist)[k]? = some (run p timeout st (hist.take (k + 1))).sel :=
  selections_prefix p timeout hist st k hk

example : (0 : Nat) < [[some 1, (none : Outcome)]].length := by decide

/-- `unchanged_during_round`: while the jobs of a round finish — any clients, any order, any outcomes — the
    published selection (and the round counter) stay what they were before the round. -/
theorem unchanged_during_round (p : Policy) (timeout : Nat) (st : State) (jobs : List (Nat × Outcome)) :
    (runJobs p timeout st jobs).sel = st.sel ∧ (runJobs p timeout st jobs).count = st.count :=
  runJobs_keeps p timeout jobs st

example : (runJobs .lat 9 (init .lat 2) [(1, some 4), (0, none)]).sel = 0 := by decide

/-- … and the order in which the jobs of a round finish does not matter: once every client's job is done
    (`wg.Wait()` returns) the scan yields exactly the big-step round the theorems above are about. -/
theorem round_any_job_order (p : Policy) (timeout : Nat) {n : Nat} (f : Fin n → Outcome) (ord : List (Fin n))
    (hall : ∀ i : Fin n, i ∈ ord) (st : State) (hlen : st.rings.length = n) :
    finish p timeout (runJobs p timeout st (ord.map (fun i => (i.val, f i)))) = round p timeout st (List.ofFn f) :=
  jobs_then_finish p timeout f ord hall st hlen

example : ∃ ord : List (Fin 2), ∀ i : Fin 2, i ∈ ord := ⟨[1, 0], by decide⟩

/-- the same over a whole history: with the jobs of every round finishing in an arbitrary order (every client's job
    finishing before `wg.Wait()` returns), the small-step execution ends in exactly the state of the big-step
    `run` that `best_is_argmax_first_*` are stated for — so those theorems hold for every completion order. -/
theorem any_job_order_whole_history (p : Policy) (timeout : Nat) {n : Nat}
    (hist : List ((Fin n → Outcome) × List (Fin n))) (hall : ∀ r ∈ hist, ∀ i : Fin n, i ∈ r.2) :
    runSmall p timeout (init p n) hist = run p timeout (init p n) ((hist.map Prod.fst).map List.ofFn) := by
  rw [runSmall_eq_run p timeout hist (init p n) (by simp [init]) hall, List.map_map]
  rfl

example : ∃ hist : List ((Fin 2 → Outcome) × List (Fin 2)), hist ≠ [] ∧ ∀ r ∈ hist, ∀ i : Fin 2, i ∈ r.2 :=
  ⟨[(fun _ => some 1, [1, 0])], by simp, by decide⟩

/-- `always_member`: whatever the history, the improvement tests and the latencies, a probing group hands out one
    of its own clients (before the first round: the first configured client). -/
theorem always_member (p : Policy) (timeout : Nat) {n : Nat} (hn : 0 < n) (hist : History n) :
    (run p timeout (init p n) (hist.map List.ofFn)).sel < n :=
  run_sel_lt p timeout hn hist

example : (0 : Nat) < 1 := by decide

/-! ## the "nobody scores" fallback -/

/-- the scan starts from a fresh `bestIndex = 0` every round: the previous selection has no influence on the next -/
theorem selection_ignores_previous (p : Policy) (timeout : Nat) (st : State) (x : Nat) :
    (finish p timeout { st with sel := x }).sel = (finish p timeout st).sel := rfl

/-- from ANY state (any previous selection): if after a round no client's figure beats the sentinel — no client
    has a success in the retained history / no client's mean (worst) latency is below the timeout — the group
    serves the FIRST client in configuration order. -/
theorem nobody_beats_sentinel_first_client (p : Policy) (timeout : Nat) (st : State)
    (h : ∀ ring ∈ st.rings, cmpTest (cmpOf p) (score p ring) (valOf (initBestOf p) timeout) = false) :
    (finish p timeout st).sel = 0 := by
  simp only [finish]
  apply bestIndex_sentinel
  intro x hx
  obtain ⟨ring, hr, rfl⟩ := List.mem_map.mp hx
  exact h ring hr

example : ∀ ring ∈ ({ rings := [[0, 0], [0, 0]], count := 5, sel := 1 } : State).rings,
    cmpTest (cmpOf .avail) (score .avail ring) (valOf (initBestOf .avail) 7) = false := by decide

/-- the all-fail history, of any length ≥ 1, for every policy and group size: the first client is served
    (in particular after the group had been serving another client: `hist` may be the tail of anything, see
    `selection_ignores_previous`; and for more than 32/64 rounds, when nobody beats the sentinel any more). -/
theorem all_fail_first_client (p : Policy) {n : Nat} (hn : 0 < n) (timeout : Nat) (hist : History n) (hne : hist ≠ [])
    (hfail : ∀ f ∈ hist, ∀ i : Fin n, f i = none) :
    (run p timeout (init p n) (hist.map List.ofFn)).sel = 0 := by
  have hcol : ∀ i j : Fin n, column hist i = column hist j := by
    intro i j
    unfold column
    apply List.map_congr_left
    intro f hf
    rw [hfail f hf i, hfail f hf j]
  have hlat : ∀ f ∈ hist, ∀ (i : Fin n) (d : Nat), f i = some d → d ≤ timeout := by
    intro f hf i d hd
    rw [hfail f hf i] at hd
    exact absurd hd (by simp)
  cases p with
  | avail =>
    obtain ⟨h, _, h2⟩ := best_is_argmax_first_availability hn timeout hist hne
    apply Nat.eq_zero_of_not_pos
    intro hpos
    have := h2 ⟨0, hn⟩ hpos
    rw [hcol ⟨0, hn⟩ ⟨_, h⟩] at this
    omega
  | lat =>
    obtain ⟨h, _, h2⟩ := best_is_argmax_first_latency hn timeout hist hne hlat
    apply Nat.eq_zero_of_not_pos
    intro hpos
    have := h2 ⟨0, hn⟩ hpos
    rw [hcol ⟨0, hn⟩ ⟨_, h⟩] at this
    omega
  | minmax =>
    obtain ⟨h, _, h2⟩ := best_is_argmax_first_minmax hn timeout hist hne hlat
    apply Nat.eq_zero_of_not_pos
    intro hpos
    have := h2 ⟨0, hn⟩ hpos
    rw [hcol ⟨0, hn⟩ ⟨_, h⟩] at this
    omega

example : ∃ hist : History 3, hist ≠ [] ∧ ∀ f ∈ hist, ∀ i : Fin 3, f i = none :=
  ⟨[fun _ => none, fun _ => none], by simp, by intro f hf i; simp at hf; rcases hf with rfl | rfl <;> rfl⟩

/-! ## scheduling of the probes inside a round -/

/-- the effective worker count is between 1 and the group size, whatever is configured (0 / negative = default) -/
theorem concurrency_at_least_one (cfg : Int) (n : Nat) (hn : 0 < n) :
    1 ≤ effConcurrency cfg n ∧ effConcurrency cfg n ≤ n :=
  effConcurrency_bounds cfg n hn

example : effConcurrency 0 3 = 3 ∧ effConcurrency (-4) 40 = 32 ∧ effConcurrency 1 5 = 1 := by decide

/-- `probe_outcome_own_script`: with at least one worker — any number of workers, any instants at which they become
    free, i.e. whatever was queued before a probe and however long that took — what each client's job records is
    determined by that client's own behaviour relative to ITS OWN start: a usable answer less than `timeout` after
    the probe started is a success with exactly that latency (queueing time not included), anything else a failure.
    Rests on the regenerated facts that both `Run` bodies derive the deadline, and read the latency clock, on the
    worker after the job was received. -/
theorem probe_outcome_own_script (p : Policy) (timeout t0 : Nat) (scripts : List Script) (free : List Nat)
    (hfree : free ≠ []) :
    (dispatch p timeout t0 scripts free).map (·.outcome) = scripts.map (scriptOutcome timeout) :=
  dispatch_outcomes p timeout t0 scripts free hfree

example : ([0, 0] : List Nat) ≠ [] := by decide

/-- a whole round on the clock is the big-step round on the clients' own outcomes, for every worker count ≥ 1 and
    every round start; together with `round_any_job_order` / `any_job_order_whole_history`: for every completion order. -/
theorem timed_round_schedule_independent (p : Policy) (timeout c t0 : Nat) (hc : 1 ≤ c) (st : State) (scripts : List Script) :
    timedRound p timeout c t0 st scripts = round p timeout st (scripts.map (scriptOutcome timeout)) :=
  timedRound_eq p timeout c t0 hc st scripts

example : (1 : Nat) ≤ 1 := by decide

/-- every job starts at or after the round start and ends within `timeout` of its own start -/
theorem probe_timing (timeout t0 : Nat) (scripts : List Script) (free : List Nat) (hfree : free ≠ [])
    (hge : ∀ f ∈ free, t0 ≤ f) :
    ∀ j ∈ dispatchWith .jobStart .jobStart timeout t0 scripts free,
      t0 ≤ j.start ∧ j.start ≤ j.finish ∧ j.finish ≤ j.start + timeout :=
  dispatchWith_jobStart_timing timeout t0 scripts free hfree hge

example : ∀ f ∈ ([3, 3] : List Nat), 3 ≤ f := by decide

/-- queued probes start late (one worker, two clients, timeout 5: client 0 fails after 4, client 1 answers after 2):
    client 1 starts at 4, still succeeds with latency 2 — and would NOT if the deadline were counted from the round
    start (the model with `Base.roundStart`), which is why the theorems above need the regenerated bases. -/
theorem queued_probe_witness :
    (dispatchWith .jobStart .jobStart 5 0 [⟨some 4, false⟩, ⟨some 2, true⟩] [0]).map (fun j => (j.start, j.outcome))
      = [(0, none), (4, some 2)] ∧
    (dispatchWith .roundStart .jobStart 5 0 [⟨some 4, false⟩, ⟨some 2, true⟩] [0]).map (fun j => (j.start, j.outcome))
      = [(0, none), (4, none)] := by decide

/-! ## side conditions on the regenerated constants -/

/-- with the default timeout the `int64` sum of one latency ring cannot overflow -/
theorem default_sum_no_overflow : latencyProbeResultSize * defaultProbeTimeout < 2 ^ 63 := by decide

/-- the defaults are the documented ones (5 s, 30 s, 32) and a default round fits in the default interval -/
theorem defaults_as_documented :
    defaultProbeTimeout = 5 * 10 ^ 9 ∧ defaultProbeInterval = 30 * 10 ^ 9 ∧ defaultProbeConcurrency = 32 ∧
    defaultProbeTimeout < defaultProbeInterval := by decide

end SSV.C19

#print axioms SSV.C19.rr_cyclic
#print axioms SSV.C19.rr_counter_wrap
#print axioms SSV.C19.rr_wrap_witness
#print axioms SSV.C19.rr_concurrent_multiset
#print axioms SSV.C19.rr_concurrent_invariant
#print axioms SSV.C19.rr_member
#print axioms SSV.C19.random_member
#print axioms SSV.C19.random_total
#print axioms SSV.C19.retention_64_32
#print axioms SSV.C19.best_is_argmax_first_availability
#print axioms SSV.C19.best_is_argmax_first_latency
#print axioms SSV.C19.best_is_argmax_first_minmax
#print axioms SSV.C19.after_each_round
#print axioms SSV.C19.unchanged_during_round
#print axioms SSV.C19.round_any_job_order
#print axioms SSV.C19.any_job_order_whole_history
#print axioms SSV.C19.always_member
#print axioms SSV.C19.selection_ignores_previous
#print axioms SSV.C19.nobody_beats_sentinel_first_client
#print axioms SSV.C19.all_fail_first_client
#print axioms SSV.C19.concurrency_at_least_one
#print axioms SSV.C19.probe_outcome_own_script
#print axioms SSV.C19.timed_round_schedule_independent
#print axioms SSV.C19.probe_timing
#print axioms SSV.C19.queued_probe_witness
#print axioms SSV.C19.default_sum_no_overflow
#print axioms SSV.C19.defaults_as_documented
