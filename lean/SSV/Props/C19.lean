import SSV.Model.ClientGroups
/-
C19 — client groups pick clients as their policy says (first pass; deepened below).
-/
namespace SSV.C19
open SSV.ClientGroups SSV.Gen.C19

/-- round-robin never indexes outside the group (the code's guard: groups are only built from non-empty client lists) -/
theorem rr_member (v n : Nat) (hn : 0 < n) : rrPick v n < n := by
  unfold rrPick
  exact Nat.mod_lt _ hn

example : ∃ v n, 0 < n ∧ rrPick v n < n := ⟨5, 3, by decide, by decide⟩

end SSV.C19

#print axioms SSV.C19.rr_member
