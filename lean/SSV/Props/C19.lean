import SSV.Proofs.ClientGroupsMain
/-
C19 — Client groups pick clients as their policy says.

Model: SSV/Model/ClientGroups.lean (clientgroups/clientgroups.go, clientgroups/probe.go); numbers, comparison
operators, initial bests and the failure record come from SSV/Gen/C19.lean (regenerated from the source).
Vocabulary (SSV/Proofs/ClientGroupsRun.lean): `History n` = list of rounds, a round = the outcome of every
client's probe (`none` = failed, `some d` = succeeded after `d` ns); `column hist i` = client i's outcomes;
`specScore` = the figure the statement ranks clients by, computed from the client's WHOLE history:
successes among the last 64 rounds / mean latency over the 32-round window in integer ns / worst latency among
the last 32 rounds, a failed probe counting as the timeout.
-/
namespace SSV.C19
open SSV.ClientGroups SSV.Gen.C19

/-! ## round-robin -/

/-- `rr_cyclic` (sequential part): the first `m ≤ 2^63` selections of a round-robin group of `n` clients are
    clients `0, 1, …, n-1, 0, 1, …` in configuration order, none skipped. -/
theorem rr_cyclic (n m : Nat) (hm : m ≤ 2 ^ 63) :
    rrRun rrInit n m = (List.range m).map (fun k => k % n) := by
  rw [← ctrBefore_zero, rrRun_from, List.range_eq_range']
  apply List.map_congr_left
  intro k hk
  have : k < m := by simpa using (List.mem_range'_1.mp hk).2
  exact pickOfTicket_small n k (by omega)

example : (3 : Nat) ≤ 2 ^ 63 := by decide

/-- the counter's wrap, stated: for EVERY `m` the k-th selection is client `(k mod 2^63) mod n`; so after
    `2^63` selections the cycle restarts at client 0, which continues the cyclic order only if `n` divides `2^63`. -/
theorem rr_counter_wrap (n m : Nat) :
    rrRun rrInit n m = (List.range m).map (fun k => k % 2 ^ 63 % n) := by
  rw [← ctrBefore_zero, rrRun_from, List.range_eq_range']
  apply List.map_congr_left
  intro k _
  exact pickOfTicket_eq n k

/-- the wrap on a concrete group of 3: selections number `2^63 - 1` and `2^63` are clients 1 and 0 (not 1 and 2). -/
theorem rr_wrap_witness : (2 ^ 63 - 1) % 2 ^ 63 % 3 = 1 ∧ 2 ^ 63 % 2 ^ 63 % 3 = 0 ∧ 2 ^ 63 % 3 = 2 := by decide

/-- `rr_cyclic` (concurrent part). Threads perform `index.Add(1)` atomically and finish their selection (mask,
    modulo, index) later, in any order. For ANY sequence of such events: when no selection is in flight, the
    clients handed out so far (in completion order) are a permutation of `0 mod n, 1 mod n, …, (m-1) mod n`,
    `m` = number of selections started (`≤ 2^63`). -/
theorem rr_concurrent_multiset (n : Nat) (evs : List RREvent) (hm : addCount evs ≤ 2 ^ 63)
    (hdone : (rrExec n rrInitState evs).pending = []) :
    (rrExec n rrInitState evs).done.Perm ((List.range (addCount evs)).map (fun k => k % n)) := by
  have h := (rrInv_exec n evs 0 rrInitState (rrInv_init n)).perm
  rw [hdone, Nat.zero_add] at h
  simp only [List.map_nil, List.nil_append] at h
  have e : (List.range (addCount evs)).map (pickOfTicket n) = (List.range (addCount evs)).map (fun k => k % n) := by
    apply List.map_congr_left
    intro k hk
    exact pickOfTicket_small n k (by have := List.mem_range.mp hk; omega)
  rw [e] at h
  exact h

example : addCount [.add 1, .add 2, .fin 2, .fin 1] ≤ 2 ^ 63 ∧
    (rrExec 2 rrInitState [.add 1, .add 2, .fin 2, .fin 1]).pending = [] ∧
    (rrExec 2 rrInitState [.add 1, .add 2, .fin 2, .fin 1]).done = [1, 0] := by decide

/-- the same at every instant of every interleaving: selections in flight + selections returned = the tickets
    `0 … m-1` handed out by the atomic counter (nothing skipped, nothing handed out twice). -/
theorem rr_concurrent_invariant (n : Nat) (evs : List RREvent) (hm : addCount evs ≤ 2 ^ 63) :
    let s := rrExec n rrInitState evs
    (s.pending.map (fun q => rrPick q.2 n) ++ s.done).Perm ((List.range (addCount evs)).map (fun k => k % n)) := by
  have h := (rrInv_exec n evs 0 rrInitState (rrInv_init n)).perm
  rw [Nat.zero_add] at h
  have e : (List.range (addCount evs)).map (pickOfTicket n) = (List.range (addCount evs)).map (fun k => k % n) := by
    apply List.map_congr_left
    intro k hk
    exact pickOfTicket_small n k (by have := List.mem_range.mp hk; omega)
  rw [e] at h
  exact h

example : addCount [.add 7, .fin 7, .add 8] ≤ 2 ^ 63 := by decide

/-- round-robin never indexes outside the group (groups are only built from non-empty client lists) -/
theorem rr_member (v n : Nat) (hn : 0 < n) : rrPick v n < n := by
  unfold rrPick
  exact Nat.mod_lt _ hn

example : ∃ v n, 0 < n ∧ rrPick v n < n := ⟨5, 3, by decide, by decide⟩

/-! ## random -/

/-- `random_member`: whatever `rand.IntN(len)` returns within its contract, the client handed out is a member;
    outside the contract the expression panics (`none`), it never yields a non-member. -/
theorem random_member (n draw i : Nat) (h : randomPick n draw = some i) : i < n := by
  unfold randomPick at h
  by_cases hd : draw < n
  · simp [hd] at h; omega
  · simp [hd] at h

example : randomPick 3 2 = some 2 := by decide

/-- within the contract of `rand.IntN` a member is always handed out -/
theorem random_total (n draw : Nat) (hd : draw < n) : randomPick n draw = some draw := by
  simp [randomPick, hd]

example : (2 : Nat) < 3 := by decide

/-! ## availability / latency / min-max latency -/

/-- what the source retains (regenerated): 64 rounds of success bits, 32 latencies -/
theorem retention_64_32 : retention .avail = 64 ∧ retention .lat = 32 ∧ retention .minmax = 32 := by decide

/-- `best_is_argmax_first`, availability: after every round of every history (any length, any group size) the
    selection is the FIRST client in configuration order with the most successes in the retained history. -/
theorem best_is_argmax_first_availability {n : Nat} (hn : 0 < n) (timeout : Nat) (hist : History n) (hne : hist ≠ []) :
    ∃ h : (run .avail timeout (init .avail n) (hist.map List.ofFn)).sel < n,
      (∀ j : Fin n, specScore .avail timeout (column hist j) ≤
          specScore .avail timeout (column hist ⟨(run .avail timeout (init .avail n) (hist.map List.ofFn)).sel, h⟩)) ∧
      (∀ j : Fin n, j.val < (run .avail timeout (init .avail n) (hist.map List.ofFn)).sel →
          specScore .avail timeout (column hist j) <
          specScore .avail timeout (column hist ⟨(run .avail timeout (init .avail n) (hist.map List.ofFn)).sel, h⟩)) := by
  have hb : StrictOrd (cmpTest (cmpOf .avail)) := by simp only [cmpOf, avail_cmp]; exact strictOrd_gt
  have hfb := run_firstBest .avail timeout hn hist hne hb (by
    intro i; simp [cmpOf, avail_cmp, initBestOf, avail_init, valOf, cmpTest])
  obtain ⟨h, h1, h2⟩ := firstBestL_ofFn _ _ _ hfb
  refine ⟨h, ?_, ?_⟩
  · intro j
    have := h1 j
    simp only [cmpOf, avail_cmp, cmpTest, decide_eq_false_iff_not] at this
    omega
  · intro j hj
    have := h2 j hj
    simp only [cmpOf, avail_cmp, cmpTest, decide_eq_true_eq] at this
    omega

example : ∃ hist : History 2, hist ≠ [] := ⟨[fun _ => some 3], by simp⟩

/-- `best_is_argmax_first`, latency: the selection is the FIRST client with the lowest mean latency over the
    retained history (failures counted as the timeout), provided successful probes report at most the timeout
    (their own deadline). -/
theorem best_is_argmax_first_latency {n : Nat} (hn : 0 < n) (timeout : Nat) (hist : History n) (hne : hist ≠ [])
    (hlat : ∀ f ∈ hist, ∀ (i : Fin n) (d : Nat), f i = some d → d ≤ timeout) :
    ∃ h : (run .lat timeout (init .lat n) (hist.map List.ofFn)).sel < n,
      (∀ j : Fin n, specScore .lat timeout (column hist ⟨(run .lat timeout (init .lat n) (hist.map List.ofFn)).sel, h⟩) ≤
          specScore .lat timeout (column hist j)) ∧
      (∀ j : Fin n, j.val < (run .lat timeout (init .lat n) (hist.map List.ofFn)).sel →
          specScore .lat timeout (column hist ⟨(run .lat timeout (init .lat n) (hist.map List.ofFn)).sel, h⟩) <
          specScore .lat timeout (column hist j)) := by
  have hb : StrictOrd (cmpTest (cmpOf .lat)) := by simp only [cmpOf, lat_cmp]; exact strictOrd_lt
  have hcol : ∀ i : Fin n, ∀ o ∈ column hist i, ∀ d, o = some d → d ≤ timeout := by
    intro i o ho d hd
    obtain ⟨f, hf, rfl⟩ := List.mem_map.mp ho
    exact hlat f hf i d hd
  have hfb := run_firstBest .lat timeout hn hist hne hb (by
    intro i
    have := specScore_lat_le timeout (column hist i) (hcol i)
    simp only [cmpOf, lat_cmp, initBestOf, lat_init, valOf, cmpTest, decide_eq_false_iff_not]
    omega)
  obtain ⟨h, h1, h2⟩ := firstBestL_ofFn _ _ _ hfb
  refine ⟨h, ?_, ?_⟩
  · intro j
    have := h1 j
    simp only [cmpOf, lat_cmp, cmpTest, decide_eq_false_iff_not] at this
    omega
  · intro j hj
    have := h2 j hj
    simp only [cmpOf, lat_cmp, cmpTest, decide_eq_true_eq] at this
    omega

example : ∃ hist : History 2, hist ≠ [] ∧ ∀ f ∈ hist, ∀ (i : Fin 2) (d : Nat), f i = some d → d ≤ 10 :=
  ⟨[fun _ => some 3, fun _ => none], by simp, by
    intro f hf i d h
    simp at hf
    rcases hf with rfl | rfl
    · simp at h; omega
    · simp at h⟩

/-- `best_is_argmax_first`, min-max latency: the selection is the FIRST client with the lowest worst latency over
    the retained history (failures counted as the timeout), under the same proviso. -/
theorem best_is_argmax_first_minmax {n : Nat} (hn : 0 < n) (timeout : Nat) (hist : History n) (hne : hist ≠ [])
    (hlat : ∀ f ∈ hist, ∀ (i : Fin n) (d : Nat), f i = some d → d ≤ timeout) :
    ∃ h : (run .minmax timeout (init .minmax n) (hist.map List.ofFn)).sel < n,
      (∀ j : Fin n, specScore .minmax timeout (column hist ⟨(run .minmax timeout (init .minmax n) (hist.map List.ofFn)).sel, h⟩) ≤
          specScore .minmax timeout (column hist j)) ∧
      (∀ j : Fin n, j.val < (run .minmax timeout (init .minmax n) (hist.map List.ofFn)).sel →
          specScore .minmax timeout (column hist ⟨(run .minmax timeout (init .minmax n) (hist.map List.ofFn)).sel, h⟩) <
          specScore .minmax timeout (column hist j)) := by
  have hb : StrictOrd (cmpTest (cmpOf .minmax)) := by simp only [cmpOf, minmax_cmp]; exact strictOrd_lt
  have hcol : ∀ i : Fin n, ∀ o ∈ column hist i, ∀ d, o = some d → d ≤ timeout := by
    intro i o ho d hd
    obtain ⟨f, hf, rfl⟩ := List.mem_map.mp ho
    exact hlat f hf i d hd
  have hfb := run_firstBest .minmax timeout hn hist hne hb (by
    intro i
    have := specScore_minmax_le timeout (column hist i) (hcol i)
    simp only [cmpOf, minmax_cmp, initBestOf, minmax_init, valOf, cmpTest, decide_eq_false_iff_not]
    omega)
  obtain ⟨h, h1, h2⟩ := firstBestL_ofFn _ _ _ hfb
  refine ⟨h, ?_, ?_⟩
  · intro j
    have := h1 j
    simp only [cmpOf, minmax_cmp, cmpTest, decide_eq_false_iff_not] at this
    omega
  · intro j hj
    have := h2 j hj
    simp only [cmpOf, minmax_cmp, cmpTest, decide_eq_true_eq] at this
    omega

example : ∃ hist : History 1, hist ≠ [] ∧ ∀ f ∈ hist, ∀ (i : Fin 1) (d : Nat), f i = some d → d ≤ 5 :=
  ⟨[fun _ => none], by simp, by intro f hf i d h; simp at hf; subst hf; simp at h⟩

/-- "after each round": the selection published after round `k` of a history is the one the three theorems
    above speak about for the prefix of `k+1` rounds. -/
theorem after_each_round (p : Policy) (timeout : Nat) (st : State) (hist : List (List Outcome)) (k : Nat)
    (hk : k < hist.length) :
    (selections p timeout st hist)[k]? = some (run p timeout st (hist.take (k + 1))).sel :=
  selections_prefix p timeout hist st k hk

example : (0 : Nat) < [[some 1, (none : Outcome)]].length := by decide

/-- `unchanged_during_round`: while the jobs of a round finish — any clients, any order, any outcomes — the
    published selection (and the round counter) stay what they were before the round. -/
theorem unchanged_during_round (p : Policy) (timeout : Nat) (st : State) (jobs : List (Nat × Outcome)) :
    (runJobs p timeout st jobs).sel = st.sel ∧ (runJobs p timeout st jobs).count = st.count :=
  runJobs_keeps p timeout jobs st

example : (runJobs .lat 9 (init .lat 2) [(1, some 4), (0, none)]).sel = 0 := by decide

/-- … and the order in which the jobs of a round finish does not matter: once every client's job is done
    (`wg.Wait()` returns) the scan yields exactly the big-step round the theorems above are about. -/
theorem round_any_job_order (p : Policy) (timeout : Nat) {n : Nat} (f : Fin n → Outcome) (ord : List (Fin n))
    (hall : ∀ i : Fin n, i ∈ ord) (st : State) (hlen : st.rings.length = n) :
    finish p timeout (runJobs p timeout st (ord.map (fun i => (i.val, f i)))) = round p timeout st (List.ofFn f) :=
  jobs_then_finish p timeout f ord hall st hlen

example : ∃ ord : List (Fin 2), ∀ i : Fin 2, i ∈ ord := ⟨[1, 0], by decide⟩

/-- the same over a whole history: with the jobs of every round finishing in an arbitrary order (every client's job
    finishing before `wg.Wait()` returns), the small-step execution ends in exactly the state of the big-step
    `run` that `best_is_argmax_first_*` are stated for — so those theorems hold for every completion order. -/
theorem any_job_order_whole_history (p : Policy) (timeout : Nat) {n : Nat}
    (hist : List ((Fin n → Outcome) × List (Fin n))) (hall : ∀ r ∈ hist, ∀ i : Fin n, i ∈ r.2) :
    runSmall p timeout (init p n) hist = run p timeout (init p n) ((hist.map Prod.fst).map List.ofFn) := by
  rw [runSmall_eq_run p timeout hist (init p n) (by simp [init]) hall, List.map_map]
  rfl

example : ∃ hist : List ((Fin 2 → Outcome) × List (Fin 2)), hist ≠ [] ∧ ∀ r ∈ hist, ∀ i : Fin 2, i ∈ r.2 :=
  ⟨[(fun _ => some 1, [1, 0])], by simp, by decide⟩

/-- `always_member`: whatever the history, the improvement tests and the latencies, a probing group hands out one
    of its own clients (before the first round: the first configured client). -/
theorem always_member (p : Policy) (timeout : Nat) {n : Nat} (hn : 0 < n) (hist : History n) :
    (run p timeout (init p n) (hist.map List.ofFn)).sel < n :=
  run_sel_lt p timeout hn hist

example : (0 : Nat) < 1 := by decide

/-! ## side conditions on the regenerated constants -/

/-- with the default timeout the `int64` sum of one latency ring cannot overflow -/
theorem default_sum_no_overflow : latencyProbeResultSize * defaultProbeTimeout < 2 ^ 63 := by decide

/-- the defaults are the documented ones (5 s, 30 s, 32) and a default round fits in the default interval -/
theorem defaults_as_documented :
    defaultProbeTimeout = 5 * 10 ^ 9 ∧ defaultProbeInterval = 30 * 10 ^ 9 ∧ defaultProbeConcurrency = 32 ∧
    defaultProbeTimeout < defaultProbeInterval := by decide

end SSV.C19

#print axioms SSV.C19.rr_cyclic
#print axioms SSV.C19.rr_counter_wrap
#print axioms SSV.C19.rr_wrap_witness
#print axioms SSV.C19.rr_concurrent_multiset
#print axioms SSV.C19.rr_concurrent_invariant
#print axioms SSV.C19.rr_member
#print axioms SSV.C19.random_member
#print axioms SSV.C19.random_total
#print axioms SSV.C19.retention_64_32
#print axioms SSV.C19.best_is_argmax_first_availability
#print axioms SSV.C19.best_is_argmax_first_latency
#print axioms SSV.C19.best_is_argmax_first_minmax
#print axioms SSV.C19.after_each_round
#print axioms SSV.C19.unchanged_during_round
#print axioms SSV.C19.round_any_job_order
#print axioms SSV.C19.any_job_order_whole_history
#print axioms SSV.C19.always_member
#print axioms SSV.C19.default_sum_no_overflow
#print axioms SSV.C19.defaults_as_documented
