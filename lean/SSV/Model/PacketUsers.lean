import SSV.Model.Packet
/-
A multi-user Shadowsocks 2022 UDP server (`ss2022.UDPServer` with an identity layer: `identityHeaderLen = 16`):
`SessionInfo` decrypts the separate header with the iPSK block cipher, `NewUnpacker` decrypts the identity header
with the same cipher, XORs it with the separate header, looks the resulting PSK hash up in the user map
(`CredStore.LookupUser`) and derives the session key of THAT user from the client session id
(`userCipherConfig.AEAD(b[:8])`), then `UnpackInPlace` runs with `nonAEADHeaderLen = 32`.
-/
namespace SSV.Packet
open SSV SSV.Gen.C05

/-- `users` = (PSK hash, user PSK); `kdf psk salt` = the session subkey (`newAESGCM(psk, salt)`, abstract) -/
def ssServerUnpackMU (c : Crypto) (kdf : Bytes → Bytes → Bytes) (iblock : Bytes) (users : List (Bytes × Bytes)) (now : Int)
    (b : Bytes) (q n : Nat) : Outcome (Unpacked Addr) :=
  let salt := (c.dec iblock (sub b q 16)).take 8
  ssServerUnpack c iblock [] 1 true (users.map (fun u => (u.1, kdf u.2 salt))) now b q n

end SSV.Packet
