/-
Model of cache/cache.go (`BoundedCache`): a doubly linked list of heap nodes (tail = most
recently used) plus the `nodeByKey` map.

Pointer level, mirroring the code statement by statement:
* a node pointer is a `Nat` (allocation counter `fresh`), `nil` is `none`;
* the heap is a function `Nat → Option Node`; nodes that were unlinked stay in the heap
  (garbage), exactly as with Go's collector;
* `nodeByKey` is an association list with distinct keys, `len(c.nodeByKey)` is its length;
* every operation runs in `Option`: `none` is the nil-pointer dereference the Go code would
  perform if the structure were inconsistent (e.g. `c.remove(c.head)` on `head == nil`,
  `node.next.prev = …`). The theorems show that `none` never happens.
-/
namespace SSV.Lru

structure Node (K V : Type) where
  prev : Option Nat
  next : Option Nat
  key : K
  val : V

abbrev Heap (K V : Type) := Nat → Option (Node K V)

def upd {K V : Type} (h : Heap K V) (i : Nat) (n : Node K V) : Heap K V :=
  fun j => if j = i then some n else h j

structure Cache (K V : Type) where
  heap : Heap K V
  idx : List (K × Nat)
  cap : Nat
  head : Option Nat
  tail : Option Nat
  fresh : Nat

/-- `math.MaxInt` on the 64-bit platforms the repository targets -/
def maxInt : Nat := 2 ^ 63 - 1

/-- `NewBoundedCache(capacity)` -/
def new {K V : Type} (capacity : Int) : Cache K V :=
  { heap := fun _ => none, idx := [], cap := if capacity ≤ 0 then maxInt else capacity.toNat,
    head := none, tail := none, fresh := 0 }

variable {K V : Type} [DecidableEq K]

def lookupIdx (idx : List (K × Nat)) (k : K) : Option Nat :=
  match idx with
  | [] => none
  | (k', i) :: rest => if k' = k then some i else lookupIdx rest k

def eraseIdx (idx : List (K × Nat)) (k : K) : List (K × Nat) :=
  idx.filter (fun p => ¬ (p.1 = k))

/-- `remove(node)` -/
def remove (c : Cache K V) (i : Nat) : Option (Cache K V) := do
  let n ← c.heap i
  let idx := eraseIdx c.idx n.key                  -- delete(c.nodeByKey, node.Key)
  let (heap, head) ← (match n.prev with
    | some p => do
        let pn ← c.heap p                          -- node.prev.next = node.next
        pure (upd c.heap p { pn with next := n.next }, c.head)
    | none => pure (c.heap, n.next) : Option (Heap K V × Option Nat))  -- c.head = node.next
  let (heap, tail) ← (match n.next with
    | some q => do
        let qn ← heap q                            -- node.next.prev = node.prev
        pure (upd heap q { qn with prev := n.prev }, c.tail)
    | none => pure (heap, n.prev) : Option (Heap K V × Option Nat))    -- c.tail = node.prev
  pure { c with heap := heap, idx := idx, head := head, tail := tail }

/-- second half of `insert(key, value)`: allocate the node and link it behind the tail -/
def insertTail (c : Cache K V) (k : K) (v : V) : Option (Cache K V) :=
  let i := c.fresh
  let heap := upd c.heap i { prev := c.tail, next := none, key := k, val := v }
  let idx := (k, i) :: c.idx                       -- c.nodeByKey[key] = node
  match c.tail with
  | some t => do
      let tn ← heap t                              -- c.tail.next = node
      pure { c with heap := upd heap t { tn with next := some i }, idx := idx, tail := some i, fresh := i + 1 }
  | none =>
      pure { c with heap := heap, idx := idx, head := some i, tail := some i, fresh := i + 1 }

/-- `insert(key, value)` -/
def insert (c : Cache K V) (k : K) (v : V) : Option (Cache K V) := do
  let c ← (if c.idx.length = c.cap then
      match c.head with
      | some h => remove c h                       -- c.remove(c.head)
      | none => none                               -- nil dereference
    else pure c : Option (Cache K V))
  insertTail c k v

/-- `moveToTail(node)` -/
def moveToTail (c : Cache K V) (i : Nat) : Option (Cache K V) := do
  let n ← c.heap i
  match n.next with
  | none => pure c                                 -- already at the tail
  | some q => do
      let qn ← c.heap q                            -- node.next.prev = node.prev
      let heap := upd c.heap q { qn with prev := n.prev }
      let (heap, head) ← (match n.prev with
        | some p => do
            let pn ← heap p                        -- node.prev.next = node.next
            pure (upd heap p { pn with next := n.next }, c.head)
        | none => pure (heap, n.next) : Option (Heap K V × Option Nat))
      let t ← c.tail                               -- c.tail.next = node (nil dereference if no tail)
      let n' ← heap i
      let heap := upd heap i { n' with prev := c.tail, next := none }
      let tn ← heap t
      let heap := upd heap t { tn with next := some i }
      pure { c with heap := heap, head := head, tail := some i }

/-- `Get(key)` -/
def get (c : Cache K V) (k : K) : Option (Cache K V × Option V) :=
  match lookupIdx c.idx k with
  | none => some (c, none)
  | some i => do
      let c' ← moveToTail c i
      let n ← c'.heap i
      pure (c', some n.val)

/-- `Set(key, value)` -/
def set (c : Cache K V) (k : K) (v : V) : Option (Cache K V) :=
  match lookupIdx c.idx k with
  | none => insert c k v
  | some i => do
      let n ← c.heap i
      moveToTail { c with heap := upd c.heap i { n with val := v } } i

/-- `Insert(key, value)` -/
def insertNew (c : Cache K V) (k : K) (v : V) : Option (Cache K V × Bool) :=
  match lookupIdx c.idx k with
  | some _ => some (c, false)
  | none => do
      let c' ← insert c k v
      pure (c', true)

/-- `Remove(key)` -/
def removeKey (c : Cache K V) (k : K) : Option (Cache K V × Bool) :=
  match lookupIdx c.idx k with
  | none => some (c, false)
  | some i => do
      let c' ← remove c i
      pure (c', true)

/-- `Contains(key)` -/
def contains (c : Cache K V) (k : K) : Bool := (lookupIdx c.idx k).isSome

/-- `Len()` -/
def len (c : Cache K V) : Nat := c.idx.length

/-- `All()`: follow `next` from `head`. `fuel` bounds the walk (the Go loop has no bound; the
theorems show that `fuel = len` nodes are visited and the walk then ends at `nil`). The
second component says whether the walk ended at `nil` within the fuel. -/
def walkNext (h : Heap K V) : Option Nat → Nat → List (K × V) × Bool
  | none, _ => ([], true)
  | some _, 0 => ([], false)
  | some i, fuel + 1 =>
    match h i with
    | none => ([], false)
    | some n => let (l, ok) := walkNext h n.next fuel; ((n.key, n.val) :: l, ok)

/-- `Backward()`: follow `prev` from `tail`. -/
def walkPrev (h : Heap K V) : Option Nat → Nat → List (K × V) × Bool
  | none, _ => ([], true)
  | some _, 0 => ([], false)
  | some i, fuel + 1 =>
    match h i with
    | none => ([], false)
    | some n => let (l, ok) := walkPrev h n.prev fuel; ((n.key, n.val) :: l, ok)

def all (c : Cache K V) : List (K × V) × Bool := walkNext c.heap c.head (c.idx.length + 1)
def backward (c : Cache K V) : List (K × V) × Bool := walkPrev c.heap c.tail (c.idx.length + 1)

/-! ### Specification: a map restricted to the `cap` most recently used keys

An association list with distinct keys ordered from least to most recently used. -/

abbrev Spec (K V : Type) := List (K × V)

def Spec.find (s : Spec K V) (k : K) : Option V :=
  match s with
  | [] => none
  | (k', v) :: rest => if k' = k then some v else Spec.find rest k

def Spec.erase (s : Spec K V) (k : K) : Spec K V := s.filter (fun p => ¬ (p.1 = k))

/-- use of a key: it becomes the most recently used one -/
def Spec.touch (s : Spec K V) (k : K) (v : V) : Spec K V := Spec.erase s k ++ [(k, v)]

/-- insertion of an absent key: the least recently used entry is dropped when full -/
def Spec.add (cap : Nat) (s : Spec K V) (k : K) (v : V) : Spec K V :=
  (if s.length = cap then s.tail else s) ++ [(k, v)]

def Spec.get (s : Spec K V) (k : K) : Spec K V × Option V :=
  match Spec.find s k with
  | none => (s, none)
  | some v => (Spec.touch s k v, some v)

def Spec.set (cap : Nat) (s : Spec K V) (k : K) (v : V) : Spec K V :=
  match Spec.find s k with
  | none => Spec.add cap s k v
  | some _ => Spec.touch s k v

def Spec.insertNew (cap : Nat) (s : Spec K V) (k : K) (v : V) : Spec K V × Bool :=
  match Spec.find s k with
  | none => (Spec.add cap s k v, true)
  | some _ => (s, false)

def Spec.removeKey (s : Spec K V) (k : K) : Spec K V × Bool :=
  match Spec.find s k with
  | none => (s, false)
  | some _ => (Spec.erase s k, true)

/-! ### Operation sequences (what the driver and the theorems run) -/

inductive Op (K V : Type) where
  | get (k : K)
  | set (k : K) (v : V)
  | insert (k : K) (v : V)
  | remove (k : K)
  | contains (k : K)

inductive Out (V : Type) where
  | got (v : Option V)
  | done
  | flag (b : Bool)
deriving DecidableEq

def step (c : Cache K V) : Op K V → Option (Cache K V × Out V)
  | .get k => (get c k).map (fun (c', r) => (c', Out.got r))
  | .set k v => (set c k v).map (fun c' => (c', Out.done))
  | .insert k v => (insertNew c k v).map (fun (c', b) => (c', Out.flag b))
  | .remove k => (removeKey c k).map (fun (c', b) => (c', Out.flag b))
  | .contains k => some (c, Out.flag (contains c k))

def Spec.step (cap : Nat) (s : Spec K V) : Op K V → Spec K V × Out V
  | .get k => let (s', r) := Spec.get s k; (s', Out.got r)
  | .set k v => (Spec.set cap s k v, Out.done)
  | .insert k v => let (s', b) := Spec.insertNew cap s k v; (s', Out.flag b)
  | .remove k => let (s', b) := Spec.removeKey s k; (s', Out.flag b)
  | .contains k => (s, Out.flag (Spec.find s k).isSome)

def run (c : Cache K V) : List (Op K V) → Option (Cache K V × List (Out V))
  | [] => some (c, [])
  | o :: rest => do
      let (c', out) ← step c o
      let (c'', outs) ← run c' rest
      pure (c'', out :: outs)

def Spec.run (cap : Nat) (s : Spec K V) : List (Op K V) → Spec K V × List (Out V)
  | [] => (s, [])
  | o :: rest =>
      let (s', out) := Spec.step cap s o
      let (s'', outs) := Spec.run cap s' rest
      (s'', out :: outs)

end SSV.Lru
