import SSV.Base.Util
import SSV.Gen.C20
/-
Model for C20 (cred/manager.go: saveToFile, LoadFromFile, dequeueSave, Stop).

Part 1  a file system with crash semantics (page cache vs stable storage, atomic rename,
        short / failing writes at every byte count) and the save procedure as an *FS program*:
        a list of guarded file-system calls in the `err`-chaining idiom of the Go code.
        The program of the current source is regenerated into `SSV.Gen.C20.saveProg`.
Part 2  the loader (`LoadFromFile` at start-up) over an abstract document codec.
Part 3  the debounce loop `dequeueSave` as a control-flow graph of `select` nodes, run against
        API calls, cancellation and `Stop` as a transition system (every schedule, every
        `select` choice). The graph of the current source is `SSV.Gen.C20.dequeueProg`.
-/
namespace SSV.Persist

/-! ## Part 1: file system -/

/-- One file body. `cur` is what readers see now (page cache); `clean` says that every byte of `cur`
(and its length) has reached stable storage, i.e. the file was `fsync`ed after its last change. -/
structure Inode where
  cur : Bytes
  clean : Bool
deriving DecidableEq, Repr

/-- The directory that holds the credential file. Only two kinds of names matter: the store path
(`target`) and temporary files (numbered). Inode ids are indices into `inodes`; inodes are never freed
(an unlinked inode just is no longer named). `thist` lists every binding the store path has had since the
directory was last known to be on stable storage, newest first: after a power loss any of them can be
what the directory holds (`none` = the name does not exist).

`tmps` lists the other files of the directory as (name, inode): name `0` is the fixed name `<store>.tmp`,
names `≥ 1` stand for `<store>.<random>.tmp`. They may be left-overs of earlier crashes.

The store path may be a **symbolic link** (`isLink`): every call that takes the store path (`Stat`,
`OpenFile`, the loader's `Open`) resolves the link, so `target` is the inode of the link's destination, which
is also named by the destination path itself (`dest`). `rename(tmp, path)` does NOT resolve it: it replaces
the link by the regular file (`isLink := false`), and the old destination keeps its inode and content. -/
structure FS where
  inodes : List Inode
  target : Option Nat
  thist : List (Option Nat)
  tmps : List (Nat × Nat)
  isLink : Bool
  dest : Option Nat
deriving DecidableEq, Repr

/-- update one inode -/
def upd : List Inode → Nat → (Inode → Inode) → List Inode
  | [], _, _ => []
  | x :: xs, 0, f => f x :: xs
  | x :: xs, n + 1, f => x :: upd xs n f

/-- start state: the store path names a file that holds `doc` and is on stable storage; nothing else -/
def initFS (doc : Bytes) : FS :=
  { inodes := [⟨doc, true⟩], target := some 0, thist := [some 0], tmps := [], isLink := false, dest := none }

/-- the same store reached through a symbolic link -/
def initLinkFS (doc : Bytes) : FS :=
  { inodes := [⟨doc, true⟩], target := some 0, thist := [some 0], tmps := [], isLink := true, dest := some 0 }

/-- a temporary name that is not in the directory and is not the fixed name `0`: what `os.CreateTemp` with
a `*` pattern yields (it retries on EEXIST until the random name is new) -/
def freshName (tmps : List (Nat × Nat)) : Nat :=
  tmps.foldl (fun m p => max m p.1) 0 + 1

/-- The file-system calls `saveToFile` can make (receiver / arguments are fixed by the extractor:
`openTrunc`, `statTarget`, `rename… ToTarget` act on the store path; `write/chmod/sync/close` on the one
open file; `removeTmp` and `rename` on the temporary file created by `createTemp`). -/
inductive FsOp
  | statTarget          -- os.Stat(path): reads metadata only
  | openTrunc           -- os.OpenFile(path, O_WRONLY|O_CREATE|O_TRUNC, perm): truncates the existing file in place
  | createTemp          -- os.CreateTemp(dir(path), base(path)+".*.tmp"): new empty file under a fresh name
  | createExcl          -- os.OpenFile(path+".tmp", O_WRONLY|O_CREATE|O_EXCL): the FIXED name; EEXIST if it is there
  | write               -- f.Write(document): appends at the file offset; can stop after any byte count
  | chmod               -- f.Chmod(perm)
  | sync                -- f.Sync()
  | close               -- f.Close()
  | renameTmpToTarget   -- os.Rename(tmp, path): atomic replacement of the directory entry
  | removeTmp           -- os.Remove(tmp)
  | renameTargetAway    -- os.Rename(path, path+".bak") with ENOENT ignored: the store path no longer exists afterwards
deriving DecidableEq, Repr

/-- when a call is made, relative to the function's `err` variable -/
inductive Guard
  | always  -- unconditionally (e.g. `if cerr := f.Close(); err == nil { err = cerr }`)
  | ifOk    -- only while `err == nil`
  | ifErr   -- only on the failure path (`if err != nil { os.Remove(..); return err }`)
deriving DecidableEq, Repr

inductive Stmt
  /-- `rec`: a failure of the call is stored in `err` (false: the error is discarded) -/
  | op (g : Guard) (rec : Bool) (o : FsOp)
  /-- `if err != nil { return err }` -/
  | retIfErr
deriving DecidableEq, Repr

/-- the two shapes the extractor knows. `os.WriteFile(path, data, perm)` is, by the standard library's
source, `OpenFile(O_WRONLY|O_CREATE|O_TRUNC)`; on success `Write`; `Close` always. -/
def progWriteFile : List Stmt :=
  [.op .always true .openTrunc, .retIfErr, .op .always true .write, .op .always true .close, .retIfErr]

def progTempRename : List Stmt :=
  [.op .always false .statTarget,
   .op .always true .createTemp, .retIfErr,
   .op .always true .write,
   .op .ifOk true .chmod,
   .op .ifOk true .sync,
   .op .always true .close,
   .op .ifOk true .renameTmpToTarget,
   .op .ifErr false .removeTmp, .retIfErr]

/-- the temp-file program with one well-known temporary name instead of a fresh one -/
def progExclTmp : List Stmt :=
  [.op .always false .statTarget,
   .op .always true .createExcl, .retIfErr,
   .op .always true .write,
   .op .ifOk true .chmod,
   .op .ifOk true .sync,
   .op .always true .close,
   .op .ifOk true .renameTmpToTarget,
   .op .ifErr false .removeTmp, .retIfErr]

/-- the temp-file program with a "keep a backup" step: the store path is renamed away just before the
temporary file is renamed onto it -/
def progBackupRename : List Stmt :=
  [.op .always false .statTarget,
   .op .always true .createTemp, .retIfErr,
   .op .always true .write,
   .op .ifOk true .chmod,
   .op .ifOk true .sync,
   .op .always true .close,
   .op .ifOk true .renameTargetAway,
   .op .ifOk true .renameTmpToTarget,
   .op .ifErr false .removeTmp, .retIfErr]

/-- state of one run of the save procedure -/
structure Run where
  fs : FS
  fd : Option Nat      -- inode of the open file
  tmp : Option Nat     -- number of the temporary name created by this run
  err : Bool
deriving DecidableEq, Repr

def enabled : Guard → Bool → Bool
  | .always, _ => true
  | .ifOk, e => !e
  | .ifErr, e => e

/-- append `chunk` to the open file -/
def writeBytes (r : Run) (chunk : Bytes) : Run :=
  match r.fd with
  | some i => { r with fs := { r.fs with inodes := upd r.fs.inodes i (fun n => ⟨n.cur ++ chunk, false⟩) } }
  | none => r

/-- effect of a call that succeeds -/
def execOk (doc : Bytes) (o : FsOp) (r : Run) : Run :=
  match o with
  | .statTarget => r
  | .openTrunc =>
    match r.fs.target with
    | some i => { r with fs := { r.fs with inodes := upd r.fs.inodes i (fun _ => ⟨[], false⟩) }, fd := some i }
    | none =>
      let id := r.fs.inodes.length
      { r with fs := { r.fs with inodes := r.fs.inodes ++ [⟨[], false⟩], target := some id, thist := some id :: r.fs.thist },
               fd := some id }
  | .createTemp =>
    let id := r.fs.inodes.length
    let nm := freshName r.fs.tmps
    { r with fs := { r.fs with inodes := r.fs.inodes ++ [⟨[], false⟩], tmps := (nm, id) :: r.fs.tmps },
             fd := some id, tmp := some nm }
  | .createExcl =>
    -- reached only when the fixed name is free (see `execOp`)
    let id := r.fs.inodes.length
    { r with fs := { r.fs with inodes := r.fs.inodes ++ [⟨[], false⟩], tmps := (0, id) :: r.fs.tmps },
             fd := some id, tmp := some 0 }
  | .write => writeBytes r doc
  | .chmod => r
  | .sync =>
    match r.fd with
    | some i => { r with fs := { r.fs with inodes := upd r.fs.inodes i (fun n => ⟨n.cur, true⟩) } }
    | none => r
  | .close => { r with fd := none }
  | .renameTmpToTarget =>
    match r.tmp.bind (fun t => r.fs.tmps.lookup t) with
    | some id => { r with fs := { r.fs with target := some id, thist := some id :: r.fs.thist, isLink := false,
                                            tmps := r.fs.tmps.filter (fun p => some p.1 != r.tmp) } }
    | none => r
  | .removeTmp => { r with fs := { r.fs with tmps := r.fs.tmps.filter (fun p => some p.1 != r.tmp) } }
  | .renameTargetAway =>
    -- the directory entry (a link too) moves to the backup name, which the model does not track
    match r.fs.target with
    | some _ => { r with fs := { r.fs with target := none, thist := none :: r.fs.thist, isLink := false } }
    | none => r

/-- effect of a call that fails; for `write`, after `k` bytes went through (ENOSPC / EFBIG / EIO).
`close` releases the descriptor even when it reports an error; the other calls have no effect. -/
def execFail (doc : Bytes) (o : FsOp) (r : Run) (k : Nat) : Run :=
  match o with
  | .write => writeBytes r (doc.take k)
  | .close => { r with fd := none }
  | _ => r

/-- one call; `fail = some k` makes it fail (a write: after `k` bytes) -/
def execOp (doc : Bytes) (o : FsOp) (rec : Bool) (r : Run) (fail : Option Nat) : Run :=
  let fail := if o = .createExcl && (r.fs.tmps.lookup 0).isSome then some 0 else fail  -- EEXIST
  match fail with
  | none => execOk doc o r
  | some k => let r' := execFail doc o r k; if rec then { r' with err := true } else r'

/-- states strictly inside a call: a write passes through every byte count -/
def interm (doc : Bytes) (o : FsOp) (r : Run) (fail : Option Nat) : List FS :=
  match o with
  | .write =>
    let n := match fail with | none => doc.length | some k => min k doc.length
    (List.range (n + 1)).map (fun j => (writeBytes r (doc.take j)).fs)
  | _ => []

/-- a fault plan: statement number `i` fails (a write: after `k` bytes) -/
abbrev Fault := Option (Nat × Nat)

def faultAt (fault : Fault) (i : Nat) : Option Nat :=
  match fault with
  | some (j, k) => if j = i then some k else none
  | none => none

/-- Every file-system state the run passes through (= every instant at which the machine can lose power
or the process can be killed): before each statement, inside each write after every byte count, and at
the end. `i` is the number of the first statement of the list. -/
def trace (doc : Bytes) (fault : Fault) : List Stmt → Nat → Run → List FS
  | [], _, r => [r.fs]
  | .retIfErr :: rest, i, r => if r.err then [r.fs] else trace doc fault rest (i + 1) r
  | .op g rec o :: rest, i, r =>
    if enabled g r.err then
      r.fs :: (interm doc o r (faultAt fault i) ++ trace doc fault rest (i + 1) (execOp doc o rec r (faultAt fault i)))
    else trace doc fault rest (i + 1) r

/-- the run to its end (`stop = some i`: the process is killed right after statement `i`) -/
def finalRun (doc : Bytes) (fault : Fault) (stop : Option Nat) : List Stmt → Nat → Run → Run
  | [], _, r => r
  | .retIfErr :: rest, i, r => if r.err then r else finalRun doc fault stop rest (i + 1) r
  | .op g rec o :: rest, i, r =>
    if enabled g r.err then
      let r' := execOp doc o rec r (faultAt fault i)
      if stop = some i then r' else finalRun doc fault stop rest (i + 1) r'
    else finalRun doc fault stop rest (i + 1) r

def startRun (fs : FS) : Run := { fs := fs, fd := none, tmp := none, err := false }

/-- index of the first `write` statement -/
def writeIndex : List Stmt → Nat → Option Nat
  | [], _ => none
  | .op _ _ .write :: _, i => some i
  | _ :: rest, i => writeIndex rest (i + 1)

/-- What a restart may find at the store path after a **power loss** in state `fs`: the directory holds
any binding of `thist`; a file that was not synced after its last change holds anything at all. -/
def PostCrash (fs : FS) (c : Option Bytes) : Prop :=
  ∃ b ∈ fs.thist, match b with
    | none => c = none
    | some i => ∃ ino, fs.inodes[i]? = some ino ∧ ∃ d, c = some d ∧ (ino.clean = true → d = ino.cur)

/-- what a restart finds after a **process kill / error return** (the kernel keeps running): the current
binding and the page-cache content -/
def afterKill (fs : FS) : Option Bytes :=
  fs.target.bind (fun i => fs.inodes[i]?.map (·.cur))

/-! ## Part 2: the loader -/

/-- the store document format (JSON object username ↦ base64 uPSK in the code), kept abstract -/
structure Codec (U : Type) where
  ser : U → Bytes
  decode : Bytes → Option U
  empty : U

/-- `LoadFromFile` on a fresh `ManagedServer` (`cachedContent == ""`): a missing file is an error;
an **empty file equals the cached content, so it is "unchanged"**, the call succeeds and the server
runs with no users; anything else must decode (JSON, key lengths, no duplicate key). -/
def load {U : Type} (C : Codec U) : Option Bytes → Option U
  | none => none
  | some [] => some C.empty
  | some (b :: bs) => C.decode (b :: bs)

structure Codec.Lawful {U : Type} (C : Codec U) : Prop where
  decode_ser : ∀ u, C.decode (C.ser u) = some u
  ser_ne_nil : ∀ u, C.ser u ≠ []

/-- The hypothesis about the JSON encoding that the *defect* theorems need (validated against the real
decoder by the correspondence engine at every byte count): a strict, non-empty prefix of a document does
not load, except that the document without its final newline loads to the same store. -/
def Codec.PrefixUnloadable {U : Type} (C : Codec U) : Prop :=
  ∀ u p, p <+: C.ser u → p ≠ C.ser u → p ≠ [] → C.decode p = none ∨ C.decode p = some u

/-! ## Part 3: the debounce loop -/

inductive SelGuard
  | queue   -- `case <-s.saveQueue`
  | ctx     -- `case <-ctx.Done()`
  | timer   -- `case <-time.After(5 * time.Second)`
  | dflt    -- `default`
deriving DecidableEq, Repr

/-- control-flow graph of `dequeueSave`; node numbers are positions in the list -/
inductive Node
  | sel (alts : List (SelGuard × Nat))  -- `select`: each alternative with the node that follows
  | save (next : Nat)                    -- RLock; saveToFile; RUnlock
  | ret
deriving DecidableEq, Repr

/-- the pinned source: a cancellation seen at the first `select` returns at once -/
def progNoDrain : List Node :=
  [.sel [(.queue, 1), (.ctx, 4)], .sel [(.timer, 2), (.ctx, 2)], .sel [(.queue, 3), (.dflt, 3)], .save 0, .ret]

/-- with the final non-blocking look at the queue on cancellation -/
def progDrain : List Node :=
  [.sel [(.queue, 1), (.ctx, 5)], .sel [(.timer, 2), (.ctx, 2)], .sel [(.queue, 3), (.dflt, 3)], .save 0, .ret,
   .sel [(.queue, 1), (.dflt, 4)]]

/-- Store versions count API changes: `mem` = changes applied to the in-memory map, `disk` = version the
file holds. An API call is two steps (mutate under the write lock; `enqueueSave` after unlocking), then it
returns = the change is acknowledged. `acked` is the newest version acknowledged **before** cancellation. -/
structure DState where
  pc : Nat
  queue : Bool
  cancelled : Bool
  mem : Nat
  disk : Nat
  pend : List Nat
  acked : Nat
  exited : Bool
deriving DecidableEq, Repr

def dinit : DState :=
  { pc := 0, queue := false, cancelled := false, mem := 0, disk := 0, pend := [], acked := 0, exited := false }

/-- can this `select` alternative fire? `default` only when no other alternative can (Go semantics) -/
def guardReady (s : DState) : SelGuard → Bool
  | .queue => s.queue
  | .ctx => s.cancelled
  | .timer => true
  | .dflt => false

def altReady (s : DState) (alts : List (SelGuard × Nat)) (g : SelGuard) : Bool :=
  match g with
  | .dflt => alts.all (fun a => !guardReady s a.1)
  | g => guardReady s g

def fire (s : DState) (g : SelGuard) (nxt : Nat) : DState :=
  match g with
  | .queue => { s with queue := false, pc := nxt }
  | _ => { s with pc := nxt }

/-- every schedule: environment steps and saver steps interleave freely; a `select` with several ready
alternatives may take any of them -/
inductive Step (prog : List Node) : DState → DState → Prop
  /-- an API call changes the in-memory store (under the write lock; atomic w.r.t. the save) -/
  | mutate (s : DState) :
      Step prog s { s with mem := s.mem + 1, pend := (s.mem + 1) :: s.pend }
  /-- the same call runs `enqueueSave` (non-blocking send on the 1-slot queue) and returns -/
  | enqueue (s : DState) (v : Nat) (h : v ∈ s.pend) :
      Step prog s { s with pend := s.pend.erase v, queue := true,
                           acked := if s.cancelled then s.acked else max s.acked v }
  /-- shutdown begins -/
  | cancel (s : DState) : Step prog s { s with cancelled := true }
  | sel (s : DState) (alts : List (SelGuard × Nat)) (g : SelGuard) (nxt : Nat)
      (hx : s.exited = false) (hn : prog[s.pc]? = some (.sel alts)) (hm : (g, nxt) ∈ alts)
      (hr : altReady s alts g = true) : Step prog s (fire s g nxt)
  | save (s : DState) (nxt : Nat) (hx : s.exited = false) (hn : prog[s.pc]? = some (.save nxt)) :
      Step prog s { s with disk := s.mem, pc := nxt }
  /-- the goroutine returns: `wg.Wait()` in `Stop` is released -/
  | ret (s : DState) (hx : s.exited = false) (hn : prog[s.pc]? = some .ret) :
      Step prog s { s with exited := true }

inductive Reach (prog : List Node) : DState → Prop
  | init : Reach prog dinit
  | step {s t : DState} : Reach prog s → Step prog s t → Reach prog t

/-! ### executable exploration (driver): the saver's moves as a function -/

def saverMoves (prog : List Node) (timerOn : Bool) (s : DState) : List DState :=
  if s.exited then [] else
  match prog[s.pc]? with
  | some (.sel alts) =>
    alts.filterMap (fun a =>
      if altReady s alts a.1 && (timerOn || a.1 != .timer) then some (fire s a.1 a.2) else none)
  | some (.save nxt) => [{ s with disk := s.mem, pc := nxt }]
  | some .ret => [{ s with exited := true }]
  | none => []

def insertNew (acc : List DState) (xs : List DState) : List DState :=
  xs.foldl (fun a x => if a.contains x then a else a ++ [x]) acc

/-- all states reachable by saver moves alone (fuel-bounded breadth-first closure) -/
def closure (prog : List Node) (timerOn : Bool) : Nat → List DState → List DState
  | 0, ss => ss
  | fuel + 1, ss =>
    let ss' := insertNew ss (ss.flatMap (saverMoves prog timerOn))
    if ss'.length = ss.length then ss else closure prog timerOn fuel ss'

/-- states in which the saver cannot move (all goroutines blocked: `synctest.Wait` returns) -/
def blocked (prog : List Node) (timerOn : Bool) (ss : List DState) : List DState :=
  ss.filter (fun s => (saverMoves prog timerOn s).isEmpty)

/-- an API call made by the (single) test goroutine: the change, then `enqueueSave` and return -/
def apiMutate (s : DState) : DState := { s with mem := s.mem + 1 }
def apiEnqueue (s : DState) : DState :=
  { s with queue := true, acked := if s.cancelled then s.acked else max s.acked s.mem }

/-! ## decoding of the regenerated programs (`SSV.Gen.C20` is self-contained: strings only) -/

def Guard.ofString? : String → Option Guard
  | "always" => some .always | "ifOk" => some .ifOk | "ifErr" => some .ifErr | _ => none

def FsOp.ofString? : String → Option FsOp
  | "statTarget" => some .statTarget | "openTrunc" => some .openTrunc | "createTemp" => some .createTemp | "createExcl" => some .createExcl
  | "write" => some .write | "chmod" => some .chmod | "sync" => some .sync | "close" => some .close
  | "renameTmpToTarget" => some .renameTmpToTarget | "renameTargetAway" => some .renameTargetAway | "removeTmp" => some .removeTmp | _ => none

def Stmt.ofStrings? : List String → Option Stmt
  | ["retIfErr"] => some .retIfErr
  | ["op", g, r, o] => do
    let g ← Guard.ofString? g
    let o ← FsOp.ofString? o
    let r ← (match r with | "rec" => some true | "norec" => some false | _ => none)
    pure (.op g r o)
  | _ => none

def SelGuard.ofString? : String → Option SelGuard
  | "queue" => some .queue | "ctx" => some .ctx | "timer" => some .timer | "dflt" => some .dflt | _ => none

def altsOf? : List (String × Nat) → Option (List (SelGuard × Nat))
  | [] => some []
  | (g, n) :: rest => do
    let g ← SelGuard.ofString? g
    let r ← altsOf? rest
    pure ((g, n) :: r)

def Node.of? : String × List (String × Nat) → Option Node
  | ("ret", []) => some .ret
  | ("save", [("next", n)]) => some (.save n)
  | ("sel", alts) => (altsOf? alts).map .sel
  | _ => none

/-- the save procedure of the current source (`none`: the extractor emitted something unknown) -/
def saveProg? : Option (List Stmt) := SSV.Gen.C20.saveProg.mapM Stmt.ofStrings?
/-- the debounce loop of the current source -/
def dequeueProg? : Option (List Node) := SSV.Gen.C20.dequeueProg.mapM Node.of?

end SSV.Persist
