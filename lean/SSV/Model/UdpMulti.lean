import SSV.Model.UdpSession
/-
Multi-user (identity header, "EIH") Shadowsocks 2022 UDP server: `UDPServer.SessionInfo`, `UDPServer.NewUnpacker`
(ss2022/udp.go) and the per-session `ShadowPacketServerUnpacker` behind the session table of the relay
(service/udp_session.go: look the client session id up; unknown id => `NewUnpacker` from the packet's identity
header; the entry is stored only if this first packet unpacks).

A datagram is what the server can observe of it: `eihUser` = the user whose uPSK hash the identity header decrypts
to under the server's iPSK (none: `ErrIdentityHeaderUserPSKNotFound`), `keyUser` = the user under whose session key
(derived from that user's uPSK and the client session id in the separate header) the AEAD body opens (none: forged).
An established session never looks at the identity header again; its key is its user's.
-/
namespace SSV.UdpMulti
open SSV.SWF SSV.UdpSession

structure EPacket where
  /-- length ≥ 16: `SessionInfo` can decrypt the separate header -/
  sep : Bool
  /-- length ≥ 32: `NewUnpacker` finds the identity header -/
  eih : Bool
  eihUser : Option Nat
  keyUser : Option Nat
  /-- the rest; `pkt.long` = length ≥ 48 (`nonAEADHeaderLen + Overhead`); `pkt.authentic` is not used -/
  pkt : Packet
deriving Repr, DecidableEq

structure Entry where
  user : Nat
  st : ServerState
deriving Repr, DecidableEq

/-- the session table: client session id ↦ entry -/
abbrev Table := Nat → Option Entry

def emptyTable : Table := fun _ => none

def Table.set (t : Table) (c : Nat) (e : Entry) : Table := fun x => if x = c then some e else t x

inductive MRes where
  | res (r : Res)
  | userNotFound
deriving Repr, DecidableEq

def MRes.name : MRes → String
  | .res r => r.name
  | .userNotFound => "user-not-found"

/-- the packet as the unpacker of a session of user `u` sees it: its AEAD opens iff it was sealed under `u`'s key -/
def forUser (e : EPacket) (u : Nat) : Packet := { e.pkt with authentic := e.keyUser == some u }

/-- one datagram through `SessionInfo`, the table, `NewUnpacker`, `UnpackInPlace`; `n` = configured filter size -/
def multiStep (n : Nat) (t : Table) (now : Nat) (e : EPacket) : Table × MRes :=
  if !e.sep then (t, .res .tooSmall)
  else match t e.pkt.sid with
    | some ent =>
      let r := serverStep ent.st now (forUser e ent.user)
      (t.set e.pkt.sid { ent with st := r.1 }, .res r.2)
    | none =>
      if !e.eih then (t, .res .tooSmall)
      else match e.eihUser with
        | none => (t, .userNotFound)
        | some u =>
          let r := serverStep (serverInit n) now (forUser e u)
          if r.2 = .ok then (t.set e.pkt.sid { user := u, st := r.1 }, .res .ok) else (t, .res r.2)

abbrev MEvent := Nat × EPacket

def multiRun (n : Nat) (t : Table) : List MEvent → List MRes
  | [] => []
  | (now, e) :: r => (multiStep n t now e).2 :: multiRun n (multiStep n t now e).1 r

def multiAfter (n : Nat) (t : Table) : List MEvent → Table
  | [] => t
  | (now, e) :: r => multiAfter n (multiStep n t now e).1 r

/-- (client session id, packet id) of the delivered packets, most recent first -/
def multiDelivered (n : Nat) (t : Table) (d : List (Nat × Nat)) : List MEvent → List (Nat × Nat)
  | [] => d
  | (now, e) :: r =>
    multiDelivered n (multiStep n t now e).1
      (if (multiStep n t now e).2 = .res .ok then (e.pkt.sid, e.pkt.pid) :: d else d) r

end SSV.UdpMulti
