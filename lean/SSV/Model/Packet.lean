import SSV.Base.Util
import SSV.Gen.C05
/-
Model of the in-place UDP packet codecs (C05).

Go sources mirrored here:
  ss2022/packet.go   ShadowPacket{Client,Server}{Packer,Unpacker}.{PackInPlace,UnpackInPlace}
  ss2022/udp.go      UDPServer.SessionInfo / NewUnpacker (separate + identity header handling)
  ss2022/header.go   Put/ParseUDP{Client,Server}MessageHeader, ValidateUnixEpochTimestamp
  direct/packet.go   direct / Shadowsocks-none / SOCKS5 packers and unpackers
  socks5/addr.go     WriteAddrFrom{AddrPort,ConnAddr}, LengthOfAddrFrom…, AddrPortFromSlice, ConnAddrFromSlice
  socks5/packet.go   WritePacketHeader / ValidatePacketHeader
  zerocopy/*.go      Headroom, UDPRelayHeadroom, MaxHeadroom, MaxPacketSizeForAddr
  service/server.go, udp_nat.go, udp_session.go   the buffer layout of the relays

A buffer is a `List UInt8` whose length is the *capacity* of the Go slice (the services allocate with
`make([]byte, n)`, so cap = len).  Offsets the code computes with `int` arithmetic are `Int`s here and
every Go slice expression `b[lo:hi]` is guarded by the condition under which Go does not panic
(`0 ≤ lo ≤ hi ≤ cap`).  All offset arithmetic comes from `SSV.Gen.C05`, i.e. it is the translation of
the expressions that are in the source now.

Outcomes: `ok`, `err e` (the Go function returned an error), `panic` (a slice/index expression is out of
range), `noRoom` (`aead.Seal(plaintext[:0], …)` had fewer than 16 bytes of capacity behind the payload:
Go then seals into a fresh allocation and the packet left in the buffer is not a sealed packet).
-/
namespace SSV.Packet
open SSV SSV.Gen.C05

inductive Err
  | tooBig | tooSmall | incomplete | typeMismatch | badTimestamp | csidMismatch
  | addr | frag | source | aeadOpen | userNotFound | resolve | tooManySessions | replay
deriving DecidableEq, Repr

inductive Outcome (α : Type)
  | ok (a : α)
  | err (e : Err)
  | panic
  | noRoom
deriving Repr

namespace Outcome
@[simp] def bind {α β : Type} : Outcome α → (α → Outcome β) → Outcome β
  | ok a, f => f a
  | err e, _ => err e
  | panic, _ => panic
  | noRoom, _ => noRoom
instance : Monad Outcome where
  pure := ok
  bind := bind
/-- neither a panic nor a missing-seal-room outcome -/
def safe {α : Type} (o : Outcome α) : Prop := o ≠ panic ∧ o ≠ noRoom
end Outcome

/-! ## bytes -/

/-- `b[lo : lo+n]` as a value (callers check the range first) -/
def sub (b : Bytes) (lo n : Nat) : Bytes := (b.drop lo).take n

/-- overwrite `b[lo : lo+|d|]` with `d` (callers check the range first) -/
def splice (b : Bytes) (lo : Nat) (d : Bytes) : Bytes := b.take lo ++ d ++ b.drop (lo + d.length)

/-- a Go slice expression `b[lo:hi]` does not panic -/
def sliceOk (b : Bytes) (lo hi : Int) : Prop := 0 ≤ lo ∧ lo ≤ hi ∧ hi ≤ (b.length : Int)
instance (b : Bytes) (lo hi : Int) : Decidable (sliceOk b lo hi) := by unfold sliceOk; infer_instance

def be16 (n : Nat) : Bytes := [UInt8.ofNat (n / 256), UInt8.ofNat n]

/-- big-endian value of a byte string -/
def unbe (bs : Bytes) : Nat := bs.foldl (fun acc b => acc * 256 + b.toNat) 0

def xorBytes (a b : Bytes) : Bytes := List.zipWith (· ^^^ ·) a b

/-! ## addresses -/

inductive IP
  | v4 (a : Bytes)   -- 4 bytes
  | v6 (a : Bytes)   -- 16 bytes (possibly IPv4-mapped)
deriving DecidableEq, Repr

/-- `netip.AddrPort` -/
structure AddrPort where
  ip : IP
  port : Nat
deriving DecidableEq, Repr

/-- `conn.Addr`: zero value, IP+port, or domain+port -/
inductive Addr
  | zero
  | ip (ap : AddrPort)
  | dom (name : Bytes) (port : Nat)
deriving DecidableEq, Repr

def v4in6Prefix : Bytes := [0, 0, 0, 0, 0, 0, 0, 0, 0, 0, 0xff, 0xff]

def IP.wf : IP → Prop
  | .v4 a => a.length = 4
  | .v6 a => a.length = 16
def AddrPort.wf (ap : AddrPort) : Prop := ap.ip.wf ∧ ap.port < 65536
/-- what `conn.AddrFromDomainPort` / `AddrFromIPPort` can construct -/
def Addr.wf : Addr → Prop
  | .zero => True
  | .ip ap => ap.wf
  | .dom name port => 1 ≤ name.length ∧ name.length ≤ 255 ∧ port < 65536

instance : (ip : IP) → Decidable ip.wf
  | .v4 _ => by unfold IP.wf; infer_instance
  | .v6 _ => by unfold IP.wf; infer_instance
instance (ap : AddrPort) : Decidable ap.wf := by unfold AddrPort.wf; infer_instance
instance : (a : Addr) → Decidable a.wf
  | .zero => by unfold Addr.wf; infer_instance
  | .ip _ => by unfold Addr.wf; infer_instance
  | .dom _ _ => by unfold Addr.wf; infer_instance

/-- `ip.Is4() || ip.Is4In6()` -/
def IP.v4family : IP → Bool
  | .v4 _ => true
  | .v6 a => a.take 12 == v4in6Prefix
/-- `ip.As4()` (only used when `v4family`) -/
def IP.as4 : IP → Bytes
  | .v4 a => a
  | .v6 a => a.drop 12
/-- `ip.As16()` (only used when not `v4family`, i.e. for a plain IPv6 address) -/
def IP.as16 : IP → Bytes
  | .v4 a => v4in6Prefix ++ a
  | .v6 a => a

/-- the normalisation the wire format applies: an IPv4-mapped IPv6 address comes out as IPv4 -/
def IP.norm (ip : IP) : IP := if ip.v4family then .v4 ip.as4 else ip
def AddrPort.norm (ap : AddrPort) : AddrPort := { ap with ip := ap.ip.norm }
/-- …and the zero `conn.Addr` is written as 0.0.0.0:0 -/
def Addr.norm : Addr → Addr
  | .zero => .ip ⟨.v4 [0, 0, 0, 0], 0⟩
  | .ip ap => .ip ap.norm
  | .dom n p => .dom n p

def Addr.port : Addr → Nat
  | .zero => 0
  | .ip ap => ap.port
  | .dom _ p => p

/-- `socks5.LengthOfAddrFromAddrPort` -/
def addrPortLen (ap : AddrPort) : Int := if ap.ip.v4family then addrLenV4 else addrLenV6
/-- `socks5.LengthOfAddrFromConnAddr` (its panic for a domain longer than 255 is `Addr.domTooLong`) -/
def addrLen : Addr → Int
  | .zero => addrLenZero
  | .ip ap => addrPortLen ap
  | .dom name _ => addrLenDomain name.length
def Addr.domTooLong : Addr → Bool
  | .dom name _ => decide (name.length > 255)
  | _ => false

/-- `socks5.WriteAddrFromAddrPort` -/
def encodeAddrPort (ap : AddrPort) : Bytes :=
  if ap.ip.v4family then UInt8.ofNat AtypIPv4 :: (ap.ip.as4 ++ be16 ap.port)
  else UInt8.ofNat AtypIPv6 :: (ap.ip.as16 ++ be16 ap.port)
/-- `socks5.WriteAddrFromConnAddr` -/
def encodeAddr : Addr → Bytes
  | .zero => encodeAddrPort ⟨.v4 [0, 0, 0, 0], 0⟩
  | .ip ap => encodeAddrPort ap
  | .dom name port => UInt8.ofNat AtypDomainName :: UInt8.ofNat name.length :: (name ++ be16 port)

/-- `socks5.AddrPortFromSlice` -/
def decodeAddrPort (s : Bytes) : Outcome (AddrPort × Nat) :=
  if s.length < 7 then .err .addr
  else match s with
    | [] => .err .addr
    | t :: _ =>
      if t.toNat = AtypIPv4 then .ok (⟨.v4 (sub s 1 4), unbe (sub s 5 2)⟩, 7)
      else if t.toNat = AtypIPv6 then
        if s.length < 19 then .err .addr else .ok (⟨.v6 (sub s 1 16), unbe (sub s 17 2)⟩, 19)
      else .err .addr

/-- `socks5.ConnAddrFromSlice` / `DomainCache.ConnAddrFromSlice` (+ `conn.AddrFromDomainPort`) -/
def decodeAddr (s : Bytes) : Outcome (Addr × Nat) :=
  if s.length < 2 then .err .addr
  else match s with
    | [] => .err .addr
    | t :: tl =>
      if t.toNat = AtypDomainName then
        match tl with
        | [] => .err .addr
        | l :: _ =>
          let dl := l.toNat
          if s.length < 2 + dl + 2 then .err .addr
          else if dl = 0 then .err .addr
          else .ok (.dom (sub s 2 dl) (unbe (sub s (2 + dl) 2)), 2 + dl + 2)
      else if t.toNat = AtypIPv4 then
        if s.length < 7 then .err .addr else .ok (.ip ⟨.v4 (sub s 1 4), unbe (sub s 5 2)⟩, 7)
      else if t.toNat = AtypIPv6 then
        if s.length < 19 then .err .addr else .ok (.ip ⟨.v6 (sub s 1 16), unbe (sub s 17 2)⟩, 19)
      else .err .addr

/-- `conn.AddrPortMappedEqual` -/
def mappedEqual (l r : AddrPort) : Bool := l.ip.as16 == r.ip.as16 && l.port == r.port

/-! ## padding policy, MTU -/

inductive Policy | noPadding | padPlainDNS | padAll
deriving DecidableEq, Repr

def shouldPad : Policy → Nat → Bool
  | .noPadding, _ => false
  | .padPlainDNS, port => port == 53
  | .padAll, _ => true

/-- `zerocopy.MaxPacketSizeForAddr(mtu, ip)` -/
def maxPacketSize (mtu : Int) (ip : IP) : Int := maxPacketSizeForAddr mtu ip.v4family

/-! ## abstract cryptography -/

/-- AEAD (`seal/open key nonce text`) and block cipher (`enc/dec key block`) as functions. -/
structure Crypto where
  aseal : Bytes → Bytes → Bytes → Bytes
  aopen : Bytes → Bytes → Bytes → Option Bytes
  enc : Bytes → Bytes → Bytes
  dec : Bytes → Bytes → Bytes

structure Crypto.Laws (c : Crypto) : Prop where
  seal_len : ∀ k n p, (c.aseal k n p).length = p.length + 16
  open_seal : ∀ k n p, c.aopen k n (c.aseal k n p) = some p
  open_len : ∀ k n ct p, c.aopen k n ct = some p → p.length + 16 = ct.length
  enc_len : ∀ k x, (c.enc k x).length = x.length
  dec_len : ∀ k x, (c.dec k x).length = x.length
  dec_enc : ∀ k x, c.dec k (c.enc k x) = x

/-! ## timestamps -/

def wrap64 (x : Int) : Int := (x + 2 ^ 63) % 2 ^ 64 - 2 ^ 63

/-- `ValidateUnixEpochTimestamp`: `diff := int64(be64 b) - now.Unix()` (wrapping), `-30 ≤ diff ≤ 30` -/
def tsOk (ts : Bytes) (now : Int) : Bool :=
  let diff := wrap64 (wrap64 (unbe ts) - now)
  decide (-(MaxEpochDiff : Int) ≤ diff ∧ diff ≤ (MaxEpochDiff : Int))

/-! ## Shadowsocks 2022 -/

structure Packed where
  buf : Bytes
  packetStart : Int
  packetLen : Int
  /-- the packet as plaintext (separate header, identity hashes, message header, payload): what the
      correspondence check compares with the decrypted packet of the implementation -/
  view : Bytes
deriving Repr

/-- `paddingLen` of both packers: `switch { case maxPaddingLen < 0: TooBig; case maxPaddingLen > 0 && shouldPad: 1 + IntN(maxPaddingLen) }`;
`rand` is the value `mrand.IntN` is taken to return (reduced into range). -/
def choosePadding (maxPaddingLen : Int) (pad : Bool) (rand : Nat) : Int :=
  if maxPaddingLen > 0 ∧ pad then 1 + ((rand % maxPaddingLen.toNat : Nat) : Int) else 0

/-- `UDPSeparateHeaderPackerCipher`: the separate header is encrypted with the first identity cipher if there is one -/
def ssBlock (userBlock : Bytes) (eih : List (Bytes × Bytes)) : Bytes :=
  match eih with
  | kh :: _ => kh.1
  | [] => userBlock

/-- `ShadowPacketClientPacker.PackInPlace` after the padding length is chosen -/
def ssClientPackWith (c : Crypto) (userBlock aeadKey : Bytes) (eih : List (Bytes × Bytes)) (b : Bytes) (a : Addr)
    (payloadStart payloadLen : Nat) (pad : Int) (ts sid pid : Bytes) : Outcome Packed :=
  let nonAEAD : Int := (UDPSeparateHeaderLength : Int) + (IdentityHeaderLength : Int) * eih.length
  let alen := addrLen a
  let mhs := cMessageHeaderStart payloadStart alen pad
  -- PutUDPClientMessageHeader(b[messageHeaderStart:payloadStart], …)
  if ¬ sliceOk b mhs payloadStart then .panic else
  let packetStart := cPacketStart mhs nonAEAD
  let packetLen := cPacketLen payloadStart packetStart payloadLen 16
  -- separateHeader := b[packetStart:identityHeadersStart]
  if ¬ sliceOk b packetStart (cIdentityHeadersStart packetStart) then .panic else
  -- plaintext := b[messageHeaderStart : payloadStart+payloadLen]
  if ¬ sliceOk b mhs (payloadStart + payloadLen) then .panic else
  let padding := sub b (mhs.toNat + UDPClientMessageHeaderFixedLength) pad.toNat
  let hdr := UInt8.ofNat HeaderTypeClientPacket :: (ts ++ be16 pad.toNat ++ padding ++ encodeAddr a)
  let payload := sub b payloadStart payloadLen
  let sep := sid ++ pid
  let ids := eih.map (fun kh => c.enc kh.1 (xorBytes kh.2 sep))
  -- p.aead.Seal(plaintext[:0], nonce, plaintext, nil): in place only with 16 bytes of capacity behind
  if (payloadStart : Int) + payloadLen + 16 > b.length then .noRoom else
  let packet := c.enc (ssBlock userBlock eih) sep ++ ids.flatten ++ c.aseal aeadKey (sep.drop 4) (hdr ++ payload)
  .ok { buf := splice b packetStart.toNat packet, packetStart := packetStart, packetLen := packetLen,
        view := sep ++ (eih.map (·.2)).flatten ++ hdr ++ payload }

/-- `ShadowPacketClientPacker.PackInPlace`. `eih` = (identity cipher key, PSK hash) per identity header. -/
def ssClientPack (c : Crypto) (userBlock aeadKey : Bytes) (eih : List (Bytes × Bytes)) (maxPacketSize : Int)
    (pol : Policy) (b : Bytes) (a : Addr) (payloadStart payloadLen : Nat) (rand : Nat) (ts sid pid : Bytes) :
    Outcome Packed :=
  if a.domTooLong then .panic else
  let nonAEAD : Int := (UDPSeparateHeaderLength : Int) + (IdentityHeaderLength : Int) * eih.length
  let hnp := cHeaderNoPaddingLen nonAEAD (addrLen a)
  let maxPad := cMaxPaddingLen maxPacketSize hnp payloadStart payloadLen 16
  if maxPad < 0 then .err .tooBig else
  ssClientPackWith c userBlock aeadKey eih b a payloadStart payloadLen
    (choosePadding maxPad (shouldPad pol a.port) rand) ts sid pid

/-- `ShadowPacketServerPacker.PackInPlace` after the padding length is chosen -/
def ssServerPackWith (c : Crypto) (block aeadKey : Bytes) (b : Bytes) (src : AddrPort)
    (payloadStart payloadLen : Nat) (pad : Int) (ts ssid spid csid : Bytes) : Outcome Packed :=
  let alen := addrPortLen src
  let mhs := sMessageHeaderStart payloadStart alen pad
  if ¬ sliceOk b mhs payloadStart then .panic else
  let packetStart := sPacketStart mhs
  let packetLen := sPacketLen payloadStart packetStart payloadLen 16
  -- separateHeader := b[packetStart:messageHeaderStart]
  if ¬ sliceOk b packetStart mhs then .panic else
  if ¬ sliceOk b mhs (payloadStart + payloadLen) then .panic else
  let padding := sub b (mhs.toNat + UDPServerMessageHeaderFixedLength) pad.toNat
  let hdr := UInt8.ofNat HeaderTypeServerPacket :: (ts ++ csid ++ be16 pad.toNat ++ padding ++ encodeAddrPort src)
  let payload := sub b payloadStart payloadLen
  let sep := ssid ++ spid
  if (payloadStart : Int) + payloadLen + 16 > b.length then .noRoom else
  let packet := c.enc block sep ++ c.aseal aeadKey (sep.drop 4) (hdr ++ payload)
  .ok { buf := splice b packetStart.toNat packet, packetStart := packetStart, packetLen := packetLen,
        view := sep ++ hdr ++ payload }

/-- `ShadowPacketServerPacker.PackInPlace` -/
def ssServerPack (c : Crypto) (block aeadKey : Bytes) (pol : Policy) (b : Bytes) (src : AddrPort)
    (payloadStart payloadLen : Nat) (maxPacketLen : Int) (rand : Nat) (ts ssid spid csid : Bytes) : Outcome Packed :=
  let hnp := sHeaderNoPaddingLen (addrPortLen src)
  let maxPad := sMaxPaddingLen maxPacketLen hnp payloadStart payloadLen 16
  if maxPad < 0 then .err .tooBig else
  ssServerPackWith c block aeadKey b src payloadStart payloadLen
    (choosePadding maxPad (shouldPad pol src.port) rand) ts ssid spid csid

structure Unpacked (α : Type) where
  buf : Bytes
  addr : α
  payloadStart : Int
  payloadLen : Int
deriving Repr

/-- `ParseUDPClientMessageHeader` on the opened plaintext: (target, payloadStart, payloadLen) -/
def parseClientHeader (pt : Bytes) (now : Int) : Outcome (Addr × Nat × Nat) :=
  if pt.length < UDPClientMessageHeaderFixedLength then .err .incomplete else
  if (sub pt 0 1) ≠ [UInt8.ofNat HeaderTypeClientPacket] then .err .typeMismatch else
  if ¬ tsOk (sub pt 1 8) now then .err .badTimestamp else
  let pad := unbe (sub pt 9 2)
  let ps := UDPClientMessageHeaderFixedLength + pad
  if ps > pt.length then .err .incomplete else
  match decodeAddr (pt.drop ps) with
  | .ok (a, n) => .ok (a, ps + n, pt.length - (ps + n))
  | .err e => .err e
  | .panic => .panic
  | .noRoom => .noRoom

/-- `ParseUDPServerMessageHeader` -/
def parseServerHeader (pt : Bytes) (now : Int) (csid : Bytes) : Outcome (AddrPort × Nat × Nat) :=
  if pt.length < UDPServerMessageHeaderFixedLength then .err .incomplete else
  if (sub pt 0 1) ≠ [UInt8.ofNat HeaderTypeServerPacket] then .err .typeMismatch else
  if ¬ tsOk (sub pt 1 8) now then .err .badTimestamp else
  if sub pt 9 8 ≠ csid then .err .csidMismatch else
  let pad := unbe (sub pt 17 2)
  let ps := UDPServerMessageHeaderFixedLength + pad
  if ps > pt.length then .err .incomplete else
  match decodeAddrPort (pt.drop ps) with
  | .ok (a, n) => .ok (a, ps + n, pt.length - (ps + n))
  | .err e => .err e
  | .panic => .panic
  | .noRoom => .noRoom

/-- Server side of a client packet as the session relay runs it on `recvBuf[:n]`:
`UDPServer.SessionInfo` (decrypt the separate header in place), `UDPServer.NewUnpacker` (when the server
has an identity layer: decrypt the identity header, XOR, look the user up), then
`ShadowPacketServerUnpacker.UnpackInPlace` with `nonAEADHeaderLen = 16 + 16·idHeaders` on a fresh filter.
`users` = (PSK hash, session AEAD key) table; without identity layer `aeadKey` is used. -/
def ssServerUnpack (c : Crypto) (block aeadKey : Bytes) (idHeaders : Nat) (lookup : Bool) (users : List (Bytes × Bytes))
    (now : Int) (b : Bytes) (packetStart packetLen : Nat) : Outcome (Unpacked Addr) :=
  -- packet := recvBuf[:n]
  if ¬ sliceOk b packetStart (packetStart + packetLen) then .panic else
  if packetLen < UDPSeparateHeaderLength then .err .tooSmall else
  let sep := c.dec block (sub b packetStart 16)
  let nonAEAD : Nat := UDPSeparateHeaderLength + IdentityHeaderLength * idHeaders
  if packetLen < nonAEAD then .err .tooSmall else
  let idsRaw := sub b (packetStart + 16) (nonAEAD - 16)
  let idFirst := xorBytes (c.dec block (idsRaw.take 16)) sep
  let ids := if lookup then idFirst ++ idsRaw.drop 16 else idsRaw
  let key? := if lookup then (users.find? (fun u => u.1 == idFirst)).map (·.2) else some aeadKey
  match key? with
  | none => .err .userNotFound
  | some key =>
    if sUnpackTooSmall packetLen nonAEAD 16 then .err .tooSmall else
    let mhs := sUnpackMessageHeaderStart packetStart nonAEAD
    let ct := sub b mhs.toNat (packetLen - nonAEAD)
    match c.aopen key (sep.drop 4) ct with
    | none => .err .aeadOpen
    | some pt =>
      match parseClientHeader pt now with
      | .ok (a, ps, pl) =>
        .ok { buf := splice b packetStart (sep ++ ids ++ pt), addr := a, payloadStart := mhs + ps, payloadLen := pl }
      | .err e => .err e
      | .panic => .panic
      | .noRoom => .noRoom

/-- `ShadowPacketClientUnpacker.UnpackInPlace` of a fresh unpacker (first packet of a server session) -/
def ssClientUnpack (c : Crypto) (block aeadKey csid : Bytes) (now : Int) (b : Bytes) (packetStart packetLen : Nat) :
    Outcome (Unpacked AddrPort) :=
  if cUnpackTooSmall packetLen then .err .tooSmall else
  let mhs := cUnpackMessageHeaderStart packetStart
  if ¬ sliceOk b packetStart mhs then .panic else
  if ¬ sliceOk b mhs (packetStart + packetLen) then .panic else
  let sep := c.dec block (sub b packetStart 16)
  let ct := sub b mhs.toNat (packetLen - 16)
  match c.aopen aeadKey (sep.drop 4) ct with
  | none => .err .aeadOpen
  | some pt =>
    match parseServerHeader pt now csid with
    | .ok (a, ps, pl) =>
      .ok { buf := splice b packetStart (sep ++ pt), addr := a, payloadStart := mhs + ps, payloadLen := pl }
    | .err e => .err e
    | .panic => .panic
    | .noRoom => .noRoom

/-! ## Shadowsocks none, SOCKS5 -/

/-- `ShadowsocksNonePacketClientPacker.PackInPlace` (`hdr3 = false`) and `Socks5PacketClientPacker.PackInPlace`
(`hdr3 = true`): the address (after RSV RSV FRAG for SOCKS5) is written in front of the payload — also when
`ErrPayloadTooBig` is returned, which is why the range check comes first. -/
def plainClientPack (hdr3 : Bool) (limit : Int) (b : Bytes) (a : Addr) (payloadStart payloadLen : Nat) : Outcome Packed :=
  if a.domTooLong then .panic else
  let alen := addrLen a
  let packetStart := if hdr3 then socks5CPacketStart payloadStart alen else noneCPacketStart payloadStart alen
  let packetLen := if hdr3 then socks5CPacketLen payloadLen alen else noneCPacketLen payloadLen alen
  let head : Bytes := (if hdr3 then [0, 0, 0] else []) ++ encodeAddr a
  -- socks5.WritePacketHeader(b[packetStart:]); socks5.WriteAddrFromConnAddr(b[packetStart(+3):], targetAddr)
  if ¬ sliceOk b packetStart (packetStart + head.length) then .panic else
  if (if hdr3 then socks5CTooBig packetLen limit else noneCTooBig packetLen limit) then .err .tooBig else
  .ok { buf := splice b packetStart.toNat head, packetStart := packetStart, packetLen := packetLen,
        view := head ++ sub b payloadStart payloadLen }

/-- `ShadowsocksNonePacketServerPacker.PackInPlace` / `Socks5PacketServerPacker.PackInPlace` -/
def plainServerPack (hdr3 : Bool) (b : Bytes) (src : AddrPort) (payloadStart payloadLen : Nat) (maxPacketLen : Int) :
    Outcome Packed :=
  let alen := addrPortLen src
  let packetStart := if hdr3 then socks5SPacketStart payloadStart alen else noneSPacketStart payloadStart alen
  let packetLen := if hdr3 then socks5SPacketLen payloadLen alen else noneSPacketLen payloadLen alen
  let head : Bytes := (if hdr3 then [0, 0, 0] else []) ++ encodeAddrPort src
  if ¬ sliceOk b packetStart (packetStart + head.length) then .panic else
  if (if hdr3 then socks5STooBig packetLen maxPacketLen else noneSTooBig packetLen maxPacketLen) then .err .tooBig else
  .ok { buf := splice b packetStart.toNat head, packetStart := packetStart, packetLen := packetLen,
        view := head ++ sub b payloadStart payloadLen }

/-- `ShadowsocksNonePacketServerUnpacker.UnpackInPlace` / `Socks5PacketServerUnpacker.UnpackInPlace` -/
def plainServerUnpack (hdr3 : Bool) (b : Bytes) (packetStart packetLen : Nat) : Outcome (Unpacked Addr) :=
  if hdr3 ∧ socks5SUTooSmall packetLen then .err .tooSmall else
  -- pkt := b[packetStart : packetStart+packetLen]
  if ¬ sliceOk b packetStart (packetStart + packetLen) then .panic else
  let pkt := sub b packetStart packetLen
  -- socks5.ValidatePacketHeader: b[2] != 0
  if hdr3 ∧ sub pkt 2 1 ≠ [0] then .err .frag else
  match decodeAddr (if hdr3 then pkt.drop 3 else pkt) with
  | .ok (a, n) =>
    .ok { buf := b, addr := a,
          payloadStart := if hdr3 then socks5SUPayloadStart packetStart n else noneSUPayloadStart packetStart n,
          payloadLen := if hdr3 then socks5SUPayloadLen packetLen n else noneSUPayloadLen packetLen n }
  | .err e => .err e
  | .panic => .panic
  | .noRoom => .noRoom

/-- `ShadowsocksNonePacketClientUnpacker.UnpackInPlace` / `Socks5PacketClientUnpacker.UnpackInPlace`;
`from`/`server` = the packet's source and the configured server address -/
def plainClientUnpack (hdr3 : Bool) (server pktSrc : AddrPort) (b : Bytes) (packetStart packetLen : Nat) :
    Outcome (Unpacked AddrPort) :=
  if ¬ mappedEqual pktSrc server then .err .source else
  if hdr3 ∧ socks5CUTooSmall packetLen then .err .tooSmall else
  if ¬ sliceOk b packetStart (packetStart + packetLen) then .panic else
  let pkt := sub b packetStart packetLen
  if hdr3 ∧ sub pkt 2 1 ≠ [0] then .err .frag else
  match decodeAddrPort (if hdr3 then pkt.drop 3 else pkt) with
  | .ok (a, n) =>
    .ok { buf := b, addr := a,
          payloadStart := if hdr3 then socks5CUPayloadStart packetStart n else noneCUPayloadStart packetStart n,
          payloadLen := if hdr3 then socks5CUPayloadLen packetLen n else noneCUPayloadLen packetLen n }
  | .err e => .err e
  | .panic => .panic
  | .noRoom => .noRoom

/-! ## direct -/

/-- `DirectPacketClientPacker.PackInPlace`; `resolved` = what the resolver returns for a domain target
(`none` = lookup failure). The zero `conn.Addr` makes `targetAddr.Domain()` panic. -/
def directClientPack (mtu : Int) (resolved : Option IP) (b : Bytes) (a : Addr) (payloadStart payloadLen : Nat) :
    Outcome Packed :=
  let dest? : Outcome IP := match a with
    | .ip ap => .ok ap.ip
    | .dom _ _ => (match resolved with | some ip => .ok ip | none => .err .resolve)
    | .zero => .panic
  match dest? with
  | .ok ip =>
    if directCTooBig payloadLen (maxPacketSize mtu ip) then .err .tooBig
    else .ok { buf := b, packetStart := payloadStart, packetLen := payloadLen, view := sub b payloadStart payloadLen }
  | .err e => .err e
  | .panic => .panic
  | .noRoom => .noRoom

/-- `DirectPacketServerPackUnpacker.PackInPlace`. With `targetAddrOnly`, `p.targetAddr.IPPort()` is evaluated:
it panics unless the tunnel address is an IP address (finding F4; the precondition is explicit in the theorems). -/
def directServerPack (target : Addr) (targetOnly : Bool) (b : Bytes) (src : AddrPort) (payloadStart payloadLen : Nat)
    (maxPacketLen : Int) : Outcome Packed :=
  if targetOnly then
    match target with
    | .ip t =>
      if ¬ mappedEqual src t then .err .source
      else if directSTooBig payloadLen maxPacketLen then .err .tooBig
      else .ok { buf := b, packetStart := payloadStart, packetLen := payloadLen, view := sub b payloadStart payloadLen }
    | _ => .panic
  else if directSTooBig payloadLen maxPacketLen then .err .tooBig
  else .ok { buf := b, packetStart := payloadStart, packetLen := payloadLen, view := sub b payloadStart payloadLen }

/-- `DirectPacketServerPackUnpacker.UnpackInPlace` -/
def directServerUnpack (target : Addr) (b : Bytes) (packetStart packetLen : Nat) : Outcome (Unpacked Addr) :=
  .ok { buf := b, addr := target, payloadStart := packetStart, payloadLen := packetLen }

/-- `DirectPacketClientUnpacker.UnpackInPlace` -/
def directClientUnpack (pktSrc : AddrPort) (b : Bytes) (packetStart packetLen : Nat) : Outcome (Unpacked AddrPort) :=
  .ok { buf := b, addr := pktSrc, payloadStart := packetStart, payloadLen := packetLen }

/-! ## headroom and the buffer layout of the relays -/

structure Headroom where
  front : Int
  rear : Int
deriving DecidableEq, Repr

/-- UDP protocols; `ss2022 k`: `k` identity headers (client: number of iPSKs, 0..3; server: 0 or 1) -/
inductive Proto
  | direct | none | socks5 | ss2022 (k : Nat)
deriving DecidableEq, Repr

/-- `UDPClient.Info().PackerHeadroom` = `ClientPackerInfo().Headroom` -/
def clientPackerHeadroom : Proto → Headroom
  | .direct => ⟨0, 0⟩
  | .none => ⟨noneClientHeadroomFront, noneClientHeadroomRear⟩
  | .socks5 => ⟨socks5ClientHeadroomFront, socks5ClientHeadroomRear⟩
  | .ss2022 k => ⟨ssClientHeadroomFront ((IdentityHeaderLength : Int) * k), ssClientHeadroomRear ((IdentityHeaderLength : Int) * k)⟩
/-- `UDP{NAT,Session}Server.Info().UnpackerHeadroom` = `ServerUnpackerInfo().Headroom` -/
def serverUnpackerHeadroom : Proto → Headroom := clientPackerHeadroom
/-- `ServerPackerInfo().Headroom` -/
def serverPackerHeadroom : Proto → Headroom
  | .direct => ⟨0, 0⟩
  | .none => ⟨noneServerHeadroomFront, noneServerHeadroomRear⟩
  | .socks5 => ⟨socks5ServerHeadroomFront, socks5ServerHeadroomRear⟩
  | .ss2022 _ => ⟨ssServerHeadroomFront, ssServerHeadroomRear⟩
/-- `ClientUnpackerInfo().Headroom` -/
def clientUnpackerHeadroom : Proto → Headroom := serverPackerHeadroom

/-- `zerocopy.UDPRelayHeadroom(packer, unpacker)` -/
def relayHeadroom (p u : Headroom) : Headroom := ⟨relayHeadroomFront p.front u.front, relayHeadroomRear p.rear u.rear⟩
/-- `zerocopy.MaxHeadroom` -/
def maxHeadroom (x y : Headroom) : Headroom := ⟨maxHeadroomFront x.front y.front, maxHeadroomRear x.rear y.rear⟩

structure Layout where
  front : Int      -- offset at which packets are received
  recvSize : Int   -- size of the receive window
  bufSize : Int    -- size of the whole buffer
deriving DecidableEq, Repr

/-- `ServerConfig.UDPRelay`: the uplink packet buffers (`maxClient` = MaxHeadroom over all configured clients) -/
def uplinkLayout (mtu : Int) (maxClient : Headroom) (server : Proto) : Layout :=
  let h := relayHeadroom maxClient (serverUnpackerHeadroom server)
  let recv := maxPacketSizeForAddr mtu true   -- MaxPacketSizeForAddr(sc.MTU, netip.IPv4Unspecified())
  ⟨h.front, recv, uplinkBufSize h.front recv h.rear⟩

/-- `relayNatConnToServerConnGeneric`: the downlink buffer; `recvSize` = `clientSession.MaxPacketSize` -/
def downlinkLayout (session : Bool) (recvSize : Int) (server client : Proto) : Layout :=
  let h := relayHeadroom (serverPackerHeadroom server) (clientUnpackerHeadroom client)
  ⟨h.front, recvSize, if session then downlinkBufSize_udp_session h.front recvSize h.rear else downlinkBufSize_udp_nat h.front recvSize h.rear⟩

end SSV.Packet

namespace SSV.Packet
open SSV

/-! ## the driver's transparent toy cryptography (an instance of `Crypto.Laws`, see Proofs/Packet.lean) -/

def fnv64 (bs : Bytes) : UInt64 :=
  bs.foldl (fun h b => (h ^^^ b.toUInt64) * 0x100000001b3) 0xcbf29ce484222325

def u64bytes (h : UInt64) : Bytes :=
  [(h >>> 56).toUInt8, (h >>> 48).toUInt8, (h >>> 40).toUInt8, (h >>> 32).toUInt8,
   (h >>> 24).toUInt8, (h >>> 16).toUInt8, (h >>> 8).toUInt8, h.toUInt8]

def toyKeyByte (k : Bytes) : UInt8 := k.foldl (· + ·) 7

def toyTag (k n p : Bytes) : Bytes :=
  let h := fnv64 (k ++ n ++ p)
  u64bytes h ++ u64bytes (h * 0x9e3779b97f4a7c15 + 1)

def toyCrypto : Crypto where
  aseal k n p := p ++ toyTag k n p
  aopen k n ct :=
    if ct.length < 16 then none
    else
      let p := ct.take (ct.length - 16)
      if ct.drop (ct.length - 16) = toyTag k n p then some p else none
  enc k x := x.map (· + toyKeyByte k)
  dec k x := x.map (· - toyKeyByte k)

end SSV.Packet
