import SSV.Model.Parsers
/-
C06, "everything computed afterwards … relaying": the re-pack step of the UDP relays and the padding choice
of the ss2022 TCP client, as computed from a hostile-but-valid datagram / request (peer-controlled LENGTHS and
PORTS): uplink = an unpacked client datagram re-packed by each client packer, downlink = a target's reply
re-packed by each server packer. Offsets are `Int` (Go `int`, may go negative); `mrand.IntN(n)` panics unless
`n > 0`; `intToUint16` panics out of range; `b[i:j]` on the relay's buffer (allocated with len = cap).

Sources: ss2022/packet.go (both `PackInPlace`), ss2022/header.go (`Put*Header`, `intToUint16`), ss2022/tcp.go
(`DialStream`), direct/packet.go (client / server packers), socks5/addr.go (`LengthOf*`, `Write*`), zerocopy/packet.go.
-/
namespace SSV.Parsers
open SSV SSV.Go SSV.Outcome

/-- `netip.Addr.Is4In6` on 16 address bytes -/
def is4in6 (a : Bytes) : Bool := a.length == 16 && a.take 12 == [0,0,0,0,0,0,0,0,0,0,0xff,0xff]

/-- `socks5.LengthOfAddrFromConnAddr` (zero value = 0.0.0.0:0; 4-in-6 written as IPv4; panics on a name > 255 bytes) -/
def Addr.socksLen : Addr → R Nat
  | .none => .ok (1 + 4 + 2)
  | .ip4 _ _ => .ok (1 + 4 + 2)
  | .ip6 a _ => .ok (if is4in6 a then 1 + 4 + 2 else 1 + 16 + 2)
  | .dom d _ => if d.length > 255 then .panic else .ok (1 + 1 + d.length + 2)

/-- what `conn.AddrFromDomainPort` guarantees for every address a parser returns -/
def Addr.nameFits : Addr → Bool
  | .dom d _ => decide (d.length ≤ 255)
  | _ => true

/-- `mrand.IntN(n)`: "invalid argument to IntN" unless `n > 0`; otherwise some value below `n` (`draw` = the generator's choice) -/
def intN (draw : Nat) (n : Int) : R Int := if n ≤ 0 then .panic else .ok ((draw : Int) % n)

/-- `intToUint16` -/
def intToUint16 (i : Int) : R Unit := if 0 ≤ i ∧ i < 65536 then .ok () else .panic

/-- `b[i:j]` with Go `int` bounds on a buffer of length (= capacity) `n` -/
def goSlice (n : Nat) (i j : Int) : R Unit := if 0 ≤ i ∧ i ≤ j ∧ j ≤ (n : Int) then .ok () else .panic

/-- `zerocopy.MaxPacketSizeForAddr(mtu, addr)`; `v4` = `addr.Is4() || addr.Is4In6()` -/
def maxPacketSizeForAddr (mtu : Int) (v4 : Bool) : Int :=
  if v4 then mtu - 20 - 8 else if mtu > 65575 then mtu - 40 - 8 - 8 else mtu - 40 - 8

/-- `(*ShadowPacketClientPacker).PackInPlace` up to the ciphers: (packetStart, packetLen).
`guarded` = the padding draw is under `maxPaddingLen > 0` (regenerated from the source: `clientPackerGuardsIntN`). -/
def ss2022ClientPack (guarded : Bool) (maxPacketSize : Int) (nonAEAD : Nat) (target : Addr) (shouldPad : Bool) (draw : Nat)
    (bufLen ps pl : Nat) : R (Int × Int) := do
  let tal ← target.socksLen
  let hnp : Int := (nonAEAD : Int) + Gen.C06.UDPClientMessageHeaderFixedLength + tal
  let maxPad : Int := min (min (maxPacketSize - hnp - pl - Gen.C06.tagSize) ((ps : Int) - hnp)) 65535
  if maxPad < 0 then .err .tooBig else do
  let pad : Int ← (if (!guarded || decide (maxPad > 0)) && shouldPad then do
      let d ← intN draw maxPad
      pure (1 + d)
    else pure 0)
  let mhs : Int := (ps : Int) - Gen.C06.UDPClientMessageHeaderFixedLength - tal - pad
  goSlice bufLen mhs ps                                          -- PutUDPClientMessageHeader(b[messageHeaderStart:payloadStart], …)
  intToUint16 pad
  let packetStart := mhs - nonAEAD
  goSlice bufLen packetStart (packetStart + Gen.C06.UDPSeparateHeaderLength)   -- separate header, nonce
  goSlice bufLen (packetStart + Gen.C06.UDPSeparateHeaderLength) mhs           -- identity headers
  goSlice bufLen mhs ((ps : Int) + pl)                                        -- plaintext
  pure (packetStart, (ps : Int) - packetStart + pl + Gen.C06.tagSize)

/-- `(*ShadowPacketServerPacker).PackInPlace`; `src4` = the payload source is written as an IPv4 SOCKS address -/
def ss2022ServerPack (guarded : Bool) (maxPacketLen : Int) (src4 : Bool) (shouldPad : Bool) (draw : Nat)
    (bufLen ps pl : Nat) : R (Int × Int) := do
  let sal : Int := if src4 then 1 + 4 + 2 else 1 + 16 + 2
  let hnp : Int := (Gen.C06.UDPSeparateHeaderLength : Int) + Gen.C06.UDPServerMessageHeaderFixedLength + sal
  let maxPad : Int := min (min (maxPacketLen - hnp - pl - Gen.C06.tagSize) ((ps : Int) - hnp)) 65535
  if maxPad < 0 then .err .tooBig else do
  let pad : Int ← (if (!guarded || decide (maxPad > 0)) && shouldPad then do
      let d ← intN draw maxPad
      pure (1 + d)
    else pure 0)
  let mhs : Int := (ps : Int) - Gen.C06.UDPServerMessageHeaderFixedLength - pad - sal
  goSlice bufLen mhs ps
  intToUint16 pad
  let packetStart := mhs - Gen.C06.UDPSeparateHeaderLength
  goSlice bufLen packetStart mhs
  goSlice bufLen mhs ((ps : Int) + pl)
  pure (packetStart, (ps : Int) - packetStart + pl + Gen.C06.tagSize)

/-- none / SOCKS5 client and server packers: `packetStart = payloadStart - addrLen - hdr`, the header is written
through `b[packetStart:]` BEFORE the too-big error is returned (`hdr` = 0 for none, 3 for SOCKS5) -/
def prefixPack (hdr : Nat) (addrLen : Nat) (maxPacketSize : Int) (bufLen ps pl : Nat) : R (Int × Int) := do
  let packetStart : Int := (ps : Int) - addrLen - hdr
  goSlice bufLen packetStart bufLen                                -- b[packetStart:]
  goSlice bufLen (packetStart + hdr) bufLen                        -- b[packetStart+3:]
  goSlice bufLen (packetStart + hdr) (packetStart + hdr + addrLen) -- the address bytes written there
  if (pl : Int) + addrLen + hdr > maxPacketSize then .err .tooBig
  else pure (packetStart, (pl : Int) + addrLen + hdr)

def prefixClientPack (hdr : Nat) (target : Addr) (maxPacketSize : Int) (bufLen ps pl : Nat) : R (Int × Int) := do
  let tal ← target.socksLen
  prefixPack hdr tal maxPacketSize bufLen ps pl

def prefixServerPack (hdr : Nat) (src4 : Bool) (maxPacketLen : Int) (bufLen ps pl : Nat) : R (Int × Int) :=
  prefixPack hdr (if src4 then 1 + 4 + 2 else 1 + 16 + 2) maxPacketLen bufLen ps pl

/-- `(*DirectPacketClientPacker).PackInPlace`: `IsIP` else `Domain()` + resolver; `resolved4` = family of the resolved address -/
def directClientPack (mtu : Int) (target : Addr) (resolve : Bytes → Option Bool) (ps pl : Nat) : R (Int × Int) := do
  let v4 ← (if target.isIP then do
      let ip ← target.ip
      pure (ip.1 || is4in6 ip.2)
    else do
      let d ← target.domain
      match resolve d with
      | Option.none => .err .lookup
      | some v4 => pure v4 : R Bool)
  if (pl : Int) > maxPacketSizeForAddr mtu v4 then .err .tooBig else pure ((ps : Int), (pl : Int))

/-- the two header writes of `DialStream` once the split is chosen: `PutTCPRequestFixedLengthHeader(…, variableLengthHeaderLen)`
and the padding length inside `PutTCPRequestVariableLengthHeader`, both through `intToUint16` -/
def dialStreamFinish (tal : Nat) (payloadLen : Nat) (ppl sent : Int) : R (Int × Int × Int) := do
  let vlen : Int := tal + 2 + ppl
  intToUint16 vlen
  intToUint16 (vlen - tal - 2 - sent)
  pure (ppl, sent, (payloadLen : Int) - sent)

/-- `(*ss2022.StreamClient).DialStream`: the four-way padding/payload split for a relayed initial payload of
`payloadLen` bytes; returns (paddingPayloadLen, payload bytes sent in the header, excess bytes) -/
def dialStreamSplit (target : Addr) (payloadLen : Nat) (draw : Nat) : R (Int × Int × Int) := do
  let tal ← target.socksLen
  let room : Int := (Gen.C06.streamMaxPayloadSize : Int) - tal - 2
  if (payloadLen : Int) > room then do
    goSlice payloadLen room payloadLen           -- payload[roomForPayload:]
    goSlice payloadLen 0 room                    -- payload[:roomForPayload]
    dialStreamFinish tal payloadLen room room
  else if (payloadLen : Int) ≥ (Gen.C06.MaxPaddingLength : Int) then dialStreamFinish tal payloadLen payloadLen payloadLen
  else if (payloadLen : Int) > 0 then do
    let d ← intN draw ((Gen.C06.MaxPaddingLength : Int) - payloadLen + 1)
    dialStreamFinish tal payloadLen ((payloadLen : Int) + d) payloadLen
  else do
    let d ← intN draw Gen.C06.MaxPaddingLength
    dialStreamFinish tal payloadLen (1 + d) 0

/-! ### what a peer RETURNS TO A CLIENT of this program, and what is computed from it: the SOCKS5 UDP ASSOCIATE reply

`conn.Addr`'s accessors panic by contract on the wrong address kind (`Addr.ip` / `Addr.domain` of `SSV.Model.Parsers`);
`ResolveIP` / `ResolveIPPort` / `Host` panic only on the zero value. -/

/-- `conn.Addr.ResolveIPPort(ctx, network)`; `resolve` = the resolver's answer for a name (`none` = lookup error) -/
def Addr.resolveIPPort (resolve : Bytes → Option (Bool × Bytes)) : Addr → R (Bool × Bytes × Nat)
  | .ip4 a p => .ok (true, a, p)
  | .ip6 a p => .ok (false, a, p)
  | .dom d p => match resolve d with
    | Option.none => .err .lookup
    | some (v4, a) => .ok (v4, a, p)
  | .none => .panic

/-- `(*Socks5UDPClient).NewSession` / `(*Socks5AuthUDPClient).NewSession`: `ClientUDPAssociate(tc, conn.Addr{})` on the server's
byte stream, then `newSession`: the BND.ADDR of the reply (IPv4 / IPv6 / DOMAIN / unspecified / port 0, as the server likes)
goes to `ResolveIPPort`; the result is the address the session's packer sends to. -/
def s5UDPNewSession (auth : Bool) (authMsg : Bytes) (resolve : Bytes → Option (Bool × Bytes)) (stream : Bytes) :
    R (Bool × Bytes × Nat) := do
  let bnd ← s5Client auth authMsg (UInt8.ofNat Gen.C06.CmdUDPAssociate) [UInt8.ofNat Gen.C06.AtypIPv4, 0, 0, 0, 0, 0, 0] stream
  bnd.resolveIPPort resolve

end SSV.Parsers
