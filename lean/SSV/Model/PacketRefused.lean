import SSV.Model.Packet
/-
What a REFUSED pack leaves in the buffer.  `Outcome.err` carries no buffer; these functions give it.
* none / SOCKS5 packers: the code sets `err = ErrPayloadTooBig` and then STILL writes the header
  (`socks5.WritePacketHeader` / `WriteAddrFrom…(b[packetStart:], …)` follow the size check), so a refused pack
  has written `[packetStart, payloadStart)`.
* ss2022 packers return at the padding guard before any write; the direct packers never write.
-/
namespace SSV.Packet
open SSV SSV.Gen.C05

/-- buffer after `plainClientPack … = .err _` -/
def plainClientPackRefusedBuf (hdr3 : Bool) (b : Bytes) (a : Addr) (payloadStart : Nat) : Bytes :=
  let head : Bytes := (if hdr3 then [0, 0, 0] else []) ++ encodeAddr a
  splice b (payloadStart - head.length) head

/-- buffer after `plainServerPack … = .err _` -/
def plainServerPackRefusedBuf (hdr3 : Bool) (b : Bytes) (src : AddrPort) (payloadStart : Nat) : Bytes :=
  let head : Bytes := (if hdr3 then [0, 0, 0] else []) ++ encodeAddrPort src
  splice b (payloadStart - head.length) head

end SSV.Packet
