import SSV.Gen.C10
import SSV.Base.Split
/-
Model of domainset/*.go and bytestrings/bytestrings.go (with proposed_fixes/F18.diff applied: every
trailing '\r' of a line is removed, also on the unterminated last line).

Strings are byte lists. A Go `map[string]struct{}` is a duplicate-free list (insertion order is the model's
iteration order; the theorems show that no observable depends on it). The suffix trie is an inductive type
over association lists; `Trie.leaf` is the code's `Children == nil`.
Regular expressions are opaque: `re pat d` is `regexp.MustCompile(pat).MatchString(d)`, `reOk pat` says
whether `regexp.Compile(pat)` succeeds.
-/
namespace SSV.DomainSet

abbrev Str := List UInt8

def dot : UInt8 := 46
def LF : UInt8 := 10
def CR : UInt8 := 13
def hash : UInt8 := 35
def space : UInt8 := 32

/-! ### suffix matching -/

/-- `matchDomainSuffix(domain, suffix)` -/
def matchDomainSuffix (d s : Str) : Bool :=
  d == s || (decide (d.length > s.length) && d[d.length - s.length - 1]? == some dot
              && d.drop (d.length - s.length) == s)

/-- `SuffixLinearMatcher.Match` -/
def suffixLinearMatch (rs : List Str) (d : Str) : Bool := rs.any (matchDomainSuffix d)

/-- every `domain[i+1:]` with `domain[i] == '.'` (the code visits them from the right; only `any` is taken) -/
def afterDots : Str → List Str
  | [] => []
  | c :: cs => if c = dot then cs :: afterDots cs else afterDots cs

/-- `SuffixMapMatcher.Match` -/
def suffixMapMatch (m : List Str) (d : Str) : Bool :=
  (afterDots d).any (fun t => m.contains t) || m.contains d

/-- map insert: `m[rule] = struct{}{}` -/
def mapInsert (m : List Str) (r : Str) : List Str := if m.contains r then m else m ++ [r]

mutual
  /-- `DomainSuffixTrie` below the root: `leaf` is `Children == nil` -/
  inductive Trie where
    | leaf : Trie
    | node : Children → Trie
  /-- `map[string]DomainSuffixTrie` as an association list -/
  inductive Children where
    | nil : Children
    | cons : Str → Trie → Children → Children
end

/-- `Children[part]` -/
def Children.lookup : Children → Str → Option Trie
  | .nil, _ => none
  | .cons k t rest, s => if k = s then some t else rest.lookup s

/-- `Children[part] = t` -/
def Children.set : Children → Str → Trie → Children
  | .nil, s, t => .cons s t .nil
  | .cons k u rest, s, t => if k = s then .cons k t rest else .cons k u (rest.set s t)

def Children.isEmpty : Children → Bool
  | .nil => true
  | .cons _ _ _ => false

/-- the labels of a domain from right to left (`for i := len(domain)-1; …; if domain[i] != '.'`) -/
def labelsRev (d : Str) : List Str := (splitOn dot d).reverse

/-- `Insert` on the labels from right to left: a missing part becomes a non-leaf child, a leaf met on the way
stops the insertion, the last part is (over)written as a leaf. -/
def insertLabels (cs : Children) : List Str → Children
  | [] => cs
  | [l] => cs.set l .leaf
  | l :: rest =>
    match cs.lookup l with
    | none => cs.set l (.node (insertLabels .nil rest))
    | some .leaf => cs
    | some (.node cs') => cs.set l (.node (insertLabels cs' rest))

/-- `DomainSuffixTrie.Insert(domain)` on the root's children -/
def trieInsert (root : Children) (d : Str) : Children := insertLabels root (labelsRev d)

/-- `Match` on the labels from right to left -/
def matchLabels (cs : Children) : List Str → Bool
  | [] => false
  | [l] =>
    match cs.lookup l with
    | none => false
    | some .leaf => true
    | some (.node _) => false
  | l :: rest =>
    match cs.lookup l with
    | none => false
    | some .leaf => true
    | some (.node cs') => matchLabels cs' rest

/-- `DomainSuffixTrie.Match(domain)` -/
def trieMatch (root : Children) (d : Str) : Bool := matchLabels root (labelsRev d)

mutual
  /-- the stored suffixes as label paths from the root -/
  def Trie.paths : Trie → List (List Str)
    | .leaf => [[]]
    | .node cs => cs.paths
  def Children.paths : Children → List (List Str)
    | .nil => []
    | .cons k t rest => (t.paths.map (k :: ·)) ++ rest.paths
end

/-- a path `[c, b, a]` is the suffix `a.b.c` (`s + "." + suffix` in `keys`) -/
def pathToStr (p : List Str) : Str := joinWith dot p.reverse

/-- `Keys()` / `KeySlice()` of the root -/
def trieKeys (root : Children) : List Str := root.paths.map pathToStr

/-- `KeyCount()` -/
def trieKeyCount (root : Children) : Nat := root.paths.length

/-- `DomainSuffixTrieFromSlice` / `FromSeq` -/
def trieFromList (rs : List Str) : Children := rs.foldl trieInsert .nil

/-! ### exact-domain and keyword matching -/

/-- bytewise `<` on strings (`cmp.Less`) -/
def strLt : Str → Str → Bool
  | _, [] => false
  | [], _ :: _ => true
  | a :: as, b :: bs => if a.toNat < b.toNat then true else if b.toNat < a.toNat then false else strLt as bs

/-- `slices.BinarySearch(x, target)`: the lower bound -/
def lowerBound (x : List Str) (target : Str) : Nat → Nat → Nat → Nat
  | 0, i, _ => i
  | fuel + 1, i, j =>
    if i < j then
      let h := (i + j) / 2
      match x[h]? with
      | none => i
      | some e => if strLt e target then lowerBound x target fuel (h + 1) j else lowerBound x target fuel i h
    else i

def binarySearch (x : List Str) (target : Str) : Nat × Bool :=
  let i := lowerBound x target (x.length + 1) 0 x.length
  (i, x[i]? == some target)

/-- `DomainBinarySearchMatcher.Insert` -/
def bsearchInsert (x : List Str) (r : Str) : List Str :=
  let (i, found) := binarySearch x r
  if found then x else x.take i ++ r :: x.drop i

/-- `strings.Contains(domain, keyword)` -/
def containsSub : Str → Str → Bool
  | [], kw => kw.isEmpty
  | c :: cs, kw => kw.isPrefixOf (c :: cs) || containsSub cs kw

/-- `KeywordLinearMatcher.Match` -/
def keywordMatch (kws : List Str) (d : Str) : Bool := kws.any (containsSub d)

/-! ### builders, matchers, `AppendTo` -/

inductive DomainB where
  | linear (rs : List Str)
  | bsearch (rs : List Str)
  | map (rs : List Str)

inductive SuffixB where
  | linear (rs : List Str)
  | map (rs : List Str)
  | trie (root : Children)

structure Builder where
  domains : DomainB
  suffixes : SuffixB
  keywords : List Str
  regexps : List Str

inductive Matcher where
  | domainLinear (rs : List Str)
  | domainBSearch (rs : List Str)
  | domainMap (rs : List Str)
  | suffixLinear (rs : List Str)
  | suffixMap (rs : List Str)
  | suffixTrie (root : Children)
  | keyword (rs : List Str)
  | regexp (pat : Str)

def Matcher.run (re : Str → Str → Bool) : Matcher → Str → Bool
  | .domainLinear rs, d => rs.contains d
  | .domainBSearch rs, d => (binarySearch rs d).2
  | .domainMap rs, d => rs.contains d
  | .suffixLinear rs, d => suffixLinearMatch rs d
  | .suffixMap rs, d => suffixMapMatch rs d
  | .suffixTrie root, d => trieMatch root d
  | .keyword rs, d => keywordMatch rs d
  | .regexp pat, d => re pat d

/-- `DomainSet.Match` -/
def matchSet (re : Str → Str → Bool) (ms : List Matcher) (d : Str) : Bool := ms.any (fun m => m.run re d)

def DomainB.insert : DomainB → Str → DomainB
  | .linear rs, r => .linear (rs ++ [r])
  | .bsearch rs, r => .bsearch (bsearchInsert rs r)
  | .map rs, r => .map (mapInsert rs r)

def DomainB.rules : DomainB → List Str
  | .linear rs => rs
  | .bsearch rs => rs
  | .map rs => rs

def SuffixB.insert : SuffixB → Str → SuffixB
  | .linear rs, r => .linear (rs ++ [r])
  | .map rs, r => .map (mapInsert rs r)
  | .trie root, r => .trie (trieInsert root r)

def SuffixB.rules : SuffixB → List Str
  | .linear rs => rs
  | .map rs => rs
  | .trie root => trieKeys root

/-- `DomainMapMatcher.AppendTo` (a map of at most `maxLin` rules becomes a `DomainLinearMatcher`, whose own
`AppendTo` then appends itself because its length does not exceed `maxLin`). -/
def domainMapAppend (maxLin : Nat) (m : List Str) : List Matcher :=
  if m.isEmpty then [] else if m.length ≤ maxLin then [.domainLinear m] else [.domainMap m]

/-- `AppendTo` of the three exact-domain builders -/
def DomainB.appendTo (maxLin : Nat) : DomainB → List Matcher
  | .linear rs =>
    if rs.isEmpty then [] else
    if rs.length > maxLin then domainMapAppend maxLin (rs.foldl mapInsert []) else [.domainLinear rs]
  | .bsearch rs => if rs.isEmpty then [] else [.domainBSearch rs]
  | .map m => domainMapAppend maxLin m

/-- `DomainSuffixTrie.AppendTo` -/
def trieAppend (root : Children) : List Matcher := if root.isEmpty then [] else [.suffixTrie root]

/-- `AppendTo` of the three suffix builders -/
def SuffixB.appendTo (maxLin : Nat) : SuffixB → List Matcher
  | .linear rs =>
    if rs.isEmpty then [] else
    if rs.length > maxLin then trieAppend (trieFromList rs) else [.suffixLinear rs]
  | .map m =>
    if m.isEmpty then [] else
    if m.length ≤ maxLin then [.suffixLinear m] else [.suffixMap m]
  | .trie root => trieAppend root

/-- `Builder.DomainSet()` with explicit thresholds: `none` is a regexp compile error. -/
def Builder.domainSetWith (maxLinDomains maxLinSuffixes : Nat) (reOk : Str → Bool) (b : Builder) : Option (List Matcher) :=
  if b.regexps.all reOk then
    some (b.domains.appendTo maxLinDomains ++ b.suffixes.appendTo maxLinSuffixes
      ++ (if b.keywords.isEmpty then [] else [.keyword b.keywords]) ++ b.regexps.map .regexp)
  else none

/-- `Builder.DomainSet()` with the thresholds of the source -/
def Builder.domainSet (reOk : Str → Bool) (b : Builder) : Option (List Matcher) :=
  b.domainSetWith SSV.Gen.C10.MaxLinearDomains SSV.Gen.C10.MaxLinearSuffixes reOk

/-! ### text form -/

/-- `trimCR` (F18.diff): remove all trailing '\r' -/
def trimCR (s : Str) : Str := (s.reverse.dropWhile (· = CR)).reverse

/-- all results of iterating `bytestrings.NextNonEmptyLine`: LF-separated pieces, trailing CRs removed, empty ones skipped.
`acc` is the current piece reversed. -/
def nonEmptyLinesAux (acc : Str) : Str → List Str
  | [] => let line := trimCR acc.reverse; if line.isEmpty then [] else [line]
  | c :: cs =>
    if c = LF then
      let line := trimCR acc.reverse
      if line.isEmpty then nonEmptyLinesAux [] cs else line :: nonEmptyLinesAux [] cs
    else nonEmptyLinesAux (c :: acc) cs

def nonEmptyLines (text : Str) : List Str := nonEmptyLinesAux [] text

def isDigit (c : UInt8) : Bool := 48 ≤ c.toNat && c.toNat ≤ 57

def digitsVal : Nat → Str → Nat
  | n, [] => n
  | n, c :: cs => digitsVal (n * 10 + (c.toNat - 48)) cs

/-- `strconv.Atoi(s)` followed by the `c < 0` test of `ParseCapacityHint`: the accepted non-negative value -/
def atoiNonneg (s : Str) : Option Nat :=
  let neg : Bool := s.head? == some 45
  let ds : Str := if s.head? == some 43 || s.head? == some 45 then s.drop 1 else s
  if ds.isEmpty || !ds.all isDigit then none
  else
    let v := digitsVal 0 ds
    if neg then (if v = 0 then some 0 else none)
    else if v < 2 ^ 63 then some v else none

/-- the four `Atoi` fields of a capacity hint, then the suffix -/
def parseHintFields : Nat → Str → Option (List Nat)
  | 0, h => if h = SSV.Gen.C10.capacityHintSuffix then some [] else none
  | n + 1, h =>
    match cutAt space h with
    | (_, none) => none
    | (a, some rest) =>
      match atoiNonneg a with
      | none => none
      | some v => (parseHintFields n rest).map (v :: ·)

inductive Hint where
  | absent
  | bad
  | found (dskr : List Nat)
deriving Repr, DecidableEq

/-- `ParseCapacityHint(line)` -/
def parseCapacityHint (line : Str) : Hint :=
  let pre := SSV.Gen.C10.capacityHintPrefix
  if line.length > pre.length ∧ line.take pre.length = pre then
    match parseHintFields 4 (line.drop pre.length) with
    | none => .bad
    | some v => .found v
  else .absent

inductive Line where
  | domain (r : Str) | suffix (r : Str) | keyword (r : Str) | regexp (r : Str) | comment | invalid
deriving Repr, DecidableEq

/-- the classification of one line in the loop of `BuilderFromText` -/
def classify (line : Str) : Line :=
  let n := SSV.Gen.C10.textProbeLen
  let kw := SSV.Gen.C10.keywordPrefix
  if line.length > n ∧ line.take n = SSV.Gen.C10.suffixPrefix then .suffix (line.drop SSV.Gen.C10.suffixPrefix.length)
  else if line.length > n ∧ line.take n = SSV.Gen.C10.domainPrefix then .domain (line.drop SSV.Gen.C10.domainPrefix.length)
  else if line.length > n ∧ line.take n = SSV.Gen.C10.regexpPrefix then .regexp (line.drop SSV.Gen.C10.regexpPrefix.length)
  else if line.length > n ∧ line.take n = kw.take n then
    if line.length ≤ kw.length ∨ line[n]? ≠ kw[n]? then .invalid
    else .keyword (line.drop kw.length)
  else if line.head? ≠ some hash then .invalid
  else .comment

def Builder.emptyText : Builder := ⟨.map [], .trie .nil, [], []⟩

inductive TextErr where
  | emptySet | badHint | invalidLine
deriving Repr, DecidableEq

def addLines (b : Builder) : List Str → Except TextErr Builder
  | [] => .ok b
  | l :: rest =>
    match classify l with
    | .suffix r => addLines { b with suffixes := b.suffixes.insert r } rest
    | .domain r => addLines { b with domains := b.domains.insert r } rest
    | .regexp r => addLines { b with regexps := b.regexps ++ [r] } rest
    | .keyword r => addLines { b with keywords := b.keywords ++ [r] } rest
    | .comment => addLines b rest
    | .invalid => .error .invalidLine

/-- `BuilderFromText(text)` -/
def builderFromText (text : Str) : Except TextErr Builder :=
  match nonEmptyLines text with
  | [] => .error .emptySet
  | first :: rest =>
    match parseCapacityHint first with
    | .bad => .error .badHint
    | .found _ =>
      match rest with
      | [] => .error .emptySet
      | _ => addLines Builder.emptyText rest
    | .absent => addLines Builder.emptyText (first :: rest)

/-- Go's `make([]string, 0, n)` precondition (runtime.makeslice, linux/amd64: `n * 16 > maxAlloc = 2^48` panics with
"makeslice: cap out of range"). `make(map[string]struct{}, n)` has no such precondition (an oversized hint is dropped).
Allocations below the bound can still exhaust memory (`fatal error: out of memory`): that is outside the model. -/
def maxSliceCap : Nat := 2 ^ 44

/-- the clamp of commit e3a55d9 ("clamp capacity hints by the size of the text"): every hint is cut down to
`(len(line)+len(text))/hintClampDiv + hintClampAdd` (regenerated: 8, 1), the bytes from the first rule line on; the model uses the whole text length, an upper
bound of that (the difference is only observable on texts of 2^47 bytes and more). -/
def clampHint (text : Str) (h : Nat) : Nat :=
  min h (text.length / SSV.Gen.C10.hintClampDiv + SSV.Gen.C10.hintClampAdd)

inductive Load where
  | ok (b : Builder)
  | error (e : TextErr)
  | panic

def Load.ofExcept : Except TextErr Builder → Load
  | .ok b => .ok b
  | .error e => .error e

/-- `BuilderFromText(text)` including what it does with the capacity hint: after the empty-set checks the four numbers
reach `NewDomainMapMatcher` (`make(map, d)`), the trie constructor (ignored), `NewKeywordLinearMatcher`
(`make([]string, 0, k)`) and `NewRegexpMatcherBuilder` (`make([]string, 0, r)`), each after `clampHint`. -/
def builderFromTextX (text : Str) : Load :=
  match nonEmptyLines text with
  | [] => .error .emptySet
  | first :: rest =>
    match parseCapacityHint first with
    | .bad => .error .badHint
    | .found dskr =>
      match rest with
      | [] => .error .emptySet
      | _ =>
        if clampHint text (dskr.getD 2 0) > maxSliceCap ∨ clampHint text (dskr.getD 3 0) > maxSliceCap then .panic
        else Load.ofExcept (addLines Builder.emptyText rest)
    | .absent => Load.ofExcept (addLines Builder.emptyText (first :: rest))

/-- decimal digits, most significant first (`fuel` bounds the number of digits) -/
def natToDecAux : Nat → Nat → Str → Str
  | 0, _, acc => acc
  | f + 1, n, acc =>
    let acc' := UInt8.ofNat (48 + n % 10) :: acc
    if n / 10 = 0 then acc' else natToDecAux f (n / 10) acc'

/-- decimal `%d` -/
def natToDec (n : Nat) : Str := natToDecAux (n + 1) n []

def ruleLines (pre : Str) (rs : List Str) : Str := rs.flatMap (fun r => pre ++ r ++ [LF])

/-- `Builder.WriteText` -/
def Builder.writeText (b : Builder) : Str :=
  let d := b.domains.rules
  let s := b.suffixes.rules
  SSV.Gen.C10.capacityHintPrefix ++ natToDec d.length ++ [space] ++ natToDec s.length ++ [space]
    ++ natToDec b.keywords.length ++ [space] ++ natToDec b.regexps.length ++ [space] ++ SSV.Gen.C10.capacityHintSuffix ++ [LF]
    ++ ruleLines SSV.Gen.C10.domainPrefix d ++ ruleLines SSV.Gen.C10.suffixPrefix s
    ++ ruleLines SSV.Gen.C10.keywordPrefix b.keywords ++ ruleLines SSV.Gen.C10.regexpPrefix b.regexps

/-! ### v2fly/dlc input of the converter (`DomainSetBuilderFromDlc`) -/

inductive DlcLine where
  | skip | invalid | panic
  | domain (r : Str) | suffix (r : Str) | keyword (r : Str) | regexp (r : Str)
deriving Repr, DecidableEq

/-- Go `line[lo:hi]` for `hi ≤ len(line)`: `none` is the slice-bounds panic (`lo > hi`) -/
def goSlice (line : Str) (lo hi : Nat) : Option Str :=
  if lo > hi then none else some ((line.take hi).drop lo)

/-- the prefix switch of `DomainSetBuilderFromDlc` on a line with its `end` index:
`full:` (exact domain) / `domain:` (suffix) / `keyword:` / `regexp:`, rule = `line[len(prefix):end]` -/
def dlcPick (line : Str) (e : Nat) : DlcLine :=
  let pick (pre : Str) (mk : Str → DlcLine) : DlcLine :=
    match goSlice line pre.length e with
    | none => .panic
    | some r => mk r
  if SSV.Gen.C10.dlcFullPrefix.isPrefixOf line then pick SSV.Gen.C10.dlcFullPrefix .domain
  else if SSV.Gen.C10.dlcDomainPrefix.isPrefixOf line then pick SSV.Gen.C10.dlcDomainPrefix .suffix
  else if SSV.Gen.C10.dlcKeywordPrefix.isPrefixOf line then pick SSV.Gen.C10.dlcKeywordPrefix .keyword
  else if SSV.Gen.C10.dlcRegexpPrefix.isPrefixOf line then pick SSV.Gen.C10.dlcRegexpPrefix .regexp
  else .invalid

/-- one line of the loop of `DomainSetBuilderFromDlc` with the `-tag` flag value `tag`:
'#' lines are skipped; `end` is the index of the first '@' minus one (the separator before the attribute), or the
line length; with a tag only lines whose text after the first '@' equals the tag are taken; then the prefix switch. -/
def dlcLine (tag line : Str) : DlcLine :=
  if line.head? = some hash then .skip else
  let c := cutAt 64 line
  let atIdx : Nat := c.1.length
  if c.2.isSome ∧ atIdx = 0 then .invalid else
  let endIdx : Option Nat :=
    if tag.isEmpty then
      (match c.2 with | none => some line.length | some _ => some (atIdx - 1))
    else
      (match c.2 with
       | none => none
       | some after => if after ≠ tag then none else some (atIdx - 1))
  match endIdx with
  | none => .skip
  | some e => dlcPick line e

def addDlcLines (tag : Str) (b : Builder) : List Str → Load
  | [] => .ok b
  | l :: rest =>
    match dlcLine tag l with
    | .skip => addDlcLines tag b rest
    | .invalid => .error .invalidLine
    | .panic => .panic
    | .domain r => addDlcLines tag { b with domains := b.domains.insert r } rest
    | .suffix r => addDlcLines tag { b with suffixes := b.suffixes.insert r } rest
    | .keyword r => addDlcLines tag { b with keywords := b.keywords ++ [r] } rest
    | .regexp r => addDlcLines tag { b with regexps := b.regexps ++ [r] } rest

/-- `DomainSetBuilderFromDlc(text)` (lines by `bytestrings.NonEmptyLines`) -/
def builderFromDlc (tag text : Str) : Load := addDlcLines tag Builder.emptyText (nonEmptyLines text)

/-! ### gob form (gob itself = identity on the `BuilderGob` value, trusted) -/

/-- `BuilderGob`: always (DomainMapMatcher, DomainSuffixTrie, KeywordLinearMatcher, RegexpMatcherBuilder) -/
structure BuilderGob where
  domains : List Str
  suffixes : Children
  keywords : List Str
  regexps : List Str

/-- `BuilderGobFromBuilder` -/
def BuilderGob.ofBuilder (b : Builder) : BuilderGob :=
  { domains := match b.domains with
      | .map m => m
      | other => other.rules.foldl mapInsert []
    suffixes := match b.suffixes with
      | .trie root => root
      | other => trieFromList other.rules
    keywords := b.keywords
    regexps := b.regexps }

/-- `BuilderGob.Builder()` -/
def BuilderGob.builder (g : BuilderGob) : Builder := ⟨.map g.domains, .trie g.suffixes, g.keywords, g.regexps⟩

end SSV.DomainSet
