import SSV.Base.GoOutcome
import SSV.Gen.C06
/-
C06 — model of every function that touches peer-controlled bytes before / without authentication
(and of what is computed from the result afterwards), in the `Outcome` monad: Go index / slice /
array-conversion / `binary.BigEndian` operations are the panicking operations of `SSV.Go`, and the
only thing that keeps them from panicking are THE CODE'S OWN GUARDS, written here with the constants
regenerated from the source (`SSV.Gen.C06.*_lenGuard<i>`). Mirrors the code that exists (pinned tree
plus whatever `/repo` says now through Gen), not what it should do.

Sources: socks5/addr.go, socks5/stream.go, socks5/packet.go, conn/addr.go, ss2022/header.go,
ss2022/udp.go, ss2022/packet.go, ss2022/stream.go, ss2022/tcp.go, direct/packet.go,
httpproxy/server.go, router/route.go, router/router.go, portset/portset.go, portset/range.go.
-/
namespace SSV.Parsers
open SSV SSV.Go SSV.Outcome

/-- error classes (what the correspondence compares; the Go errors are mapped to the same names) -/
inductive Err where
  | eof | unexpectedEOF
  | short | atyp | domainLen | isDomain
  | typeMismatch | badTimestamp | incompleteHeader | paddingExceed | packetIncomplete
  | csidMismatch | saltMismatch | zeroPayloadLen | zeroLengthChunk
  | version | zeroNMethods | noAcceptableMethod | authVersion | zeroULEN | zeroPLEN | badAuth
  | unsupportedCmd | unsupportedMethod | replyErr | localAddr | handled
  | frag | tooSmall | aead | replay | firstRead | prefixMismatch | repeatedSalt | userNotFound
  | nonServerSource | nonTargetSource | tooManySessions | tooBig
  | emptyHost | splitHostPort | badPort | lookup | rejected
deriving Repr, DecidableEq

def Err.name : Err → String
  | .eof => "eof" | .unexpectedEOF => "unexpectedEOF"
  | .short => "short" | .atyp => "atyp" | .domainLen => "domainLen" | .isDomain => "isDomain"
  | .typeMismatch => "typeMismatch" | .badTimestamp => "badTimestamp" | .incompleteHeader => "incompleteHeader"
  | .paddingExceed => "paddingExceed" | .packetIncomplete => "packetIncomplete"
  | .csidMismatch => "csidMismatch" | .saltMismatch => "saltMismatch" | .zeroPayloadLen => "zeroPayloadLen"
  | .zeroLengthChunk => "zeroLengthChunk"
  | .version => "version" | .zeroNMethods => "zeroNMethods" | .noAcceptableMethod => "noAcceptableMethod"
  | .authVersion => "authVersion" | .zeroULEN => "zeroULEN" | .zeroPLEN => "zeroPLEN" | .badAuth => "badAuth"
  | .unsupportedCmd => "unsupportedCmd" | .unsupportedMethod => "unsupportedMethod" | .replyErr => "replyErr"
  | .localAddr => "localAddr" | .handled => "handled"
  | .frag => "frag" | .tooSmall => "tooSmall" | .aead => "aead" | .replay => "replay" | .firstRead => "firstRead"
  | .prefixMismatch => "prefixMismatch" | .repeatedSalt => "repeatedSalt" | .userNotFound => "userNotFound"
  | .nonServerSource => "nonServerSource" | .nonTargetSource => "nonTargetSource"
  | .tooManySessions => "tooManySessions" | .tooBig => "tooBig"
  | .emptyHost => "emptyHost" | .splitHostPort => "splitHostPort" | .badPort => "badPort" | .lookup => "lookup"
  | .rejected => "rejected"

abbrev R := Outcome Err

/-- `conn.Addr`: zero value, IP (v4 / v6 kept apart as `netip.AddrFrom4` / `AddrFrom16` produce them), or domain -/
inductive Addr where
  | none
  | ip4 (a : Bytes) (port : Nat)
  | ip6 (a : Bytes) (port : Nat)
  | dom (d : Bytes) (port : Nat)
deriving Repr, DecidableEq

namespace Addr
def isValid : Addr → Bool | none => false | _ => true
def isIP : Addr → Bool | ip4 .. => true | ip6 .. => true | _ => false
def isDomain : Addr → Bool | dom .. => true | _ => false
def port : Addr → Nat | none => 0 | ip4 _ p => p | ip6 _ p => p | dom _ p => p
/-- `Addr.Domain()`: panics unless the address is a domain -/
def domain : Addr → R Bytes | dom d _ => .ok d | _ => .panic
/-- `Addr.IP()` / `Addr.IPPort()`: panic unless the address is an IP; returns (is4, bytes) -/
def ip : Addr → R (Bool × Bytes) | ip4 a _ => .ok (true, a) | ip6 a _ => .ok (false, a) | _ => .panic
def render : Addr → String
  | none => "none"
  | ip4 a p => s!"4:{toHexField a}:{p}"
  | ip6 a p => s!"6:{toHexField a}:{p}"
  | dom d p => s!"d:{toHexField d}:{p}"
end Addr

/-- `conn.AddrFromDomainPort` -/
def addrFromDomainPort (d : Bytes) (port : Nat) : R Addr :=
  if d.length = 0 ∨ d.length > 255 then .err .domainLen else .ok (.dom d port)

/-! ### socks5/addr.go — `*FromSlice` -/

/-- `socks5.AddrPortFromSlice` -/
def addrPortFromSlice (b : Bytes) : R (Addr × Nat) :=
  if b.length < Gen.C06.AddrPortFromSlice_lenGuard0 then .err .short else do
  let t ← idx b 0
  if t.toNat = Gen.C06.AtypIPv4 then do
    let ip ← sliceFrom b 1 >>= arr 4
    let port ← sliceFrom b (1 + 4) >>= be16
    pure (.ip4 ip port, 1 + 4 + 2)
  else if t.toNat = Gen.C06.AtypIPv6 then
    if b.length < Gen.C06.AddrPortFromSlice_lenGuard1 then .err .short else do
    let ip ← sliceFrom b 1 >>= arr 16
    let port ← sliceFrom b (1 + 16) >>= be16
    pure (.ip6 ip port, 1 + 16 + 2)
  else if t.toNat = Gen.C06.AtypDomainName then .err .isDomain
  else .err .atyp

/-- `socks5.ConnAddrFromSlice` -/
def connAddrFromSlice (b : Bytes) : R (Addr × Nat) :=
  if b.length < Gen.C06.ConnAddrFromSlice_lenGuard0 then .err .short else do
  let t ← idx b 0
  if t.toNat = Gen.C06.AtypDomainName then do
    let l ← idx b 1
    let domainEnd := 1 + 1 + l.toNat
    let portEnd := domainEnd + 2
    if b.length < portEnd then .err .short else do
    let d ← slice b 2 domainEnd
    let port ← sliceFrom b domainEnd >>= be16
    let a ← addrFromDomainPort d port
    pure (a, portEnd)
  else if t.toNat = Gen.C06.AtypIPv4 then
    if b.length < Gen.C06.ConnAddrFromSlice_lenGuard1 then .err .short else do
    let ip ← sliceFrom b 1 >>= arr 4
    let port ← sliceFrom b (1 + 4) >>= be16
    pure (.ip4 ip port, 1 + 4 + 2)
  else if t.toNat = Gen.C06.AtypIPv6 then
    if b.length < Gen.C06.ConnAddrFromSlice_lenGuard2 then .err .short else do
    let ip ← sliceFrom b 1 >>= arr 16
    let port ← sliceFrom b (1 + 16) >>= be16
    pure (.ip6 ip port, 1 + 16 + 2)
  else .err .atyp

/-- `(*socks5.DomainCache).ConnAddrFromSlice` (the string-interning cache does not influence the result) -/
def connAddrFromSliceDC (b : Bytes) : R (Addr × Nat) :=
  if b.length < Gen.C06.DomainCacheConnAddrFromSlice_lenGuard0 then .err .short else do
  let t ← idx b 0
  if t.toNat = Gen.C06.AtypDomainName then do
    let l ← idx b 1
    let domainEnd := 1 + 1 + l.toNat
    let portEnd := domainEnd + 2
    if b.length < portEnd then .err .short else do
    let d ← slice b 2 domainEnd
    let port ← sliceFrom b domainEnd >>= be16
    let a ← addrFromDomainPort d port
    pure (a, portEnd)
  else if t.toNat = Gen.C06.AtypIPv4 then
    if b.length < Gen.C06.DomainCacheConnAddrFromSlice_lenGuard1 then .err .short else do
    let ip ← slice b 1 (1 + 4) >>= arr 4
    let port ← sliceFrom b (1 + 4) >>= be16
    pure (.ip4 ip port, 1 + 4 + 2)
  else if t.toNat = Gen.C06.AtypIPv6 then
    if b.length < Gen.C06.DomainCacheConnAddrFromSlice_lenGuard2 then .err .short else do
    let ip ← slice b 1 (1 + 16) >>= arr 16
    let port ← sliceFrom b (1 + 16) >>= be16
    pure (.ip6 ip port, 1 + 16 + 2)
  else .err .atyp

/-! ### readers over a byte stream (`io.ReadFull` depends only on the concatenation of the chunks) -/

/-- `io.ReadFull(r, buf)` with `len(buf) = n` on a stream that ends after `s` -/
def readFull (s : Bytes) (n : Nat) : R (Bytes × Bytes) :=
  if n ≤ s.length then .ok (s.take n, s.drop n)
  else if s.length = 0 then .err .eof else .err .unexpectedEOF

/-- `socks5.AppendFromReader(b, r)`: returns what was appended and the rest of the stream.
`slices.Grow` allocates, so no slicing here can panic; `readBuf[0]`, `readBuf[1]` index a 2-byte slice. -/
def appendFromReader (s : Bytes) : R (Bytes × Bytes) := do
  let (rb, s) ← readFull s 2
  let t ← idx rb 0
  let l ← idx rb 1
  let size ←
    (if t.toNat = Gen.C06.AtypDomainName then pure (l.toNat + 2)
     else if t.toNat = Gen.C06.AtypIPv4 then pure (1 + 4 + 2 - 2)
     else if t.toNat = Gen.C06.AtypIPv6 then pure (1 + 16 + 2 - 2)
     else .err .atyp : R Nat)
  let (rest, s) ← readFull s size
  pure (rb ++ rest, s)

/-- `socks5.ConnAddrFromReader` (Shadowsocks-none server handshake) -/
def connAddrFromReader (s : Bytes) : R (Addr × Bytes) := do
  let (b, s) ← readFull s 2
  let t ← idx b 0
  let b1_ ← idx b 1
  if t.toNat = Gen.C06.AtypDomainName then do
    let (b1, s) ← readFull s (b1_.toNat + 2)
    let d := b1.take b1_.toNat                      -- unsafe.String(&b1[0], b[1]); b[1] ≤ len(b1)
    let port ← sliceFrom b1 b1_.toNat >>= be16
    let a ← addrFromDomainPort d port
    pure (a, s)
  else if t.toNat = Gen.C06.AtypIPv4 then do
    let (r, s) ← readFull s (4 + 2 - 1)               -- b1 := make([]byte, 4+2); b1[0] = b[1]; ReadFull(r, b1[1:])
    let b1 := b1_ :: r
    let ip ← arr 4 b1
    let port ← sliceFrom b1 4 >>= be16
    pure (.ip4 ip port, s)
  else if t.toNat = Gen.C06.AtypIPv6 then do
    let (r, s) ← readFull s (16 + 2 - 1)
    let b1 := b1_ :: r
    let ip ← arr 16 b1
    let port ← sliceFrom b1 16 >>= be16
    pure (.ip6 ip port, s)
  else .err .atyp

/-! ### ss2022/header.go -/

def toInt64 (u : Nat) : Int := if u < 2 ^ 63 then (u : Int) else (u : Int) - 2 ^ 64
/-- two's-complement wrap of an `int64` result -/
def wrap64 (i : Int) : Int := toInt64 (i % 2 ^ 64).toNat

/-- `ValidateUnixEpochTimestamp(b, now)`; `now` = `now.Unix()` -/
def validateTimestamp (now : Int) (b : Bytes) : R Unit := do
  let ts ← be64 b
  let diff := wrap64 (toInt64 ts - now)
  if diff < -(Gen.C06.MaxEpochDiff : Int) ∨ diff > (Gen.C06.MaxEpochDiff : Int) then .err .badTimestamp else pure ()

/-- `ParseTCPRequestFixedLengthHeader` ("The buffer must be exactly 11 bytes long. No buffer length checks are performed.") -/
def parseTCPRequestFixedLengthHeader (now : Int) (b : Bytes) : R Nat := do
  let t ← idx b 0
  if t.toNat ≠ Gen.C06.HeaderTypeClientStream then .err .typeMismatch else do
  sliceFrom b 1 >>= validateTimestamp now
  sliceFrom b (1 + 8) >>= be16

/-- `ParseTCPRequestVariableLengthHeader` -/
def parseTCPRequestVariableLengthHeader (b : Bytes) : R (Addr × Bytes) := do
  let (a, n) ← connAddrFromSlice b
  let b ← sliceFrom b n
  if b.length ≤ 2 then .err .incompleteHeader else do
  let paddingLen ← be16 b
  if 2 + paddingLen > b.length then .err .paddingExceed else do
  let payload ← sliceFrom b (2 + paddingLen)
  pure (a, payload)

/-- `ParseTCPResponseHeader(b, now, requestSalt)` ("The buffer must be exactly 1 + 8 + salt length + 2 bytes long.") -/
def parseTCPResponseHeader (now : Int) (reqSalt : Bytes) (b : Bytes) : R Nat := do
  let t ← idx b 0
  if t.toNat ≠ Gen.C06.HeaderTypeServerStream then .err .typeMismatch else do
  slice b 1 (1 + 8) >>= validateTimestamp now
  let rSalt ← slice b (1 + 8) (1 + 8 + reqSalt.length)
  if rSalt ≠ reqSalt then .err .saltMismatch else do
  let n ← sliceFrom b (1 + 8 + reqSalt.length) >>= be16
  if n = 0 then .err .zeroPayloadLen else pure n

/-- `ParseUDPClientMessageHeader`: (target, payloadStart, payloadLen) -/
def parseUDPClientMessageHeader (now : Int) (b : Bytes) : R (Addr × Nat × Int) :=
  if b.length < Gen.C06.ParseUDPClientMessageHeader_lenGuard0 then .err .packetIncomplete else do
  let t ← idx b 0
  if t.toNat ≠ Gen.C06.HeaderTypeClientPacket then .err .typeMismatch else do
  slice b 1 (1 + 8) >>= validateTimestamp now
  let paddingLen ← sliceFrom b (1 + 8) >>= be16
  let payloadStart := Gen.C06.UDPClientMessageHeaderFixedLength + paddingLen
  if payloadStart > b.length then .err .packetIncomplete else do
  let (a, n) ← sliceFrom b payloadStart >>= connAddrFromSliceDC
  pure (a, payloadStart + n, (b.length : Int) - ((payloadStart + n : Nat) : Int))

/-- `ParseUDPServerMessageHeader` -/
def parseUDPServerMessageHeader (now : Int) (csid : Nat) (b : Bytes) : R (Addr × Nat × Int) :=
  if b.length < Gen.C06.ParseUDPServerMessageHeader_lenGuard0 then .err .packetIncomplete else do
  let t ← idx b 0
  if t.toNat ≠ Gen.C06.HeaderTypeServerPacket then .err .typeMismatch else do
  slice b 1 (1 + 8) >>= validateTimestamp now
  let pcsid ← sliceFrom b (1 + 8) >>= be64
  if pcsid ≠ csid then .err .csidMismatch else do
  let paddingLen ← sliceFrom b (1 + 8 + 8) >>= be16
  let payloadStart := Gen.C06.UDPServerMessageHeaderFixedLength + paddingLen
  if payloadStart > b.length then .err .packetIncomplete else do
  let (a, n) ← sliceFrom b payloadStart >>= addrPortFromSlice
  pure (a, payloadStart + n, (b.length : Int) - ((payloadStart + n : Nat) : Int))

/-! ### ss2022 UDP: length checks around the (abstract) ciphers

`dec16` = AES block decryption of one 16-byte block (length preserving), `aeadOpen` = AEAD open
(`none` = authentication failure; GCM's `Open` itself never panics for any ciphertext length and
returns a plaintext 16 bytes shorter). Both are parameters. -/

structure Ciphers where
  dec16 : Bytes → Bytes
  aeadOpen : Bytes → Bytes → Option Bytes   -- nonce, ciphertext

/-- the only law the no-panic theorems need: a block cipher maps 16 bytes to 16 bytes -/
def Ciphers.LenPreserving (C : Ciphers) : Prop := ∀ b, (C.dec16 b).length = b.length

/-- `(*UDPServer).SessionInfo(b)`: decrypts the first block in place (needs `len(b) ≥ 16`: `cipher.Block.Decrypt`
panics on a short block, "crypto/aes: input not full block"), returns the session id. -/
def udpSessionInfo (C : Ciphers) (b : Bytes) : R (Nat × Bytes) :=
  if b.length < Gen.C06.UDPServerSessionInfo_lenGuard0 then .err .tooSmall else do
  let blk ← arr 16 b                         -- Block.Decrypt(b, b): input must hold a full block
  let b' := C.dec16 blk ++ b.drop 16
  let csid ← be64 b'
  pure (csid, b')

/-- `(*UDPServer).NewUnpacker(b, csid)` length check and slicing; `idLen` = 0 or 16 (identity header) -/
def udpNewUnpacker (idLen : Nat) (userFound : Bool) (b : Bytes) : R Unit :=
  let nonAEADHeaderLen := Gen.C06.UDPSeparateHeaderLength + idLen
  if b.length < nonAEADHeaderLen then .err .tooSmall else do
  if idLen ≠ 0 then do
    let _sep ← sliceTo b Gen.C06.UDPSeparateHeaderLength
    let ih ← slice b Gen.C06.UDPSeparateHeaderLength nonAEADHeaderLen
    let _ ← arr 16 ih                          -- Block.Decrypt(identityHeader, ..) and *(*[16]byte)(identityHeader)
    if !userFound then .err .userNotFound else do
    let _ ← sliceTo b 8
    pure ()
  else do
    let _ ← sliceTo b 8
    pure ()

/-- `(*ShadowPacketServerUnpacker).UnpackInPlace(b, src, packetStart, packetLen)`; `replayed` = the sliding-window verdict -/
def udpServerUnpack (C : Ciphers) (now : Int) (nonAEADHeaderLen : Nat) (replayed : Bool)
    (b : Bytes) (ps pl : Nat) : R (Addr × Nat × Int) :=
  if pl < nonAEADHeaderLen + Gen.C06.tagSize then .err .tooSmall else do
  let messageHeaderStart := ps + nonAEADHeaderLen
  let sep ← slice b ps (ps + Gen.C06.UDPSeparateHeaderLength)
  let nonce ← slice sep 4 16
  let ct ← slice b messageHeaderStart (ps + pl)
  let _cpid ← sliceFrom sep 8 >>= be64
  if replayed then .err .replay else
  match C.aeadOpen nonce ct with
  | Option.none => .err .aead
  | some pt => do
    let (a, pstart, plen) ← parseUDPClientMessageHeader now pt
    pure (a, pstart + messageHeaderStart, plen)

/-- the client unpacker's two server-session slots: id and whether an AEAD is installed (both start as {0, none}) -/
structure CliSess where
  curID : Nat
  curHasAEAD : Bool
  oldID : Nat
  oldHasAEAD : Bool
deriving Repr, DecidableEq

/-- `(*ShadowPacketClientUnpacker).UnpackInPlace`. The session-status switch picks a slot's AEAD when the separate header's
server session id equals the slot's id; `guarded` (regenerated: `clientUnpackerGuardsNilAEAD`) = the case also requires the
slot's AEAD to be non-nil. Calling `Open` on a nil `cipher.AEAD` is a nil-interface method call: a run-time panic.
`tooSoon` = `time.Since(oldServerSessionLastSeenTime) < time.Minute`; `replayed` = the slot's sliding-window verdict. -/
def udpClientUnpack (guarded : Bool) (C : Ciphers) (now : Int) (csid : Nat) (sess : CliSess) (tooSoon : Bool) (replayed : Bool)
    (b : Bytes) (ps pl : Nat) : R (Addr × Nat × Int) :=
  if pl < Gen.C06.UDPSeparateHeaderLength + 16 then .err .tooSmall else do
  let messageHeaderStart := ps + Gen.C06.UDPSeparateHeaderLength
  let sep0 ← slice b ps messageHeaderStart
  let nonce0 ← slice sep0 4 16
  let ct ← slice b messageHeaderStart (ps + pl)
  let blk ← arr 16 sep0
  let sep := C.dec16 blk
  let _ := nonce0
  let nonce ← slice sep 4 16
  let ssid ← be64 sep
  let _spid ← sliceFrom sep 8 >>= be64
  -- session status: (the AEAD is installed, a sliding-window filter exists) or a new session
  let slot : R (Bool × Bool) :=
    if ssid = sess.curID ∧ (!guarded || sess.curHasAEAD) then .ok (sess.curHasAEAD, sess.curHasAEAD)
    else if ssid = sess.oldID ∧ (!guarded || sess.oldHasAEAD) then .ok (sess.oldHasAEAD, sess.oldHasAEAD)
    else if tooSoon then .err .tooManySessions
    else do
      let _ ← sliceTo sep 8                                   -- cipherConfig.AEAD(separateHeader[:8])
      pure (true, false)
  let (hasAEAD, hasFilter) ← slot
  if hasFilter && replayed then .err .replay else
  if !hasAEAD then .panic else                                -- saead.Open on a nil cipher.AEAD
  match C.aeadOpen nonce ct with
  | Option.none => .err .aead
  | some pt => do
    let (a, pstart, plen) ← parseUDPServerMessageHeader now csid pt
    pure (a, pstart + messageHeaderStart, plen)

/-- what the session relay does with one datagram (service/udp_session.go): `SessionInfo`, `NewUnpacker`, `UnpackInPlace` -/
def udpServerReceive (C : Ciphers) (now : Int) (idLen : Nat) (found replayed : Bool) (b : Bytes) (ps pl : Nat) :
    R (Addr × Nat × Int) := do
  let pkt ← slice b ps (ps + pl)
  let (_, pkt') ← udpSessionInfo C pkt
  udpNewUnpacker idLen found pkt'
  udpServerUnpack C now (Gen.C06.UDPSeparateHeaderLength + idLen) replayed (b.take ps ++ pkt' ++ b.drop (ps + pl)) ps pl

/-! ### direct/packet.go — unpackers on `b[packetStart : packetStart+packetLen]` -/

def noneServerUnpack (b : Bytes) (ps pl : Nat) : R (Addr × Nat × Int) := do
  let pkt ← slice b ps (ps + pl)
  let (a, n) ← connAddrFromSliceDC pkt
  pure (a, ps + n, (pl : Int) - n)

def noneClientUnpack (fromServer : Bool) (b : Bytes) (ps pl : Nat) : R (Addr × Nat × Int) :=
  if !fromServer then .err .nonServerSource else do
  let pkt ← slice b ps (ps + pl)
  let (a, n) ← addrPortFromSlice pkt
  pure (a, ps + n, (pl : Int) - n)

/-- `socks5.ValidatePacketHeader` ("The length of b must be at least 3 bytes.") -/
def validatePacketHeader (b : Bytes) : R Unit := do
  let f ← idx b 2
  if f.toNat ≠ 0 then .err .frag else pure ()

def socks5ServerUnpack (b : Bytes) (ps pl : Nat) : R (Addr × Nat × Int) :=
  if pl < 3 then .err .tooSmall else do
  let pkt ← slice b ps (ps + pl)
  validatePacketHeader pkt
  let (a, n) ← sliceFrom pkt 3 >>= connAddrFromSliceDC
  pure (a, ps + n + 3, (pl : Int) - n - 3)

def socks5ClientUnpack (fromServer : Bool) (b : Bytes) (ps pl : Nat) : R (Addr × Nat × Int) :=
  if !fromServer then .err .nonServerSource else
  if pl < 3 then .err .tooSmall else do
  let pkt ← slice b ps (ps + pl)
  validatePacketHeader pkt
  let (a, n) ← sliceFrom pkt 3 >>= addrPortFromSlice
  pure (a, ps + n + 3, (pl : Int) - n - 3)

/-- `(*DirectPacketServerPackUnpacker).PackInPlace`: reply construction of the `direct` UDP server.
`p.targetAddr.IPPort()` is evaluated only when `targetAddrOnly` (Go's `&&` short-circuit). -/
def directServerPack (target : Addr) (targetOnly : Bool) (srcIsTarget : Bool) (payloadLen maxPacketLen : Nat) : R Unit :=
  if targetOnly then do
    let _ ← target.ip
    if !srcIsTarget then .err .nonTargetSource
    else if payloadLen > maxPacketLen then .err .tooBig else pure ()
  else if payloadLen > maxPacketLen then .err .tooBig else pure ()

/-- what `service.ServerConfig.UDPRelay` accepts for the `direct` protocol (see Gen: `directRejectsTargetOnlyDomain`) -/
def directConfigAccepted (rejectsTargetOnlyDomain : Bool) (target : Addr) (targetOnly : Bool) : Bool :=
  target.isValid && !(rejectsTargetOnlyDomain && targetOnly && !target.isIP)

/-- load-time acceptance followed by the first reply datagram (`none` = configuration refused at load) -/
def directServe (rej : Bool) (target : Addr) (targetOnly srcIsTarget : Bool) (n m : Nat) : Option (R Unit) :=
  if directConfigAccepted rej target targetOnly then some (directServerPack target targetOnly srcIsTarget n m) else Option.none

/-! ### socks5/stream.go — the server handshake on its scratch buffer `b := make([]byte, 3+MaxAddrLen)`

State: the scratch buffer, the rest of the client's byte stream, the bytes written so far.
Writes to the client are assumed to succeed (the client is still reading). -/

structure S5 where
  b : Bytes
  s : Bytes
  w : Bytes

/-- `io.ReadFull(rw, b[i:j])` -/
def S5.readInto (st : S5) (i j : Nat) : R S5 := do
  let _ ← slice st.b i j
  let (r, s') ← readFull st.s (j - i)
  pure { st with b := st.b.take i ++ r ++ st.b.drop j, s := s' }

/-- `rw.Write(b[:n])` -/
def S5.writeTo (st : S5) (n : Nat) : R S5 := do
  let out ← sliceTo st.b n
  pure { st with w := st.w ++ out }

def S5.set (st : S5) (i : Nat) (v : UInt8) : R S5 := do
  let b' ← setIdx st.b i v
  pure { st with b := b' }

/-- `replyWithStatus(w, b, status)` -/
def S5.replyWithStatus (st : S5) (status : UInt8) : R S5 := do
  let reply ← sliceTo st.b (3 + Gen.C06.IPv4AddrLen)
  let reply ← setIdx reply 0 (UInt8.ofNat Gen.C06.Version)
  let reply ← setIdx reply 1 status
  let reply ← setIdx reply 2 0
  let tail ← sliceFrom reply 3
  let _ ← arr Gen.C06.IPv4AddrLen tail                       -- *(*[IPv4AddrLen]byte)(reply[3:]) = IPv4UnspecifiedAddr
  let reply := reply.take 3 ++ [UInt8.ofNat Gen.C06.AtypIPv4, 0, 0, 0, 0, 0, 0]
  pure { st with b := reply ++ st.b.drop (3 + Gen.C06.IPv4AddrLen), w := st.w ++ reply }

/-- `serverHandleMethodSelection(rw, b, method)` -/
def s5MethodSelection (method : Nat) (st : S5) : R S5 :=
  if st.b.length < Gen.C06.serverHandleMethodSelection_lenGuard0 then .panic else do
  let st ← st.readInto 0 3
  let v ← idx st.b 0
  if v.toNat ≠ Gen.C06.Version then .err .version else do
  let nm ← idx st.b 1
  let nmethods := nm.toNat
  let (st, found) ←
    (if nmethods = 0 then .err .zeroNMethods
     else if nmethods = 1 then do
       let m ← idx st.b 2
       pure (st, m.toNat == method)
     else do
       let st ← st.readInto 3 (3 + nmethods - 1)
       let ms ← slice st.b 2 (2 + nmethods)
       pure (st, ms.any (fun x => x.toNat == method)) : R (S5 × Bool))
  if !found then do
    let st ← st.set 1 (UInt8.ofNat Gen.C06.MethodNoAcceptable)
    let _ ← st.writeTo 2
    .err .noAcceptableMethod
  else do
    let st ← st.set 1 (UInt8.ofNat method)
    st.writeTo 2

/-- `serverHandleUsernamePassword`; `check uname passwd` = the user table lookup and comparison -/
def s5UsernamePassword (check : Bytes → Bytes → Bool) (st : S5) : R S5 :=
  if st.b.length < Gen.C06.serverHandleUsernamePassword_lenGuard0 then .panic else do
  let st ← st.readInto 0 4
  let v ← idx st.b 0
  if v.toNat ≠ Gen.C06.UsernamePasswordAuthVersion then .err .authVersion else do
  let ul ← idx st.b 1
  let ulen := ul.toNat
  if ulen = 0 then .err .zeroULEN else do
  let st ← (if ulen > 1 then st.readInto 4 (4 + ulen - 1) else pure st)
  let plenIndex := 2 + ulen
  let uname ← slice st.b 2 plenIndex
  let pl ← idx st.b plenIndex
  let plen := pl.toNat
  if plen = 0 then .err .zeroPLEN else do
  let st ← st.readInto 2 (2 + plen)
  let passwd ← slice st.b 2 (2 + plen)
  let okAuth := check uname passwd
  let st ← st.set 1 (if okAuth then 0 else 1)
  let st ← st.writeTo 2
  if !okAuth then .err .badAuth else pure st

/-- `serverHandleRequest`: on success the pending connection keeps the buffer for the later reply -/
def s5Request (enableTCP enableUDP tcpLocal : Bool) (boundAddr : Bytes) (st : S5) : R (S5 × Addr) :=
  if st.b.length < Gen.C06.serverHandleRequest_lenGuard0 then .panic else do
  let st ← st.readInto 0 5
  let v ← idx st.b 0
  if v.toNat ≠ Gen.C06.Version then .err .version else do
  -- AppendFromReader(b[3:3], newPrefixedReader(b[3:5], rw)): cap(b[3:3]) = MaxAddrLen, the address lands in b[3:]
  let _ ← slice st.b 3 3
  let pre ← slice st.b 3 5
  let (sa, rest) ← appendFromReader (pre ++ st.s)
  let st := { st with b := st.b.take 3 ++ sa ++ st.b.drop (3 + sa.length), s := rest }
  let (a, _) ← connAddrFromSlice sa
  let cmd ← idx st.b 1
  if cmd.toNat = Gen.C06.CmdConnect ∧ enableTCP then pure (st, a)
  else if cmd.toNat = Gen.C06.CmdUDPAssociate ∧ enableUDP then
    if !tcpLocal then .err .localAddr else do
    let st ← st.set 1 (UInt8.ofNat Gen.C06.ReplySucceeded)
    let hd ← sliceTo st.b 3
    let st := { st with w := st.w ++ hd ++ boundAddr }          -- AppendAddrFromAddrPort(b[:3], addrPort)
    let _ ← sliceTo st.b 1                                       -- rw.Read(b[:1]) holds the connection
    .err .handled
  else do
    let _ ← st.replyWithStatus (UInt8.ofNat Gen.C06.ReplyCommandNotSupported)
    .err .unsupportedCmd

/-- `ServerAccept` / `ServerAcceptUsernamePassword` on a fresh scratch buffer, then `Proceed` or `Abort(code)` -/
def s5Server (auth : Bool) (check : Bytes → Bytes → Bool) (enableTCP enableUDP tcpLocal : Bool) (boundAddr : Bytes)
    (finish : Option UInt8) (stream : Bytes) : R (Addr × Bytes) := do
  let st : S5 := ⟨List.replicate (3 + Gen.C06.MaxAddrLen) 0, stream, []⟩
  let st ← s5MethodSelection (if auth then Gen.C06.MethodUsernamePassword else Gen.C06.MethodNoAuthenticationRequired) st
  let st ← (if auth then s5UsernamePassword check st else pure st)
  let (st, a) ← s5Request enableTCP enableUDP tcpLocal boundAddr st
  match finish with
  | Option.none => pure (a, st.w)
  | some status => do
    let st ← st.replyWithStatus status
    pure (a, st.w)

/-! ### socks5/stream.go — the client side: replies of a (hostile) server -/

/-- `clientNegotiateAuthMethod(rw, b, method)` -/
def s5ClientNegotiate (method : Nat) (st : S5) : R S5 :=
  if st.b.length < Gen.C06.clientNegotiateAuthMethod_lenGuard0 then .panic else do
  let st ← st.set 0 (UInt8.ofNat Gen.C06.Version)
  let st ← st.set 1 1
  let st ← st.set 2 (UInt8.ofNat method)
  let st ← st.writeTo 3
  let st ← st.readInto 0 2
  let v ← idx st.b 0
  if v.toNat ≠ Gen.C06.Version then .err .version else do
  let m ← idx st.b 1
  if m.toNat ≠ method then .err .unsupportedMethod else pure st

/-- `clientDoUsernamePasswordAuth(rw, b, authMsg)` -/
def s5ClientAuth (authMsg : Bytes) (st : S5) : R S5 :=
  if st.b.length < Gen.C06.clientDoUsernamePasswordAuth_lenGuard0 then .panic else do
  let st := { st with w := st.w ++ authMsg }
  let st ← st.readInto 0 2
  let v ← idx st.b 0
  if v.toNat ≠ Gen.C06.UsernamePasswordAuthVersion then .err .authVersion else do
  let status ← idx st.b 1
  if status.toNat ≠ 0 then .err .badAuth else pure st

/-- `clientDoRequest(rw, b, command, targetAddr)`; `enc` = the SOCKS encoding of `targetAddr`
(`WriteAddrFromConnAddr(b[3:], targetAddr)` "does not check whether b has sufficient space") -/
def s5ClientRequest (cmd : UInt8) (enc : Bytes) (st : S5) : R (S5 × Addr) :=
  if st.b.length < Gen.C06.clientDoRequest_lenGuard0 then .panic else do
  let st ← st.set 0 (UInt8.ofNat Gen.C06.Version)
  let st ← st.set 1 cmd
  let st ← st.set 2 0
  let tail ← sliceFrom st.b 3
  if tail.length < enc.length then .panic else do          -- index / PutUint16 beyond b[3:]
  let st := { st with b := st.b.take 3 ++ enc ++ st.b.drop (3 + enc.length) }
  let st ← st.writeTo (3 + enc.length)
  let st ← st.readInto 0 5
  let v ← idx st.b 0
  if v.toNat ≠ Gen.C06.Version then .err .version else do
  let _ ← slice st.b 3 3
  let pre ← slice st.b 3 5
  let (sa, rest) ← appendFromReader (pre ++ st.s)
  let st := { st with b := st.b.take 3 ++ sa ++ st.b.drop (3 + sa.length), s := rest }
  let (a, _) ← connAddrFromSlice sa
  let rep ← idx st.b 1
  if rep.toNat ≠ Gen.C06.ReplySucceeded then .err .replyErr else pure (st, a)

/-- `ClientRequest` / `ClientRequestUsernamePassword` on a fresh scratch buffer -/
def s5Client (auth : Bool) (authMsg : Bytes) (cmd : UInt8) (enc : Bytes) (stream : Bytes) : R Addr := do
  let st : S5 := ⟨List.replicate (3 + Gen.C06.MaxAddrLen) 0, stream, []⟩
  let st ← s5ClientNegotiate (if auth then Gen.C06.MethodUsernamePassword else Gen.C06.MethodNoAuthenticationRequired) st
  let st ← (if auth then s5ClientAuth authMsg st else pure st)
  let (_, a) ← s5ClientRequest cmd enc st
  pure a

/-! ### ss2022/stream.go — `ShadowStreamConn.read`: payload chunks of an authenticated (but possibly hostile) peer -/

/-- `(*ShadowStreamConn).read(b)`: `cap` = `cap(b)`; `sticky` = `c.readErr` (recorded by an earlier read that failed in the
middle of a chunk — through `failRead`, or by the first `ReadFull` when it had consumed something; it is returned before the
buffer or the stream is touched); `openChunk` = AEAD open of one sealed chunk (in place).
Returns the chunk's payload length and the rest of the stream. Which failures are recorded as sticky does not matter for
panics: every failure is an `err` here. -/
def streamRead (cap : Nat) (sticky : Option Err) (openChunk : Bytes → Option Bytes) (s : Bytes) : R (Nat × Bytes) :=
  if cap < Gen.C06.streamReadMinBufferSize then .panic else
  match sticky with
  | some e => .err e
  | Option.none =>
    if cap < 2 + Gen.C06.tagSize then .panic else do                       -- b[:2+tagSize]
    let (ct, s) ← readFull s (2 + Gen.C06.tagSize)
    match openChunk ct with
    | Option.none => .err .aead
    | some pt => do
      let length ← be16 (pt.take 2 ++ ct.drop 2)                            -- Uint16 of the buffer decrypted in place
      if length = 0 then .err .zeroLengthChunk else
      if cap < length + Gen.C06.tagSize then .panic else do                 -- b[:length+tagSize]
      let (ct2, s) ← readFull s (length + Gen.C06.tagSize)
      match openChunk ct2 with
      | Option.none => .err .aead
      | some _ => pure (length, s)

/-! ### httpproxy/server.go — `hostHeaderToAddr`, `serverHandleBasicAuth` (own logic; `net.SplitHostPort`,
`strconv.ParseUint`, `netip.ParseAddr` are parameters returning ok/err) -/

/-- `conn.AddrFromHostPort(host, port)`; `parseIP` = `netip.ParseAddr` -/
def addrFromHostPort (parseIP : Bytes → Option (Bool × Bytes)) (host : Bytes) (port : Nat) : R Addr :=
  match parseIP host with
  | some (true, a) => .ok (.ip4 a port)
  | some (false, a) => .ok (.ip6 a port)
  | Option.none => addrFromDomainPort host port

/-- `hostHeaderToAddr(host)`; `parseAddr` = `conn.ParseAddr` (SplitHostPort + ParseUint + AddrFromHostPort), never panics by assumption -/
def hostHeaderToAddr (parseIP : Bytes → Option (Bool × Bytes)) (parseAddr : Bytes → Option Addr) (host : Bytes) : R Addr :=
  if host.length = 0 then .err .emptyHost
  else if !host.contains 58 then addrFromHostPort parseIP host 80            -- strings.IndexByte(host, ':') == -1
  else do
    let first ← idx host 0
    let last ← idx host (host.length - 1)
    if first.toNat = 91 ∧ last.toNat = 93 then do                             -- '[' ... ']'
      let inner ← slice host 1 (host.length - 1)
      addrFromHostPort parseIP inner 80
    else match parseAddr host with
      | some a => .ok a
      | Option.none => .err .splitHostPort

/-- `serverHandleBasicAuth`: the credential prefix test on one `Proxy-Authorization` value -/
def basicAuthToken (creds : Bytes) : R (Option Bytes) :=
  if creds.length > 6 then do
    let c0 ← idx creds 0
    let c1 ← idx creds 1
    let c2 ← idx creds 2
    let c3 ← idx creds 3
    let c4 ← idx creds 4
    let c5 ← idx creds 5
    if (c0 = 66 ∨ c0 = 98) ∧ (c1 = 97 ∨ c1 = 65) ∧ (c2 = 115 ∨ c2 = 83) ∧ (c3 = 105 ∨ c3 = 73) ∧ (c4 = 99 ∨ c4 = 67) ∧ c5 = 32 then do
      let tok ← sliceFrom creds 6
      pure (some tok)
    else pure Option.none
  else pure Option.none

/-! ### router: criteria `Meet` on the wire-derived address, `Route.Match`, `Router.match` -/

/-- `(*portset.PortSet).Contains`: panics on port 0 by contract -/
def portSetContains (mem : Nat → Bool) (port : Nat) : R Bool :=
  if Gen.C06.portSetContainsPanicsOnZero && port == 0 then .panic else .ok (mem port)

/-- `portset.PortRangeSet.Contains`: binary search over sorted ranges; total for every port -/
def portRangeSetContains (rs : List (Nat × Nat)) (port : Nat) : Bool :=
  rs.any (fun r => r.1 ≤ port && port ≤ r.2)

/-- `*PortSetCriterion.Meet`: `guardsZero` (regenerated from the source) says whether port 0 is answered before `Contains` -/
def portSetMeet (guardsZero : Bool) (mem : Nat → Bool) (port : Nat) : R Bool :=
  if guardsZero && port == 0 then .ok false else portSetContains mem port

/-- IP prefix: (is4, address bytes, bits) -/
structure Prefix where
  is4 : Bool
  addr : Bytes
  bits : Nat
deriving Repr, DecidableEq

def bitAt (a : Bytes) (i : Nat) : Bool := ((a.getD (i / 8) 0).toNat / 2 ^ (7 - i % 8)) % 2 == 1

/-- `netip.Addr.Unmap` on (is4, bytes) -/
def unmap (ip : Bool × Bytes) : Bool × Bytes :=
  if !ip.1 ∧ ip.2.take 12 = [0,0,0,0,0,0,0,0,0,0,0xff,0xff] ∧ ip.2.length = 16 then (true, ip.2.drop 12) else ip

def prefixContains (p : Prefix) (ip : Bool × Bytes) : Bool :=
  p.is4 == ip.1 && (List.range p.bits).all (fun i => bitAt p.addr i == bitAt ip.2 i)

def prefixSetContains (ps : List Prefix) (ip : Bool × Bytes) : Bool := ps.any (prefixContains · ip)

/-- request as the criteria see it -/
structure Req where
  tcp : Bool
  srcPort : Nat
  target : Addr

inductive Crit where
  | networkTCP | networkUDP
  | srcPort (p : Nat) | srcPortRanges (rs : List (Nat × Nat)) | srcPortSet (mem : Nat → Bool)
  | dstPort (p : Nat) | dstPortRanges (rs : List (Nat × Nat)) | dstPortSet (mem : Nat → Bool)
  | dstDomain (m : Bytes → Bool)
  | dstIP (ps : List Prefix)
  | dstResolvedIP (ps : List Prefix) (resolve : Bytes → Option (Bool × Bytes))
  | dstDomainExpectedIP (m : Bytes → Bool) (inner : Crit)
  | inverted (c : Crit)
  | groupOr (cs : List Crit)

/-- whether the two `*PortSetCriterion.Meet` methods answer port 0 themselves (finding F3) -/
structure Guards where
  src : Bool
  dst : Bool
deriving Repr, DecidableEq

/-- what the source says now -/
def curGuards : Guards := ⟨Gen.C06.sourcePortSetMeetGuardsZero, Gen.C06.destPortSetMeetGuardsZero⟩

/-- `Criterion.Meet` : (met, err) — `err` short-circuits exactly as in the Go code -/
def Crit.meet (g : Guards) (q : Req) : Crit → R Bool
  | .networkTCP => .ok q.tcp
  | .networkUDP => .ok (!q.tcp)
  | .srcPort p => .ok (p == q.srcPort)
  | .srcPortRanges rs => .ok (portRangeSetContains rs q.srcPort)
  | .srcPortSet mem => portSetMeet g.src mem q.srcPort
  | .dstPort p => .ok (p == q.target.port)
  | .dstPortRanges rs => .ok (portRangeSetContains rs q.target.port)
  | .dstPortSet mem => portSetMeet g.dst mem q.target.port
  | .dstDomain m => if q.target.isIP then .ok false else do
      let d ← q.target.domain
      pure (m d)
  | .dstIP ps => if !q.target.isIP then .ok false else do
      let ip ← q.target.ip
      pure (prefixSetContains ps (unmap ip))
  | .dstResolvedIP ps resolve => if q.target.isIP then do
      let ip ← q.target.ip
      pure (prefixSetContains ps (unmap ip))
    else do
      let d ← q.target.domain
      match resolve d with
      | Option.none => .err .lookup            -- resolver errors surface as the criterion's error
      | some ip => pure (prefixSetContains ps (unmap ip))
  | .dstDomainExpectedIP m inner => do
      let met ← (if q.target.isIP then (.ok false : R Bool) else do
        let d ← q.target.domain
        pure (m d))
      if !met then pure false else inner.meet g q
  | .inverted c => do
      let met ← c.meet g q
      pure (!met)
  | .groupOr cs => meetAny g q cs
where
  meetAny (g : Guards) (q : Req) : List Crit → R Bool
    | [] => .ok false
    | c :: cs => do
      let met ← c.meet g q
      if met then pure true else meetAny g q cs

/-- `Route.Match`: all criteria, in order -/
def routeMatch (g : Guards) (q : Req) : List Crit → R Bool
  | [] => .ok true
  | c :: cs => do
    let met ← c.meet g q
    if !met then pure false else routeMatch g q cs

/-- `Router.match`: index of the first matching route; the default route (no criteria) is appended by
`Config.Router`; `panic("did not match default route")` if nothing matches. An error of a criterion ends the search. -/
def routerMatchFrom (g : Guards) (q : Req) : Nat → List (List Crit) → R Nat
  | _, [] => .panic
  | i, r :: rs => do
    let m ← routeMatch g q r
    if m then pure i else routerMatchFrom g q (i + 1) rs

def routerMatch (g : Guards) (q : Req) (routes : List (List Crit)) : R Nat := routerMatchFrom g q 0 (routes ++ [[]])

end SSV.Parsers
