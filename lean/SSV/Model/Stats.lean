import SSV.Gen.C14
/-
C14 — executable model of stats/collector.go and of the two API projections of api/ssm/ssm.go.

* counters are `Nat` values kept below 2^64 (`M`): `atomic.Uint64.Add` and `uint64 +=` wrap;
* every atomic operation of the code is one step of a thread (`Thread.step`); a configuration is the
  shared collector state plus a pool of threads; `Step` lets ANY thread take its next atomic step, so
  `Reach` ranges over all interleavings of any number of Collect* / Snapshot / SnapshotAndReset calls;
* the operations executed by a thread are the step programs regenerated from the source
  (`SSV.Gen.C14.collectTCPSession`, `snapshot`, `snapshotAndReset`, `trafficAdd`, the `Collect*` wrappers);
* user collectors are keyed by name: `serverCollector.userCollector` (double-checked creation under the
  RW lock, program `Gen.userCollector`) is modelled as: fast path = one atomic look-up (read-lock section),
  slow path = one atomic create-if-absent (write-lock section, enabled only while no reader holds the lock).
  The lock-level refinement of exactly that program is in `SSV.Model.StatsLock`.
-/
namespace SSV.Stats
open SSV.Gen.C14

/-- modulus of `uint64` -/
def M : Nat := 18446744073709551616

/-- six `uint64` figures (a `trafficCollector`, or a `stats.Traffic` value). Kept as a finite table,
not as a function: a definition returning a function is compiled with one more argument and would
be re-evaluated on every look-up. A counter that was never written is 0 (Go zero value). -/
structure Counters where
  l : List (Field × Nat)

def Counters.zero : Counters := ⟨[]⟩

def Counters.get (c : Counters) (f : Field) : Nat :=
  match c.l.lookup f with
  | some v => v
  | none => 0

def Counters.set (c : Counters) (f : Field) (v : Nat) : Counters := ⟨(f, v) :: c.l⟩

/-- `sc.tc` (sessions without a username) or the collector of a named user -/
inductive Target where
  | anon
  | user (name : String)
  deriving DecidableEq, Repr

/-- `serverCollector.trafficCollector(username)` -/
def target (username : String) : Target :=
  if username = anonymousUsername then .anon else .user username

abbrev Store := Target → Counters

def Store.upd (s : Store) (t : Target) (f : Field) (v : Nat) : Store :=
  fun t' => if t' = t then (s t').set f v else s t'

structure Shared where
  ctr : Store
  /-- keys of `sc.ucs`, most recently created first -/
  names : List String
  /-- holders of `sc.mu.RLock()` that span several steps (snapshots iterating over `sc.ucs`) -/
  readers : Nat

def Shared.init : Shared := { ctr := fun _ => Counters.zero, names := [], readers := 0 }

/-! ### atomic operations bound to arguments -/

inductive BStep where
  | add (f : Field) (v : Nat)
  | load (f : Field) (out : Field)
  | swap0 (f : Field) (out : Field)
  deriving DecidableEq, Repr

def Arg.eval (args : List Nat) : Arg → Nat
  | .param i => args.getD i 0
  | .lit n => n

def bindStep (args : List Nat) : Gen.C14.Step → BStep
  | .add f a => .add f (Arg.eval args a)
  | .load f o => .load f o
  | .swap0 f o => .swap0 f o

/-- a call of a `trafficCollector` method on collector `t`: the `Traffic` literal under construction
and the atomic operations still to execute -/
structure Visit where
  t : Target
  lit : Counters
  pc : List BStep

def Visit.idle : Visit := { t := .anon, lit := Counters.zero, pc := [] }

/-- one atomic operation (Go: `atomic.Uint64.Add / Load / Swap(0)`) -/
def exec (ctr : Store) (v : Visit) (s : BStep) (rest : List BStep) : Store × Visit :=
  match s with
  | .add f a => (ctr.upd v.t f (((ctr v.t).get f + a) % M), { v with pc := rest })
  | .load f out => (ctr, { v with lit := v.lit.set out ((ctr v.t).get f), pc := rest })
  | .swap0 f out => (ctr.upd v.t f 0, { v with lit := v.lit.set out ((ctr v.t).get f), pc := rest })

/-! ### Collect* threads -/

/-- the three public methods of `stats.Collector` that record traffic -/
inductive Call where
  | tcp       -- CollectTCPSession(username, downlinkBytes, uplinkBytes)
  | udpDown   -- CollectUDPSessionDownlink(username, downlinkPackets, downlinkBytes)
  | udpUp     -- CollectUDPSessionUplink(username, uplinkPackets, uplinkBytes)
  deriving DecidableEq, Repr

def Call.wrapper : Call → Wrapper
  | .tcp => CollectTCPSession
  | .udpDown => CollectUDPSessionDownlink
  | .udpUp => CollectUDPSessionUplink

def innerProg : Inner → List Gen.C14.Step
  | .collectTCPSession => collectTCPSession
  | .collectUDPSessionDownlink => collectUDPSessionDownlink
  | .collectUDPSessionUplink => collectUDPSessionUplink

/-- atomic operations of `sc.Collect…(username, x0, x1)` after the collector has been selected -/
def collectPc (c : Call) (x0 x1 : Nat) : List BStep :=
  let w := c.wrapper
  (innerProg w.inner).map (bindStep (w.args.map (fun j => [x0, x1].getD j 0)))

inductive CStage where
  | lookup   -- userCollector fast path: RLock; uc := sc.ucs[username]; RUnlock
  | create   -- userCollector slow path: Lock; re-check; create and store if absent; Unlock
  | run      -- the collector is selected; atomic adds
  deriving DecidableEq, Repr

structure CollectTh where
  u : String
  stage : CStage
  v : Visit

def mkCollect (c : Call) (u : String) (x0 x1 : Nat) : CollectTh :=
  { u := u, stage := if u = anonymousUsername then .run else .lookup,
    v := { t := target u, lit := Counters.zero, pc := collectPc c x0 x1 } }

def CollectTh.step (sh : Shared) (th : CollectTh) : Option (Shared × CollectTh) :=
  match th.stage with
  | .lookup => some (sh, { th with stage := if sh.names.contains th.u then .run else .create })
  | .create =>
    if sh.readers = 0 then
      some ({ sh with names := if sh.names.contains th.u then sh.names else th.u :: sh.names }, { th with stage := .run })
    else none
  | .run =>
    match th.v.pc with
    | [] => none
    | s :: rest =>
      let (ctr', v') := exec sh.ctr th.v s rest
      some ({ sh with ctr := ctr' }, { th with v := v' })

/-! ### Snapshot / SnapshotAndReset threads -/

def snapProg : SnapKind → List Gen.C14.Step
  | .snapshot => snapshot
  | .snapshotAndReset => snapshotAndReset

/-- shape of `Gen.Snapshot` / `Gen.SnapshotAndReset` the model interprets: which `trafficCollector`
method reads the anonymous collector, which reads each user collector. -/
structure AggShape where
  anonKind : SnapKind
  userKind : SnapKind
  deriving DecidableEq, Repr

def userSnapKind : SnapKind → SnapKind
  | .snapshot => user_snapshot
  | .snapshotAndReset => user_snapshotAndReset

/-- accepts exactly: anon into s.Traffic; RLock; make; for users {u := uc.k(); s.Traffic.Add(u.Traffic); append}; RUnlock; sort; return -/
def parseAgg : List AggStep → Option AggShape
  | [.anonInto ka, .rlock, .makeUsers, .forUsers [.userSnap ku, .addToTotal, .appendUser], .runlock, .sortUsers, .ret] =>
    some { anonKind := ka, userKind := userSnapKind ku }
  | _ => none

def aggOf (reset : Bool) : List AggStep := if reset then SnapshotAndReset else Snapshot

/-- the shape used for a thread; a program the model does not know is given the shape the name promises
(the theorems require `parseAgg` to succeed, see `SSV.C14.gen_shapes`) -/
def shapeOf (reset : Bool) : AggShape :=
  match parseAgg (aggOf reset) with
  | some s => s
  | none => if reset then ⟨.snapshotAndReset, .snapshotAndReset⟩ else ⟨.snapshot, .snapshot⟩

/-- `(*Traffic).Add`: the `+=` statements of `Gen.trafficAdd`, each wrapping at 2^64 -/
def applyAdd (tot lit : Counters) : Counters :=
  trafficAdd.foldl (fun acc p => acc.set p.1 ((acc.get p.1 + lit.get p.2) % M)) tot

inductive Phase where
  | anon                                    -- s.Traffic = sc.tc.<k>()
  | lockWait                                -- about to sc.mu.RLock()
  | users (todo : List String)              -- read lock held; between two iterations of `range sc.ucs`
  | visiting (u : String) (todo : List String)
  | finished
  deriving DecidableEq, Repr

structure SnapTh where
  reset : Bool
  phase : Phase
  v : Visit
  /-- `s.Traffic` -/
  total : Counters
  /-- completed `trafficCollector.snapshot…()` calls, in order: collector and the `Traffic` obtained.
  `s.Users` = the `.user` entries of this list. -/
  done : List (Target × Counters)

def mkSnap (reset : Bool) : SnapTh :=
  { reset := reset, phase := .anon,
    v := { t := .anon, lit := Counters.zero, pc := (snapProg (shapeOf reset).anonKind).map (bindStep []) },
    total := Counters.zero, done := [] }

/-- `order`: the order in which `range sc.ucs` yields the keys (any permutation of the keys). -/
def SnapTh.step (order : List String) (sh : Shared) (th : SnapTh) : Option (Shared × SnapTh) :=
  match th.v.pc with
  | s :: rest =>
    let (ctr', v') := exec sh.ctr th.v s rest
    some ({ sh with ctr := ctr' }, { th with v := v' })
  | [] =>
    match th.phase with
    | .anon =>
      some (sh, { th with phase := .lockWait, total := th.v.lit, done := th.done ++ [(th.v.t, th.v.lit)], v := Visit.idle })
    | .lockWait =>
      some ({ sh with readers := sh.readers + 1 }, { th with phase := .users order })
    | .users (u :: todo) =>
      some (sh, { th with phase := .visiting u todo,
                          v := { t := .user u, lit := Counters.zero, pc := (snapProg (shapeOf th.reset).userKind).map (bindStep []) } })
    | .visiting _ todo =>
      some (sh, { th with phase := .users todo, total := applyAdd th.total th.v.lit,
                          done := th.done ++ [(th.v.t, th.v.lit)], v := Visit.idle })
    | .users [] =>
      some ({ sh with readers := sh.readers - 1 }, { th with phase := .finished })
    | .finished => none

/-! ### thread pool, interleaving -/

inductive Thread where
  | collect (c : CollectTh)
  | snap (s : SnapTh)

def Thread.step (order : List String) (sh : Shared) : Thread → Option (Shared × Thread)
  | .collect c => (c.step sh).map (fun r => (r.1, .collect r.2))
  | .snap s => (s.step order sh).map (fun r => (r.1, .snap r.2))

structure Config where
  sh : Shared
  threads : List Thread

/-- any thread of the pool takes its next atomic step -/
inductive Step : Config → Config → Prop where
  | mk (pre post : List Thread) (th th' : Thread) (sh sh' : Shared) (order : List String) :
      order.Perm sh.names → Thread.step order sh th = some (sh', th') →
      Step ⟨sh, pre ++ th :: post⟩ ⟨sh', pre ++ th' :: post⟩

inductive Reach : Config → Config → Prop where
  | refl (c : Config) : Reach c c
  | tail {a b c : Config} : Reach a b → Step b c → Reach a c

def Thread.finished : Thread → Prop
  | .collect c => c.stage = .run ∧ c.v.pc = []
  | .snap s => s.phase = .finished

/-! ### results -/

def insertUser (e : String × Counters) : List (String × Counters) → List (String × Counters)
  | [] => [e]
  | x :: xs => if e.1 < x.1 then e :: x :: xs else x :: insertUser e xs

/-- `slices.SortFunc(s.Users, User.Compare)` -/
def sortUsers (l : List (String × Counters)) : List (String × Counters) := l.foldr insertUser []

def userEntry : Target × Counters → Option (String × Counters)
  | (.user n, c) => some (n, c)
  | (.anon, _) => none

structure Result where
  total : Counters
  users : List (String × Counters)

def SnapTh.result (s : SnapTh) : Result := { total := s.total, users := sortUsers (s.done.filterMap userEntry) }

/-! ### sequential execution (what the driver runs): a lone thread scheduled until it stops,
`range sc.ucs` yielding the keys in the order of `names`. -/

def runSnap : Nat → Shared → SnapTh → Shared × SnapTh
  | 0, sh, th => (sh, th)
  | n + 1, sh, th =>
    match th.step sh.names sh with
    | some (sh', th') => runSnap n sh' th'
    | none => (sh, th)

def runCollect : Nat → Shared → CollectTh → Shared × CollectTh
  | 0, sh, th => (sh, th)
  | n + 1, sh, th =>
    match th.step sh with
    | some (sh', th') => runCollect n sh' th'
    | none => (sh, th)

def snapFuel (sh : Shared) : Nat := 16 + (sh.names.length + 1) * (Field.all.length + 4)

def doCollect (sh : Shared) (c : Call) (u : String) (x0 x1 : Nat) : Shared :=
  (runCollect (Field.all.length + 8) sh (mkCollect c u x0 x1)).1

def doSnapshot (sh : Shared) (reset : Bool) : Shared × Result :=
  let r := runSnap (snapFuel sh) sh (mkSnap reset)
  (r.1, r.2.result)

/-! ### API projections (api/ssm) -/

/-- `handleGetStats`: `?clear` / `?clear=true` (exactly one value) selects SnapshotAndReset -/
def statsClear (vals : List String) : Bool :=
  match vals with
  | [v] => statsClearValues.contains v
  | _ => false

def apiStats (sh : Shared) (clearVals : List String) : Shared × Result :=
  doSnapshot sh (statsClear clearVals)

def lookupUser (users : List (String × Counters)) (u : String) : Counters :=
  match users.find? (fun e => e.1 == u) with
  | some e => e.2
  | none => Counters.zero

/-- the `stats.Traffic` part of the body of `GET /servers/{s}/users/{u}` for a user known to the
credential manager (unknown users get 404 before the collector is consulted) -/
def projectUser (r : Result) (u : String) : Counters :=
  match getUserProjection with
  | .serverTotals => r.total
  | .userLookup => lookupUser r.users u

def apiUser (sh : Shared) (hasCred : Bool) (u : String) : Option Counters :=
  if hasCred then some (projectUser (doSnapshot sh false).2 u) else none

end SSV.Stats
