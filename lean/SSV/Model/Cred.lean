import SSV.Gen.C08
/-
Model of cred/manager.go (ManagedServer), ss2022/credstore.go (CredStore) and the
identity-header lookup of ss2022/tcp.go (HandleStream) / ss2022/udp.go (NewUnpacker).

State = the manager's cache (`cachedCredMap`: username → key), its derived lookup map
(`cachedUserLookupMap`: uPSK hash → (username, key)), the live lookup maps of the TCP and UDP
servers (absent when the server has no such relay), the store file, `cachedContent`, the
one-slot save queue and the saver goroutine's "dequeued, not yet saved" phase.

Every API operation is a *step program* (`SSV.Gen.C08.addProg`, …) that the translator
extracts from the function body in source order on every run; this file only gives the
steps their meaning.  `exec` is the meaning of a single step; a guard whose condition fails
ends the operation with the error the code returns (releasing the lock if it is held).
`seg` runs one atomic segment of a thread: either a whole `lock … unlock` section or a
single step outside the lock.  Sequential semantics = run the segments of one thread to the
end; concurrent semantics (`sched`) = at each instant any unfinished thread runs its next
segment.  A step that reads or writes the manager's own fields while the thread does not
hold `s.mu` sets `fault` (Go: unsynchronised map access, "fatal error: concurrent map …"), and so
does a write to a map that has not been made yet (run-time panic with `s.mu` held).

The PSK hash is a parameter `H`; nothing here assumes it injective.
-/
namespace SSV.Cred
open SSV.Gen.C08

/-! ### association lists -/

def find {α β : Type} [DecidableEq α] : List (α × β) → α → Option β
  | [], _ => none
  | (a, b) :: m, x => if a = x then some b else find m x

def erase {α β : Type} [DecidableEq α] : List (α × β) → α → List (α × β)
  | [], _ => []
  | (a', b') :: m, a => if a' = a then erase m a else (a', b') :: erase m a

/-- Go `m[a] = b` -/
def insert {α β : Type} [DecidableEq α] (m : List (α × β)) (a : α) (b : β) : List (α × β) :=
  (a, b) :: erase m a

/-! ### data -/

/-- a user PSK: `id` names the byte string, `len` is its length in bytes -/
structure Key where
  id : Nat
  len : Nat
deriving DecidableEq, Repr

abbrev Name := String
abbrev Hash := Nat
abbrev Entry := Name × Key
abbrev ULM := List (Hash × Entry)

/-- content of the store file (and of `cachedContent`), up to the fixed formatting:
zero bytes, something `json.Decoder` rejects for `map[string][]byte`, or a JSON object with
these members in this textual order (duplicate member names possible in a hand-edited file). -/
inductive Doc where
  | empty
  | garbage
  | entries (l : List Entry)
deriving DecidableEq, Repr

inductive Res where
  | ok | errEmptyName | errLen | errExists | errNoUser | errSame | errDup | errParse | errInvalid
  | panicked   -- Go run-time panic inside the call (the lock stays held)
deriving DecidableEq, Repr

structure St where
  pskLen : Nat
  loaded : Bool                    -- the maps have been made (they are nil until the first load that gets past the shortcut)
  cache : List Entry
  lookup : ULM
  tcp : Option ULM
  udp : Option ULM
  file : Doc
  cachedContent : Doc
  pending : Bool
  saverBusy : Bool
  fault : Bool
deriving Repr

/-- per-call locals -/
structure Regs where
  name : Name
  key : Key
  locked : Bool := false
  uc : Option Key := none        -- `uc := s.cachedCredMap[username]` (its key when loaded)
  oldHash : Option Hash := none  -- `oldUPSKHash`
  content : Doc := .empty        -- LoadFromFile: `content`
  parsed : Option (List Entry) := none   -- LoadFromFile: `uPSKMap` (nil + error when decoding fails)
  newLookup : ULM := []          -- LoadFromFile: `userLookupMap`
  newCache : List Entry := []    -- LoadFromFile: `credMap`
deriving Repr

inductive Out where
  | next (st : St) (r : Regs)
  | done (res : Res) (st : St)

/-- `json.Decoder.Decode` into a `map[string][]byte`: a later duplicate member replaces an earlier one. -/
def decodeDoc : Doc → Option (List Entry)
  | .empty => none
  | .garbage => none
  | .entries l => some (l.foldl (fun m p => insert m p.1 p.2) [])

/-- the validation loop of LoadFromFile over the decoded map (any iteration order gives the same verdict and maps) -/
def build (H : Key → Hash) (pskLen : Nat) : List Entry → Option (ULM × List Entry)
  | [] => some ([], [])
  | (n, k) :: rest =>
    match build H pskLen rest with
    | none => none
    | some (lk, c) =>
      if k.len ≠ pskLen then none
      else if (find lk (H k)).isSome then none
      else some (insert lk (H k) (n, k), insert c n k)

def insSorted (p : Entry) : List Entry → List Entry
  | [] => [p]
  | q :: r => if p.1 < q.1 then p :: q :: r else q :: insSorted p r

/-- members sorted by name, as `json.MarshalIndent` of a map writes them -/
def canon (l : List Entry) : List Entry := l.foldr insSorted []

/-- the document `saveToFile` writes -/
def render (cache : List Entry) : Doc := .entries (canon cache)

/-- a step that touches the manager's own fields without holding `s.mu` -/
def touch (r : Regs) (st : St) : St := if r.locked then st else { st with fault := true }

def liveUpd (f : ULM → ULM) (st : St) : St :=
  { st with tcp := st.tcp.map f, udp := st.udp.map f }

def exec (H : Key → Hash) (s : Step) (st : St) (r : Regs) : Out :=
  match s with
  | .guardName => if r.name = "" then .done .errEmptyName st else .next st r
  | .guardLen => if r.key.len ≠ st.pskLen then .done .errLen st else .next st r
  | .lock => .next st { r with locked := true }
  | .unlock => .next st { r with locked := false }
  | .guardAbsent =>
    let st := touch r st
    if (find st.cache r.name).isSome then .done .errExists st else .next st r
  | .loadUc => .next (touch r st) { r with uc := find st.cache r.name }
  | .guardPresent => if r.uc.isNone then .done .errNoUser st else .next st r
  | .guardKeyDiffers => if r.uc = some r.key then .done .errSame st else .next st r
  | .hashKey => .next st r
  | .guardHashFree =>
    let st := touch r st
    if (find st.lookup (H r.key)).isSome then .done .errDup st else .next st r
  | .mkConfig => .next st r
  | .guardConfigOk => .next st r   -- aes.NewCipher accepts every key of the checked length
  | .mkCred => .next st r
  | .cacheSet =>
    if st.loaded then .next { touch r st with cache := insert st.cache r.name r.key } r
    else .done .panicked { st with fault := true }   -- assignment to entry in nil map, `s.mu` still held
  | .saveOldHash => .next st { r with oldHash := r.uc.map H }
  | .cacheUpdKey => .next { touch r st with cache := insert st.cache r.name r.key } r
  | .cacheDel => .next { touch r st with cache := erase st.cache r.name } r
  | .lookupSet => .next { touch r st with lookup := insert st.lookup (H r.key) (r.name, r.key) } r
  | .lookupDelOld =>
    .next { touch r st with lookup := match r.oldHash with | some h => erase st.lookup h | none => st.lookup } r
  | .lookupDelUc =>
    .next { touch r st with lookup := match r.uc with | some k => erase st.lookup (H k) | none => st.lookup } r
  | .liveSet => .next (liveUpd (fun m => insert m (H r.key) (r.name, r.key)) st) r
  | .liveDelOldSet =>
    .next (liveUpd (fun m => insert (match r.oldHash with | some h => erase m h | none => m) (H r.key) (r.name, r.key)) st) r
  | .liveDelUc =>
    .next (liveUpd (fun m => match r.uc with | some k => erase m (H k) | none => m) st) r
  | .enqueueSave => .next { st with pending := true } r
  | .ret => .done .ok st
  | .readFile => .next st { r with content := st.file }
  | .deferClose => .next st r
  | .guardChanged =>
    let st := touch r st
    if r.content = st.cachedContent then .done .ok st else .next st r
  | .guardChangedLoaded =>
    let st := touch r st
    if st.loaded ∧ r.content = st.cachedContent then .done .ok st else .next st r
  | .decode => .next st { r with parsed := decodeDoc r.content }
  | .guardDecodeOk => if r.parsed.isNone then .done .errParse st else .next st r
  | .buildMaps =>
    match build H st.pskLen (r.parsed.getD []) with
    | none => .done .errInvalid st
    | some (lk, c) => .next st { r with newLookup := lk, newCache := c }
  | .setCachedContent => .next { touch r st with cachedContent := r.content } r
  | .setLookup => .next { touch r st with lookup := r.newLookup } r
  | .setCache => .next { touch r st with cache := r.newCache, loaded := true } r
  | .liveReplaceTcpLocal => .next { st with tcp := st.tcp.map (fun _ => r.newLookup) } r
  | .liveReplaceUdpLocal => .next { st with udp := st.udp.map (fun _ => r.newLookup) } r
  | .liveReplaceTcpShared => let st := touch r st; .next { st with tcp := st.tcp.map (fun _ => st.lookup) } r
  | .liveReplaceUdpShared => let st := touch r st; .next { st with udp := st.udp.map (fun _ => st.lookup) } r

/-! ### threads, atomic segments, schedules -/

structure Thread where
  prog : List Step
  regs : Regs
  res : Option Res := none
deriving Repr

/-- run up to and including the next `unlock` (or to the end of the call) -/
def runLocked (H : Key → Hash) : List Step → St → Regs → St × Thread
  | [], st, r => (st, { prog := [], regs := r, res := some .ok })
  | s :: rest, st, r =>
    match exec H s st r with
    | .done res st' => (st', { prog := [], regs := r, res := some res })
    | .next st' r' =>
      if s = .unlock then (st', { prog := rest, regs := r', res := none })
      else runLocked H rest st' r'

/-- one atomic segment of a thread -/
def seg (H : Key → Hash) (st : St) (t : Thread) : St × Thread :=
  match t.prog with
  | [] => (st, t)
  | .lock :: rest => runLocked H (.lock :: rest) st t.regs
  | s :: rest =>
    match exec H s st t.regs with
    | .done res st' => (st', { prog := [], regs := t.regs, res := some res })
    | .next st' r' => (st', { prog := rest, regs := r', res := none })

/-- run a thread alone until it returns (fuel: every segment consumes at least one step) -/
def runThread (H : Key → Hash) : Nat → St → Thread → St × Thread
  | 0, st, t => (st, t)
  | n + 1, st, t =>
    match t.prog with
    | [] => (st, t)
    | _ => let (st', t') := seg H st t; runThread H n st' t'

inductive Op where
  | add (n : Name) (k : Key)
  | update (n : Name) (k : Key)
  | delete (n : Name)
  | reload
deriving Repr, DecidableEq

def noKey : Key := ⟨0, 0⟩

def Op.thread : Op → Thread
  | .add n k => { prog := addProg, regs := { name := n, key := k } }
  | .update n k => { prog := updateProg, regs := { name := n, key := k } }
  | .delete n => { prog := deleteProg, regs := { name := n, key := noKey } }
  | .reload => { prog := loadProg, regs := { name := "", key := noKey } }

/-- sequential call of an API operation -/
def call (H : Key → Hash) (st : St) (op : Op) : St × Res :=
  let t := op.thread
  let (st', t') := runThread H (t.prog.length + 1) st t
  (st', t'.res.getD .ok)

/-- the saver goroutine takes the token (then waits for the cool-down) -/
def dequeue (st : St) : St :=
  if st.pending then { st with pending := false, saverBusy := true } else st

/-- after the cool-down: clear the queue, `saveToFile` under the read lock -/
def save (st : St) : St :=
  if st.saverBusy then
    { st with pending := false, saverBusy := false, file := render st.cache, cachedContent := render st.cache }
  else st

/-- more than the cool-down elapses with no other activity -/
def tick (st : St) : St := save (dequeue st)

/-- events of a sequential history -/
inductive Ev where
  | api (op : Op)
  | edit (d : Doc)     -- somebody else rewrites the store file
  | tick
deriving Repr

def applyEv (H : Key → Hash) (st : St) : Ev → St
  | .api op => (call H st op).1
  | .edit d => { st with file := d }
  | .tick => tick st

def runHist (H : Key → Hash) (st : St) (evs : List Ev) : St := evs.foldl (applyEv H) st

/-- RegisterServer: a fresh ManagedServer, then LoadFromFile -/
def fresh (pskLen : Nat) (hasTcp hasUdp : Bool) (file : Doc) : St :=
  { pskLen := pskLen, loaded := false, cache := [], lookup := [], tcp := if hasTcp then some [] else none,
    udp := if hasUdp then some [] else none, file := file, cachedContent := .empty,
    pending := false, saverBusy := false, fault := false }

structure Sys where
  st : St
  threads : List Thread
deriving Repr

/-- actions of a concurrent run: thread `i` runs its next segment; the saver dequeues; the saver saves;
the store file is edited from outside -/
inductive Act where
  | thread (i : Nat)
  | dequeue
  | save
  | edit (d : Doc)     -- somebody else replaces the store file (atomically, e.g. by rename)
deriving Repr

def Act.isEdit : Act → Bool
  | .edit _ => true
  | _ => false

def Sys.act (H : Key → Hash) (s : Sys) : Act → Sys
  | .thread i =>
    match s.threads[i]? with
    | none => s
    | some t => let (st', t') := seg H s.st t; { st := st', threads := s.threads.set i t' }
  | .dequeue => { s with st := dequeue s.st }
  | .save => { s with st := save s.st }
  | .edit d => { s with st := { s.st with file := d } }

def Sys.run (H : Key → Hash) (s : Sys) (as : List Act) : Sys := as.foldl (Sys.act H) s

def Sys.start (st : St) (ops : List Op) : Sys := { st := st, threads := ops.map Op.thread }

def Sys.quiescent (s : Sys) : Prop := (∀ t ∈ s.threads, t.prog = []) ∧ s.st.pending = false ∧ s.st.saverBusy = false

/-! ### segment boundaries of a program (used to state what a thread can be about to do) -/

def afterUnlock : List Step → List Step
  | [] => []
  | s :: rest => if s = .unlock then rest else afterUnlock rest

/-- the rest of a program after its first atomic segment (when no guard ended the call) -/
def dropSeg : List Step → List Step
  | [] => []
  | .lock :: rest => afterUnlock rest
  | _ :: rest => rest

/-- a program and everything that can remain of it at a segment boundary -/
def cutsOf : Nat → List Step → List (List Step)
  | 0, p => [p]
  | n + 1, p => p :: (if p = [] then [] else cutsOf n (dropSeg p))

def progs : List (List Step) := [addProg, updateProg, deleteProg, loadProg]

def allCuts : List (List Step) := progs.flatMap (fun p => cutsOf p.length p)

/-! ### what a client observes -/

/-- identity-header path of HandleStream / NewUnpacker: look the presented key's hash up in the live
map; the session is keyed with the PSK *stored in the entry*, so the first AEAD open succeeds only if
that PSK is the client's. Result: the username the session is attributed to. -/
def handshake (H : Key → Hash) (live : ULM) (k : Key) : Option Name :=
  match find live (H k) with
  | none => none
  | some (n, k') => if k' = k then some n else none

/-- every way `HandleStream` can return on a multi-user server -/
inductive HsResult where
  | request (user : Name)    -- authenticated: a connection request, attributed to `user`
  | fallback (user : Name)   -- not authenticated, forwarded to the unsafe fallback address; `user` = the Username it carries
  | refused                  -- not authenticated, no fallback address: an error
deriving DecidableEq, Repr

/-- `HandleStream` for a connection whose identity header carries hash `h` and whose fixed-length header is
sealed under key `k` (a genuine client has `h = H k`; anybody holding the server iPSK can put any user's
hash there). The username is set as soon as the lookup succeeds, before the header is opened; what the
fallback branch hands back depends on the regenerated fact `fallbackFreshRequest`. -/
def handleStream (H : Key → Hash) (hasFallback : Bool) (live : ULM) (h : Hash) (k : Key) : HsResult :=
  match find live h with
  | none => if hasFallback then .fallback "" else .refused
  | some (n, k') =>
    if k' = k ∧ H k = h then .request n
    else if hasFallback then .fallback (if fallbackFreshRequest then "" else n)
    else .refused

/-- `Credentials()` -/
def listed (st : St) : List Entry := canon st.cache

end SSV.Cred
