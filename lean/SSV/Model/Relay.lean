import SSV.Gen.C11
/-
Model of the UDP relays' session bookkeeping (C11):
  service/udp_nat.go, service/udp_session.go (and their mmsg twins)   — table, receive loop, uplink, downlink
  direct/udp.go, direct/packet.go                                     — DirectPacketClientPacker and its one-entry resolution cache

A transition system. One `Act` = one atomic step of one goroutine; a run is any list of
actions (= any interleaving of any number of sessions). What is an INPUT of the model:
  * the result of every unpack (`none` = fails to parse / authenticate),
  * the resolver's answers,
  * `Config.packerOf`: which client-packer INSTANCE the uplink of session incarnation `sid` uses
    (decided by `zerocopy.UDPClient.NewSession`; for `direct` the Gen fact `packerShared`),
  * `Config.insertFirst`: whether the table insert precedes the first successful unpack (Gen fact, `false` in the code).
Ghost state (never read by a step): `recvd`, `sent`, `replies`, `answers`.
-/
namespace SSV.Relay

abbrev Key := Nat      -- client address (NAT relays) or client session id (ss2022)
abbrev Addr := Nat     -- a client's socket address
abbrev IP := Nat
abbrev Dom := Nat      -- a domain name
abbrev Payload := Nat  -- identity of a payload

inductive Target where
  | ip (a : IP) (port : Nat)
  | dom (d : Dom) (port : Nat)
deriving Repr, DecidableEq

def Target.port : Target → Nat
  | .ip _ p => p
  | .dom _ p => p

/-- an unpacked client packet: target named inside + payload -/
structure Pkt where
  target : Target
  payload : Payload
deriving Repr, DecidableEq

/-- `DirectPacketClientPacker.cachedDomain / cachedDomainIP` -/
structure Cache where
  dom : Option Dom
  ip : IP
deriving Repr, DecidableEq

def Cache.empty : Cache := ⟨none, 0⟩

/-- program counter of a session's uplink goroutine inside `PackInPlace` -/
inductive UpPc where
  | idle
  /-- `p.cachedDomain != d` was true; inside `targetAddr.ResolveIP` -/
  | resolving (q : Pkt) (d : Dom)
  /-- after `p.cachedDomain = d`, before `p.cachedDomainIP = ip` -/
  | storedDomain (q : Pkt) (ip : IP)
  /-- `updateDomainIPCache` returned (hit or miss); before the read of `p.cachedDomainIP` -/
  | storedIP (q : Pkt)
deriving Repr, DecidableEq

/-- one session incarnation (table entry + its goroutines) -/
structure Sess where
  key : Key
  queue : List Pkt          -- natConnSendCh
  clientAddr : Addr         -- clientAddrInfo (ss2022) / the key itself (NAT): where the downlink sends
  started : Bool            -- initialiser done: uplink and downlink goroutines run
  closed : Bool             -- deferred cleanup ran: channel closed, table entry deleted (uplink still drains)
  pc : UpPc
deriving Repr, DecidableEq

/-- a datagram put on the NAT socket by an uplink -/
structure Sent where
  sid : Nat
  pkt : Pkt     -- ghost: the queued packet it was made from
  ip : IP
  port : Nat
deriving Repr, DecidableEq

/-- a datagram written to the server socket by a downlink -/
structure Reply where
  sid : Nat
  to : Addr
  src : Option (IP × Nat)   -- source attached by the server packer
  fromSrc : IP × Nat        -- ghost: the payload source the client unpacker reported
  payload : Payload
  stamp : Nat               -- ghost: `recvd.length` when it was sent
deriving Repr, DecidableEq

/-- what finally happened to a packet that was accepted into a session's send queue -/
inductive Fate where
  | sent (ip : IP) (port : Nat)   -- written to the NAT socket
  | resolveFailed                 -- `PackInPlace` failed: the resolver returned an error (uplink: `putQueuedPacket; continue`)
  | packFailed                    -- `PackInPlace` failed otherwise (payload too big for the client's path)
  | notStarted                    -- the session's initialiser failed: cleanup drains the channel (`!sendChClean`)
deriving Repr, DecidableEq

structure Config where
  cap : Nat                 -- sendChannelCapacity
  byAddr : Bool             -- NAT relay (key = client address) vs session relay (key = csid)
  carriesSource : Bool      -- the server packer attaches the payload source (none, socks5, ss2022); `false` for the direct tunnel
  insertFirst : Bool        -- table insert BEFORE the first successful unpack (the code: `false`)
  upstream : Option (IP × Nat) -- `some proxy`: the client protocol sends everything to an upstream proxy (none, socks5,
                            -- ss2022; the address is fixed per session by NewSession) with the target inside; `none`: direct
  packerOf : Nat → Nat      -- client packer instance used by session incarnation `sid`

structure State where
  table : Key → Option Nat        -- key ↦ session incarnation
  sess : Nat → Option Sess
  next : Nat                      -- next incarnation id
  cache : Nat → Cache             -- packer instance ↦ its cache fields
  recvd : List (Nat × Addr × Pkt) -- ghost: (sid, source address, packet) accepted by the receive loop
  sent : List Sent                -- ghost
  replies : List Reply            -- ghost
  answers : List (Dom × IP)       -- ghost: answers the resolver has given
  enq : List (Nat × Pkt)          -- ghost: packets accepted INTO a session's send queue, in order
  qdrop : List (Nat × Pkt)        -- ghost: packets dropped because the send queue was full (`select … default`)
  fate : List (Nat × Pkt × Fate)  -- ghost: queued packets that left the uplink (sent or dropped), in order

def State.init : State :=
  { table := fun _ => none, sess := fun _ => none, next := 0, cache := fun _ => Cache.empty,
    recvd := [], sent := [], replies := [], answers := [],
    enq := [], qdrop := [], fate := [] }

inductive Act where
  /-- receive loop: a datagram from `src`, dispatched to `key`; `res` = result of the server unpacker -/
  | recv (key : Key) (src : Addr) (res : Option Pkt)
  | initOk (sid : Nat)
  | initFail (sid : Nat)
  /-- uplink: dequeue + start of `PackInPlace` (IP target: pack and send at once) -/
  | take (sid : Nat)
  /-- uplink: dequeue; `PackInPlace` fails for a reason other than name resolution (e.g. `ErrPayloadTooBig`): dropped -/
  | packErr (sid : Nat)
  /-- `ResolveIP` returns; on success also `p.cachedDomain = d` -/
  | resolved (sid : Nat) (ans : Option IP)
  /-- `p.cachedDomainIP = ip` -/
  | storeIP (sid : Nat)
  /-- `destAddrPort = AddrPortFrom(p.cachedDomainIP, port)`; `WriteToUDPAddrPort` -/
  | readSend (sid : Nat)
  /-- downlink: a datagram on the NAT socket; `res` = result of the client unpacker (source, payload) -/
  | down (sid : Nat) (res : Option ((IP × Nat) × Payload))
  /-- downlink exits (NAT timeout / Stop): deferred cleanup closes the channel and deletes the entry -/
  | evict (sid : Nat)
deriving Repr, DecidableEq

def updF {α : Type} (f : Nat → α) (i : Nat) (v : α) : Nat → α := fun j => if j = i then v else f j

@[simp] theorem updF_same {α : Type} (f : Nat → α) (i : Nat) (v : α) : updF f i v i = v := by simp [updF]
theorem updF_other {α : Type} (f : Nat → α) (i j : Nat) (v : α) (h : j ≠ i) : updF f i v j = f j := by simp [updF, h]

def setSess (st : State) (sid : Nat) (s : Sess) : State := { st with sess := updF st.sess sid (some s) }

/-- the non-blocking `select { case ch <- p: default: }` -/
def enqueue (cfg : Config) (s : Sess) (q : Pkt) : Sess :=
  if s.queue.length < cfg.cap then { s with queue := s.queue ++ [q] } else s

def newSess (key : Key) (src : Addr) : Sess :=
  { key := key, queue := [], clientAddr := src, started := false, closed := false, pc := .idle }

/-- the receive loop's body for one datagram (all under `s.mu`) -/
def recv (cfg : Config) (st : State) (key : Key) (src : Addr) (res : Option Pkt) : State :=
  if cfg.byAddr && key != src then st else
  match st.table key with
  | some sid =>
    match st.sess sid, res with
    | some s, some q =>
      -- existing entry, unpacked: publish the (possibly new) client address, enqueue
      let s := { s with clientAddr := src }
      { setSess st sid (enqueue cfg s q) with
          recvd := st.recvd ++ [(sid, src, q)],
          enq := if s.queue.length < cfg.cap then st.enq ++ [(sid, q)] else st.enq,
          qdrop := if s.queue.length < cfg.cap then st.qdrop else st.qdrop ++ [(sid, q)] }
    | _, _ => st
  | none =>
    match res with
    | some q =>
      let sid := st.next
      { st with table := updF st.table key (some sid),
                sess := updF st.sess sid (some (enqueue cfg (newSess key src) q)),
                next := sid + 1,
                recvd := st.recvd ++ [(sid, src, q)],
                enq := if 0 < cfg.cap then st.enq ++ [(sid, q)] else st.enq,
                qdrop := if 0 < cfg.cap then st.qdrop else st.qdrop ++ [(sid, q)] }
    | none =>
      if cfg.insertFirst then
        let sid := st.next
        { st with table := updF st.table key (some sid),
                  sess := updF st.sess sid (some (newSess key src)),
                  next := sid + 1 }
      else st

def initOk (st : State) (sid : Nat) : State :=
  match st.sess sid with
  | some s => if !s.started && !s.closed then setSess st sid { s with started := true } else st
  | none => st

def closeSess (st : State) (sid : Nat) (s : Sess) : State :=
  { setSess st sid { s with closed := true } with
    table := fun k => if st.table k = some sid then none else st.table k }

def initFail (st : State) (sid : Nat) : State :=
  match st.sess sid with
  | some s =>
    if !s.started && !s.closed then
      { closeSess st sid { s with queue := [] } with fate := st.fate ++ s.queue.map (fun q => (sid, q, Fate.notStarted)) }
    else st
  | none => st

def evict (st : State) (sid : Nat) : State :=
  match st.sess sid with
  | some s => if s.started && !s.closed then closeSess st sid s else st
  | none => st

def take (cfg : Config) (st : State) (sid : Nat) : State :=
  match st.sess sid with
  | some s =>
    if s.started && s.pc == .idle then
      match s.queue with
      | [] => st
      | q :: rest =>
        match cfg.upstream with
        | some (a, p) =>
          -- ShadowsocksNone / Socks5 / ShadowPacket client packers: the packet (target inside) goes to the proxy
          { setSess st sid { s with queue := rest } with
              sent := st.sent ++ [⟨sid, q, a, p⟩],
              fate := st.fate ++ [(sid, q, .sent a p)] }
        | none =>
        match q.target with
        | .ip a p =>
          { setSess st sid { s with queue := rest } with
              sent := st.sent ++ [⟨sid, q, a, p⟩],
              fate := st.fate ++ [(sid, q, .sent a p)] }
        | .dom d _ =>
          if (st.cache (cfg.packerOf sid)).dom == some d then
            setSess st sid { s with queue := rest, pc := .storedIP q }
          else
            setSess st sid { s with queue := rest, pc := .resolving q d }
    else st
  | none => st

def packErr (st : State) (sid : Nat) : State :=
  match st.sess sid with
  | some s =>
    if s.started && s.pc == .idle then
      match s.queue with
      | [] => st
      | q :: rest => { setSess st sid { s with queue := rest } with fate := st.fate ++ [(sid, q, .packFailed)] }
    else st
  | none => st

def resolved (cfg : Config) (st : State) (sid : Nat) (ans : Option IP) : State :=
  match st.sess sid with
  | some s =>
    match s.pc, ans with
    | .resolving q d, some ip =>
      let p := cfg.packerOf sid
      { setSess st sid { s with pc := .storedDomain q ip } with
        cache := updF st.cache p { st.cache p with dom := some d },
        answers := st.answers ++ [(d, ip)] }
    | .resolving q _, none =>
      { setSess st sid { s with pc := .idle } with fate := st.fate ++ [(sid, q, .resolveFailed)] }
    | _, _ => st
  | none => st

def storeIP (cfg : Config) (st : State) (sid : Nat) : State :=
  match st.sess sid with
  | some s =>
    match s.pc with
    | .storedDomain q ip =>
      let p := cfg.packerOf sid
      { setSess st sid { s with pc := .storedIP q } with
        cache := updF st.cache p { st.cache p with ip := ip } }
    | _ => st
  | none => st

def readSend (cfg : Config) (st : State) (sid : Nat) : State :=
  match st.sess sid with
  | some s =>
    match s.pc with
    | .storedIP q =>
      { setSess st sid { s with pc := .idle } with
        sent := st.sent ++ [⟨sid, q, (st.cache (cfg.packerOf sid)).ip, q.target.port⟩],
        fate := st.fate ++ [(sid, q, .sent (st.cache (cfg.packerOf sid)).ip q.target.port)] }
    | _ => st
  | none => st

def down (cfg : Config) (st : State) (sid : Nat) (res : Option ((IP × Nat) × Payload)) : State :=
  match st.sess sid, res with
  | some s, some (src, pl) =>
    if s.started && !s.closed then
      { st with replies := st.replies ++
          [⟨sid, s.clientAddr, if cfg.carriesSource then some src else none, src, pl, st.recvd.length⟩] }
    else st
  | _, _ => st

def step (cfg : Config) (st : State) : Act → State
  | .recv k a r => recv cfg st k a r
  | .initOk sid => initOk st sid
  | .initFail sid => initFail st sid
  | .take sid => take cfg st sid
  | .packErr sid => packErr st sid
  | .resolved sid a => resolved cfg st sid a
  | .storeIP sid => storeIP cfg st sid
  | .readSend sid => readSend cfg st sid
  | .down sid r => down cfg st sid r
  | .evict sid => evict st sid

def run (cfg : Config) (st : State) (acts : List Act) : State := acts.foldl (step cfg) st

/-- the packer assignment the code implements: one shared instance, or one per session incarnation -/
def packerOfShared (shared : Bool) : Nat → Nat := fun sid => if shared then 0 else sid + 1

/-- the source address of the most recent packet accepted for `sid` -/
def lastAddr (log : List (Nat × Addr × Pkt)) (sid : Nat) : Option Addr :=
  log.foldl (fun acc e => if e.1 = sid then some e.2.1 else acc) none

/-- is the destination of a sent datagram the one its packet named? -/
def destOK (upstream : Option (IP × Nat)) (answers : List (Dom × IP)) (w : Sent) : Prop :=
  match upstream with
  | some (a, p) => w.ip = a ∧ w.port = p      -- to the upstream proxy, with `w.pkt` (target + payload) inside
  | none =>
    match w.pkt.target with
    | .ip a p => w.ip = a ∧ w.port = p
    | .dom d p => (d, w.ip) ∈ answers ∧ w.port = p

instance (upstream : Option (IP × Nat)) (answers : List (Dom × IP)) (w : Sent) : Decidable (destOK upstream answers w) := by
  unfold destOK
  cases upstream with
  | some ap => exact inferInstance
  | none => cases w.pkt.target <;> exact inferInstance

/-! ### What the source says now (regenerated facts, `SSV.Gen.C11`) -/

def idxOf? (p : List String) (e : String) : Option Nat :=
  let i := p.idxOf e
  if i < p.length then some i else none

/-- the table insert comes after the `continue` taken when the first unpack fails -/
def insertAfterUnpack (p : List String) : Bool :=
  match idxOf? p "unpack", idxOf? p "unpackfail-continue", idxOf? p "insert" with
  | some u, some f, some i => u < f && f < i && p.count "insert" == 1 && p.count "unpack" == 1
  | _, _, _ => false

/-- every `guarded` event happens while the mutex is held; lock/unlock alternate -/
def underMutex (guarded : List String) (p : List String) : Bool :=
  let r := p.foldl (fun (acc : Bool × Bool) e =>
    if e == "lock" then (true, acc.2 && !acc.1)
    else if e == "unlock" then (false, acc.2 && acc.1)
    else (acc.1, acc.2 && (!(guarded.contains e) || acc.1))) (false, true)
  r.2 && !r.1

def codeRecvOK : Bool :=
  SSV.Gen.C11.recvProgs.length == 4 &&
  SSV.Gen.C11.recvProgs.all (fun p => insertAfterUnpack p.2 && underMutex ["lookup", "insert", "enqueue"] p.2 && p.2.contains "enqueue")

def codeCleanupOK : Bool :=
  SSV.Gen.C11.cleanupProgs.length == 4 &&
  SSV.Gen.C11.cleanupProgs.all (fun p => underMutex ["close", "delete"] p.2 && p.2.contains "close" && p.2.contains "delete")

/-- the configuration the current source implements (protocol parameters stay free) -/
def codeConfig (cap : Nat) (byAddr carriesSource : Bool) (upstream : Option (IP × Nat) := none) : Config :=
  { cap := cap, byAddr := byAddr, carriesSource := carriesSource,
    insertFirst := !codeRecvOK, upstream := upstream,
    packerOf := packerOfShared SSV.Gen.C11.packerShared }


/-! ### recvmmsg/sendmmsg relay loops: index bookkeeping between received batch, kept subset and sent vector
(service/udp_nat_mmsg.go, service/udp_session_mmsg.go: relayNatConnToServerConnSendmmsg, relayServerConnToNatConnSendmmsg) -/

/-- which variable indexes the send-side vectors (`siovec[·]`, `iovec[·]`, `namevec[·]`, …) in the keep path -/
inductive FillIdx where
  | counter     -- `ns` / `count`: number of messages kept so far
  | recvIndex   -- `i`: position of the message in the received batch
deriving Repr, DecidableEq

/-- the per-message loop of one batch. `rx`: the received (dequeued) messages in order, each re-packed
(`some x` = its own header + payload, ready to send) or dropped (`none`: truncated, unparsable, too big, pack error);
`i` = index in the batch, `ns` = kept so far, `slots` = the send vector, still holding what EARLIER batches put there. -/
def batchLoop {α : Type} (fill : FillIdx) : List (Option α) → Nat → Nat → List α → Nat × List α
  | [], _, ns, slots => (ns, slots)
  | none :: rest, i, ns, slots => batchLoop fill rest (i + 1) ns slots
  | some x :: rest, i, ns, slots =>
    batchLoop fill rest (i + 1) (ns + 1) (slots.set (match fill with | .counter => ns | .recvIndex => i) x)

/-- one batch: (`var ns int`; the loop; `WriteMsgs(smsgvec[:ns])`) ↦ (send vector afterwards, messages handed to sendmmsg) -/
def batchSend {α : Type} (fill : FillIdx) (slots : List α) (rx : List (Option α)) : List α × List α :=
  let r := batchLoop fill rx 0 0 slots
  (r.2, r.2.take r.1)

def kvAll (kv : List (String × String)) (k : String) : List String := (kv.filter (·.1 == k)).map (·.2)

/-- the fill mode a regenerated batch program uses (`none`: an index expression that is neither) -/
def progFill (kv : List (String × String)) : Option FillIdx :=
  let counter := (kvAll kv "counter").headD ""
  let iter := (kvAll kv "iter").headD ""
  let fills := kvAll kv "fill"
  if fills.isEmpty || counter == "" then none
  else if fills.all (· == counter) then some .counter
  else if iter != "" && fills.all (· == iter) then some .recvIndex
  else none

/-- everything else the batch theorem relies on: the counter is declared inside the batch loop, it is incremented
once, after the fills; the slice sent ends at the counter; message `i` of the sent vector points at slot `i` of the
iovec / name vectors; a downlink reads message `i` from buffer `i`. -/
def progShapeOK (kv : List (String × String)) : Bool :=
  let counter := (kvAll kv "counter").headD ""
  let iter := (kvAll kv "iter").headD ""
  let keep := kv.filter (fun e => e.1 == "fill" || e.1 == "inc")
  counter != "" &&
  kvAll kv "counterScope" == ["batch"] &&
  keep.getLast? == some ("inc", counter) && keep.dropLast.all (·.1 == "fill") && !keep.dropLast.isEmpty &&
  kvAll kv "sendHi" == [counter] &&
  (kvAll kv "badlink").isEmpty && !(kvAll kv "link").isEmpty &&
  (kvAll kv "buf").all (· == iter)

def codeBatchOK : Bool :=
  SSV.Gen.C11.batchProgs.length == 4 &&
  SSV.Gen.C11.batchProgs.all (fun p => progFill p.2 == some .counter && progShapeOK p.2)


/-! ### the documented ways a client datagram's journey ends (regenerated `dropSites`) -/

/-- In every uplink loop a dequeued packet is given back in exactly two places: after `PackInPlace` failed
(`Fate.resolveFailed` / `Fate.packFailed`) and after the write (`Fate.sent`). In every receive loop a received
datagram is given back only when it was rejected before the enqueue (`garbage_is_noop`), when the send queue is full
(`qdrop`), by the clean-up of a session that never started (`Fate.notStarted`), or as an unused receive buffer. -/
def codeDropRulesOK : Bool :=
  SSV.Gen.C11.dropSites.length == 8 &&
  ["nat-uplink-generic", "nat-uplink-mmsg", "session-uplink-generic", "session-uplink-mmsg"].all
    (fun l => SSV.Gen.C11.dropSites.lookup l == some ["pack-error", "after-send"]) &&
  ["nat-recv-generic", "nat-recv-mmsg", "session-recv-generic", "session-recv-mmsg"].all
    (fun l => match SSV.Gen.C11.dropSites.lookup l with
      | some cls => cls.count "queue-full" == 1 && cls.count "not-started" == 1 &&
          cls.all (fun c => ["rejected", "queue-full", "not-started", "unused-buffer"].contains c)
      | none => false)

end SSV.Relay
