import SSV.Model.Parsers
/-
C06 (gap round): `dns.resultBuilder.parseMsg`'s own logic over the trace of `dnsmessage.Parser` calls it makes
(`Start`, `SkipAllQuestions`, `AnswerHeader` / `AResource` / `AAAAResource` / `SkipAnswer` …, `AuthorityHeader` / `SkipAuthority` …),
each call a parameter that returns ok or err; and the HTTP proxy forwarder's own indexing (`Location` handling of
`serverForwardResponses`). Sources: dns/dns.go parseMsg, httpproxy/server.go serverForwardResponses.
-/
namespace SSV.Parsers
open SSV SSV.Go SSV.Outcome

structure DnsHeader where
  id : Nat
  response : Bool
  recursionAvailable : Bool
  truncated : Bool
  rcode : Nat
deriving Repr, DecidableEq

/-- one iteration of the answer loop as the library answers it -/
inductive DnsAnswer where
  | headerErr                                   -- AnswerHeader() failed (not ErrSectionDone)
  | a (ttl : Nat) (body : Option Bytes)         -- TypeA: AResource() ok (4 bytes) / err
  | aaaa (ttl : Nat) (body : Option Bytes)      -- TypeAAAA
  | other (ttl : Nat) (skipOk : Bool)           -- any other type: SkipAnswer() ok / err
deriving Repr, DecidableEq

/-- one iteration of the authority loop -/
inductive DnsAuthority where
  | headerErr
  | rr (isSOA : Bool) (ttl : Nat) (skipOk : Bool)
deriving Repr, DecidableEq

structure DnsTrace where
  start : Option DnsHeader                      -- parser.Start(msg)
  questionsOk : Bool                            -- SkipAllQuestions()
  answers : List DnsAnswer                      -- until ErrSectionDone
  authorities : List DnsAuthority

structure ResultBuilder where
  a : List Bytes
  aaaa : List Bytes
  expiresAt : Option Int                        -- none = zero time
  v4done : Bool
  v6done : Bool
deriving Repr, DecidableEq

def minExpiry (cur : Option Int) (t : Int) : Option Int :=
  match cur with
  | Option.none => some t
  | some c => if c > t then some t else some c

/-- the answer loop -/
def dnsAnswers (now : Int) : ResultBuilder → List DnsAnswer → R ResultBuilder
  | r, [] => .ok r
  | r, x :: xs =>
    match x with
    | .headerErr => .err .lookup
    | .a ttl body =>
      let r := { r with expiresAt := minExpiry r.expiresAt (now + ttl) }
      match body with
      | Option.none => .err .lookup
      | some ip => dnsAnswers now { r with a := r.a ++ [ip] } xs
    | .aaaa ttl body =>
      let r := { r with expiresAt := minExpiry r.expiresAt (now + ttl) }
      match body with
      | Option.none => .err .lookup
      | some ip => dnsAnswers now { r with aaaa := r.aaaa ++ [ip] } xs
    | .other ttl skipOk =>
      let r := { r with expiresAt := minExpiry r.expiresAt (now + ttl) }
      if skipOk then dnsAnswers now r xs else .err .lookup

/-- the authority loop (only entered when no expiry was set) -/
def dnsAuthorities (now : Int) : ResultBuilder → List DnsAuthority → R ResultBuilder
  | r, [] => .ok r
  | r, x :: xs =>
    match x with
    | .headerErr => .err .lookup
    | .rr isSOA ttl skipOk =>
      let r := if isSOA then { r with expiresAt := some (now + ttl) } else r
      if skipOk then dnsAuthorities now r xs else .err .lookup

/-- `(*resultBuilder).parseMsg(msg, isUDP)`; `failTTL` = rcodeFailureCachingDuration in seconds -/
def dnsParseMsg (now : Int) (failTTL : Int) (isUDP : Bool) (r : ResultBuilder) (t : DnsTrace) : R (ResultBuilder × DnsHeader) :=
  match t.start with
  | Option.none => .err .lookup
  | some h =>
    if h.id = 4 ∧ r.v4done then .ok (r, h)
    else if h.id = 6 ∧ r.v6done then .ok (r, h)
    else if h.id ≠ 4 ∧ h.id ≠ 6 then .err .lookup
    else
      let r := if h.id = 4 then { r with a := [] } else { r with aaaa := [] }      -- r.a = r.a[:0]
      if !h.response then .err .lookup
      else if !h.recursionAvailable then .err .lookup
      else if h.rcode ≠ 0 ∧ h.rcode ≠ 3 ∧ ¬ (h.rcode = 1 ∨ h.rcode = 2 ∨ h.rcode = 4 ∨ h.rcode = 5) then .err .lookup
      else
        let r := if h.rcode = 1 ∨ h.rcode = 2 ∨ h.rcode = 4 ∨ h.rcode = 5 then { r with expiresAt := some (now + failTTL) } else r
        if !t.questionsOk then .err .lookup else do
        let r ← dnsAnswers now r t.answers
        let r ← (if r.expiresAt.isNone then dnsAuthorities now r t.authorities else pure r)
        let r := if !h.truncated || !isUDP then (if h.id = 4 then { r with v4done := true } else { r with v6done := true }) else r
        pure (r, h)

/-- `serverForwardResponses`: the 301/302/307 `Location` check — `location[0]` behind `len(location) != 1`;
`urlHost` = `url.Parse(...).Host` (none = parse error). Returns whether `Connection: close` is forced. -/
def locationForcesClose (location : List Bytes) (urlHost : Bytes → Option Bytes) (reqHost : Bytes) : R Bool :=
  if location.length ≠ 1 then .ok false else
  match location[0]? with
  | Option.none => .panic                                  -- location[0]
  | some l =>
    match urlHost l with
    | Option.none => .ok false
    | some h => .ok (h != reqHost && h != [])

end SSV.Parsers
