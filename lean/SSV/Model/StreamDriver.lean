import SSV.Model.StreamToy
/-
Line protocol of the stream model (shared by the drivers ssv_c01 and ssv_c02), instantiated with
the toy crypto. Every line is `<session> <command> args…`; see harness/internal/sstream for the
other end. Data fields: `-` (empty), `h<hex>`, `p<seed>.<len>` (pattern bytes), byte strings are
answered as `<len>:<fnv64>`.
-/
namespace SSV.Stream.Drv
open SSV SSV.Stream

/-! ### parsing / printing -/

def hexAcc : List Char → Bytes → Option Bytes
  | [], acc => some acc.reverse
  | [_], _ => none
  | a :: b :: rest, acc =>
    match hexVal? a, hexVal? b with
    | some x, some y => hexAcc rest (UInt8.ofNat (x * 16 + y) :: acc)
    | _, _ => none

def patAcc : Nat → UInt64 → Bytes → Bytes
  | 0, _, acc => acc.reverse
  | n + 1, x, acc =>
    let x' := x * 6364136223846793005 + 1442695040888963407
    patAcc n x' ((x' >>> 56).toUInt8 :: acc)

def parseData (s : String) : Option Bytes :=
  if s == "-" then some []
  else match s.toList with
    | 'h' :: rest => hexAcc rest []
    | 'p' :: rest =>
      match (String.ofList rest).splitOn "." with
      | [a, b] => match a.toNat?, b.toNat? with
        | some seed, some len => some (patAcc len (UInt64.ofNat seed) [])
        | _, _ => none
      | _ => none
    | _ => none

def parseCsvNat (s : String) : Option (List Nat) :=
  if s == "-" then some [] else (s.splitOn ",").mapM (·.toNat?)

def parseCsvData (s : String) : Option (List Bytes) :=
  if s == "-" then some [] else (s.splitOn ",").mapM parseData

def hexNat (n : Nat) : String := String.ofList (Nat.toDigits 16 n)

def sum (bs : Bytes) : String := s!"{bs.length}:{hexNat (Toy.fnv 14695981039346656037 bs).toNat}"

def sums (l : List Bytes) : String := if l.isEmpty then "-" else ",".intercalate (l.map sum)

/-- a source script: `100,0,50e,20x` = results of 100, 0, 50 (together with `io.EOF`) and 20 (together
with another error) bytes cut from `d`; what is left of `d` is a last result without error -/
def parseItems (spec : String) (d : Bytes) : Option Src :=
  let rec go : List String → Bytes → Option Src
    | [], d => some (if d.isEmpty then [] else [⟨d, none⟩])
    | t :: ts, d =>
      let (num, e) : String × Option Err :=
        if t.endsWith "e" then (t.dropRight 1, some .eof)
        else if t.endsWith "x" then (t.dropRight 1, some .srcErr) else (t, none)
      match num.toNat? with
      | none => none
      | some n => (go ts (d.drop n)).map (fun r => ⟨d.take n, e⟩ :: r)
  if spec == "-" then go [] d else go (spec.splitOn ",") d

/-- a sink script: `70000,100e` = a `Write` that takes up to 70000 bytes without error, then one that
takes 100 bytes and returns an error -/
def parseSink (spec : String) : Option (List SinkRes) :=
  if spec == "-" then some [] else
  (spec.splitOn ",").mapM fun t =>
    let (num, e) := if t.endsWith "e" then (t.dropRight 1, true) else (t, false)
    num.toNat?.map (fun n => ⟨n, e⟩)

def retName : Option Err → String
  | none => "ok"
  | some e => e.name

/-- cut `d` into pieces of the given sizes (the last piece takes the rest) -/
def cutBy : List Nat → Bytes → List Bytes
  | [], d => if d.isEmpty then [] else [d]
  | n :: ns, d => d.take n :: cutBy ns (d.drop n)

/-! ### state -/

structure Sess where
  ccfg : ClientCfg := ⟨[], [], [], [], false⟩
  scfg : ServerCfg := ⟨[], [], [], [], [], false, false⟩
  /-- segments written client → server, server → client -/
  c2s : List Bytes := []
  s2c : List Bytes := []
  cw : Option Writer := none
  reqSalt : Bytes := []
  sw : Option SWriter := none
  sr : Option SReader := none
  /-- the request `HandleStream` returned (address, user) -/
  req : Option (Addr × String) := none
  cr : Option CReader := none

abbrev St := Array Sess

def init : St := Array.replicate 4 {}

def C := Toy.crypto

def showOut : ROut → String
  | .data bs => s!"data {sum bs}"
  | .fail e => s!"fail {e.name}"
  | .copied ps e => s!"copied {match e with | none => "ok" | some e => e.name} {sum ps.flatten} {sums ps}"

def parseUsers (s : String) : Option (List User) :=
  if s == "-" then some [] else
  (s.splitOn ",").mapM fun u => match u.splitOn ":" with
    | [n, k] => (parseData k).map (fun k => ⟨n, k⟩)
    | _ => none

def parseAddrArg (kind a port : String) : Option Addr := do
  let bs ← parseData a
  let p ← port.toNat?
  match kind with
  | "4" => some (.v4 bs p)
  | "6" => some (.v6 bs p)
  | "d" => some (.domain bs p)
  | _ => none

def parseBool (s : String) : Option Bool := if s == "1" then some true else if s == "0" then some false else none

def parseResp (salt ts capW capBig : String) : Option RespChoice := do
  pure ⟨← parseData salt, ← ts.toNat?, ← capW.toNat?, ← capBig.toNat?⟩

/-- tamper operators on a flat wire (positions are byte offsets; they agree with the real wire) -/
def tamper (w : Bytes) (other : Bytes) : List String → Option Bytes
  | ["flip", off, bit] => do
    let o ← off.toNat?; let b ← bit.toNat?
    if o < w.length then some (w.take o ++ [(w.getD o 0) ^^^ UInt8.ofNat (2 ^ b)] ++ w.drop (o + 1)) else none
  | ["cut", off] => do let o ← off.toNat?; some (w.take o)
  | ["del", off, len] => do let o ← off.toNat?; let l ← len.toNat?; some (w.take o ++ w.drop (o + l))
  | ["dup", off, len] => do
    let o ← off.toNat?; let l ← len.toNat?
    some (w.take (o + l) ++ (w.drop o).take l ++ w.drop (o + l))
  | ["swap", off, l1, l2] => do
    let o ← off.toNat?; let a ← l1.toNat?; let b ← l2.toNat?
    some (w.take o ++ (w.drop (o + a)).take b ++ (w.drop o).take a ++ w.drop (o + a + b))
  | ["splice", off, ooff] => do
    let o ← off.toNat?; let oo ← ooff.toNat?
    some (w.take o ++ other.drop oo)
  | ["splice", off, ooff, olen] => do
    let o ← off.toNat?; let oo ← ooff.toNat?; let ol ← olen.toNat?
    some (w.take o ++ (other.drop oo).take ol ++ w.drop (o + ol))
  | _ => none

def stepSess (all : St) (s : Sess) : List String → Option (Sess × String)
  | ["cfg", psk, ipsks, spsk, sipsk, users, reqp, respp, seg, fb] => do
    let psk ← parseData psk; let ipsks ← parseCsvData ipsks; let spsk ← parseData spsk; let sipsk ← parseData sipsk
    let users ← parseUsers users; let reqp ← parseData reqp; let respp ← parseData respp
    let seg ← parseBool seg; let fb ← parseBool fb
    some ({ ccfg := ⟨psk, ipsks, reqp, respp, seg⟩, scfg := ⟨spsk, sipsk, users, reqp, respp, seg, fb⟩ }, "ok")
  | ["dial", kind, a, port, payload, salt, rnd, ts] => do
    let t ← parseAddrArg kind a port; let p ← parseData payload; let salt ← parseData salt
    let rnd ← rnd.toNat?; let ts ← ts.toNat?
    let d := dial C s.ccfg ⟨salt, rnd, ts⟩ t p
    let ok := t.Valid && RndOk p.length rnd
    some ({ s with c2s := d.segs, cw := some d.writer, reqSalt := d.reqSalt },
      s!"{if ok then "ok" else "bad-choice"} inreq={d.inReq.length} armed={if d.ctxArmed then 1 else 0} segs {sums d.segs}")
  | ["cwrite", d] => do
    let d ← parseData d; let w ← s.cw
    let (segs, w') := w.emit C (writeChunks d)
    some ({ s with c2s := s.c2s ++ segs, cw := some w' }, s!"segs {sums segs}")
  | ["creadfrom", d, items] => do
    let d ← parseData d; let src ← parseItems items d; let w ← s.cw
    let (cs, e, _) := connReadFrom src
    let (segs, w') := w.emit C cs
    some ({ s with c2s := s.c2s ++ segs, cw := some w' }, s!"segs {sums segs} ret={retName e}")
  | ["strip", ipsk, next] => do
    let ipsk ← parseData ipsk; let next ← parseData next
    match relayStrip C s.ccfg.reqPrefix.length s.ccfg.psk.length ipsk next s.c2s.flatten with
    | some w => some ({ s with c2s := [w] }, s!"ok {sum w}")
    | none => some (s, "fail")
  | ["handle", now, first, touts] => do
    -- touts: absolute offsets in the client→server stream at which the transport reports a read deadline
    let now ← now.toInt?; let first ← first.toNat?; let touts ← parseCsvNat touts
    let w := s.c2s.flatten
    match handle C s.scfg now [w.take first, w.drop first] with
    | .request req r salt upsk =>
      some ({ s with sr := some (installTimeouts r touts (w.length - r.wire.length)), req := some (req.addr, req.user), sw := some ⟨upsk, s.scfg.respPrefix, salt, none⟩ },
        s!"request {toHexField (encodeAddr req.addr)} {if req.user.isEmpty then "-" else req.user} {sum req.payload}")
    | .fallback p => some (s, s!"fallback {sum p}")
    | .error e => some (s, s!"error {e.name}")
  | ["sread", n] => do
    let n ← n.toNat?; let r ← s.sr
    let (o, r') := r.step C (.read n)
    some ({ s with sr := some r' }, showOut o)
  | ["swriteto"] => do
    let r ← s.sr
    let (o, r') := r.step C .writeTo
    some ({ s with sr := some r' }, showOut o)
  | ["stunnel"] => do
    let r ← s.sr
    let (o, r') := r.step C .tunnel
    some ({ s with sr := some r' }, showOut o)
  | ["swritetosink", sink] => do
    let sink ← parseSink sink; let r ← s.sr
    let (o, r') := r.writeToSink C sink
    some ({ s with sr := some r' }, showOut o)
  | ["cwritetosink", now, sink] => do
    let now ← now.toInt?; let sink ← parseSink sink; let c ← s.cr
    let (o, c') := c.writeToSinkS C now sink
    some ({ s with cr := some c' }, showOut o)
  | ["stunnelsink", j] => do
    -- tunnel copy into a conn whose transport refuses its j-th write: that `w.write` fails having delivered nothing
    let j ← j.toNat?; let r ← s.sr
    let (o, r') := r.writeToSink C (List.replicate (j - 1) ⟨1048576, false⟩ ++ [⟨0, true⟩])
    some ({ s with sr := some r' }, showOut (match o with | .copied ps e => .copied (ps.filter (fun p => !p.isEmpty)) e | o => o))
  | ["ctunnelsink", now, j] => do
    let now ← now.toInt?; let j ← j.toNat?; let c ← s.cr
    let (o, c') := c.writeToSinkS C now (List.replicate (j - 1) ⟨1048576, false⟩ ++ [⟨0, true⟩])
    some ({ s with cr := some c' }, showOut (match o with | .copied ps e => .copied (ps.filter (fun p => !p.isEmpty)) e | o => o))
  | ["reqcheck"] => do
    let (a, u) ← s.req
    -- what the holder of the request sees now: the bytes the request was parsed from have been overwritten
    some (s, s!"request {toHexField (encodeAddr (addrSeenLater a (List.replicate 300 0xAA)))} {if u.isEmpty then "-" else u}")
  | ["swrite", d, salt, ts, capW, capBig] => do
    let d ← parseData d; let ch ← parseResp salt ts capW capBig; let w ← s.sw
    let (segs, w') := w.write C ch d
    some ({ s with s2c := s.s2c ++ segs, sw := some w' },
      s!"{if CapsOk w.respPrefix.length w.psk.length ch then "ok" else "bad-choice"} segs {sums segs}")
  | ["sreadfrom", d, items, salt, ts, capW, capBig] => do
    let d ← parseData d; let src ← parseItems items d; let ch ← parseResp salt ts capW capBig; let w ← s.sw
    let (segs, w', e, _) := w.readFrom C ch src
    some ({ s with s2c := s.s2c ++ segs, sw := some w' },
      s!"{if CapsOk w.respPrefix.length w.psk.length ch then "ok" else "bad-choice"} segs {sums segs} ret={retName e}")
  | ["cseg", first, u, touts] => do
    -- first segment of `first` bytes, the rest in segments of `u` bytes (0: one segment); read deadlines at `touts`
    let first ← first.toNat?; let u ← u.toNat?; let touts ← parseCsvNat touts
    let w := s.s2c.flatten
    let rest := w.drop first
    let segs := if u = 0 then [rest] else cutBy (List.replicate (rest.length / u) u) rest
    some ({ s with cr := some { psk := s.ccfg.psk, respPrefix := s.ccfg.respPrefix, reqSalt := s.reqSalt, allowSeg := s.ccfg.allowSeg,
                                segs := w.take first :: segs, r := none, touts := touts, total := w.length } }, "ok")
  | ["cread", now, n] => do
    let now ← now.toInt?; let n ← n.toNat?; let c ← s.cr
    let (o, c') := c.readS C now n
    some ({ s with cr := some c' }, showOut o)
  | ["cwriteto", now] => do
    let now ← now.toInt?; let c ← s.cr
    let (o, c') := c.writeToS C now
    some ({ s with cr := some c' }, showOut o)
  | ["ctunnel", now, started] => do
    let now ← now.toInt?; let st ← parseBool started; let c ← s.cr
    let (o, c') := c.tunnelS C now st
    some ({ s with cr := some c' }, showOut o)
  | "tamper" :: dir :: other :: odir :: op => do
    let oi ← other.toNat?
    let os := all.getD oi {}
    let ow := if odir == "c2s" then os.c2s.flatten else os.s2c.flatten
    if dir == "c2s" then
      let w ← tamper s.c2s.flatten ow op
      some ({ s with c2s := [w] }, s!"ok {sum w}")
    else
      let w ← tamper s.s2c.flatten ow op
      some ({ s with s2c := [w] }, s!"ok {sum w}")
  | ["wire", dir] => some (s, sum (if dir == "c2s" then s.c2s.flatten else s.s2c.flatten))
  | ["copycfg", other] => do
    let oi ← other.toNat?
    let os := all.getD oi {}
    some ({ s with ccfg := os.ccfg, scfg := os.scfg }, "ok")
  | _ => none

def step (st : St) (line : String) : St × String :=
  match fields line with
  | sid :: cmd =>
    match sid.toNat? with
    | some i =>
      if i < st.size then
        match stepSess st (st.getD i {}) cmd with
        | some (s', out) => (st.setIfInBounds i s', out)
        | none => (st, "bad-op")
      else (st, "bad-op")
    | none => (st, "bad-op")
  | [] => (st, "bad-op")

end SSV.Stream.Drv
