import SSV.Model.Packet
/-
The limit the session relay's downlink hands to `serverConnPacker.PackInPlace` (service/udp_session.go,
udp_session_mmsg.go: `relayNatConnToServerConn{Generic,Sendmmsg}`): `maxClientPacketSize` is computed once from the
client address the session was opened from and cached; whenever `downlink.clientAddrInfo` changes (the client roamed,
or only its pktinfo changed) the block `if caip := …Load(); caip != clientAddrInfop { … }` runs. That block is
translated statement by statement from the source (`SSV.Gen.C05.sessionRefresh{Generic,Mmsg}`); this file gives the
statements their meaning on the tracked state.
-/
namespace SSV.Packet
open SSV SSV.Gen.C05

/-- `netip.Addr.Is4()`: a 4-byte address only — NOT an IPv4-mapped IPv6 address (that is `Is4In6()`) -/
def IP.is4 : IP → Bool
  | .v4 _ => true
  | .v6 _ => false

structure LimState where
  addr : AddrPort    -- clientAddrPort
  dest : AddrPort    -- where packets are sent (generic: clientAddrPort at the write; sendmmsg: the `name` sockaddr)
  limit : Int        -- maxClientPacketSize
deriving Repr

/-- one statement of the refresh block, `new` = `caip.addrPort` -/
def limStep (mtu : Int) (new : AddrPort) (st : LimState) (s : LimStmt) : LimState :=
  if s.ifIs4Differs ∧ new.ip.is4 = st.addr.ip.is4 then st
  else match s.op with
    | .setAddrFromNew => { st with addr := new }
    | .setLimitFromCur => { st with limit := maxPacketSize mtu st.addr.ip }
    | .setLimitFromNew => { st with limit := maxPacketSize mtu new.ip }
    | .setDestFromCur => { st with dest := st.addr }
    | .setInfoPtr => st
    | .setPktinfoFromNew => st
    | .other => st

/-- the refresh block on a change of the client address info -/
def limRefresh (mtu : Int) (prog : List LimStmt) (st : LimState) (new : AddrPort) : LimState :=
  prog.foldl (limStep mtu new) st

/-- set-up of the loop: `maxClientPacketSize := MaxPacketSizeForAddr(s.mtu, clientAddrPort.Addr())` -/
def limInit (mtu : Int) (a : AddrPort) : LimState := ⟨a, a, maxPacketSize mtu a.ip⟩

/-- the state after the session was opened from `a0` and the client address info changed to `events` in turn -/
def limRun (mtu : Int) (prog : List LimStmt) (a0 : AddrPort) (events : List AddrPort) : LimState :=
  events.foldl (limRefresh mtu prog) (limInit mtu a0)

end SSV.Packet
