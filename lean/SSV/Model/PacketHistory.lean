import SSV.Model.Packet
/-
Packers and unpackers are not per-packet functions: they carry state from packet to packet and work on
REUSED buffers (the relays pool their packet buffers and receive at a fixed offset).

* `socks5.DomainCache` (inside the none / SOCKS5 / ss2022 server unpackers): a bounded, string-keyed cache of
  interned domain names. Gen pins that it only ever keeps value copies (`string(domainBytes)`), so the model's
  cache holds values; a lookup returns the stored key.
* `direct.DirectPacketClientPacker`: `cachedDomain` / `cachedDomainIP`, updated by `updateDomainIPCache`, whose
  statements are `SSV.Gen.C05.updateDomainIPCacheProg` (translated from the source) and are interpreted here.

A history = a list of packets through ONE packer/unpacker pair and ONE buffer.
-/
namespace SSV.Packet
open SSV SSV.Gen.C05

/-! ## DomainCache -/

/-- the interned names, oldest first (`cache.BoundedCache`, capacity `domainCacheSize`) -/
abbrev DomainCache := List Bytes

/-- `GetEntry(string(domainBytes))` / `unique.Make` + `InsertUnchecked`: returns the cache and the interned name -/
def DomainCache.intern (c : DomainCache) (name : Bytes) : DomainCache × Bytes :=
  match c.find? (· == name) with
  | some k => (c.erase k ++ [k], k)                         -- hit: move to tail, use the stored key
  | none =>
    let c' := if c.length ≥ domainCacheSize then c.drop 1 else c   -- evict the oldest
    (c' ++ [name], name)

def DomainCache.internAddr (c : DomainCache) : Addr → DomainCache × Addr
  | .dom n p => let r := c.intern n; (r.1, .dom r.2 p)
  | a => (c, a)

/-- the none / SOCKS5 server unpacker with its `domainCache` -/
def plainServerUnpackC (c : DomainCache) (hdr3 : Bool) (b : Bytes) (q n : Nat) : DomainCache × Outcome (Unpacked Addr) :=
  match plainServerUnpack hdr3 b q n with
  | .ok u => let r := c.internAddr u.addr; (r.1, .ok { u with addr := r.2 })
  | o => (c, o)

/-- the ss2022 server unpacker with its `domainCache` -/
def ssServerUnpackC (dc : DomainCache) (c : Crypto) (block aeadKey : Bytes) (idHeaders : Nat) (lookup : Bool)
    (users : List (Bytes × Bytes)) (now : Int) (b : Bytes) (q n : Nat) : DomainCache × Outcome (Unpacked Addr) :=
  match ssServerUnpack c block aeadKey idHeaders lookup users now b q n with
  | .ok u => let r := dc.internAddr u.addr; (r.1, .ok { u with addr := r.2 })
  | o => (dc, o)

/-! ## the direct packer's resolver cache -/

structure ResState where
  dom : Bytes          -- cachedDomain ("" initially; a domain target is never empty)
  ip : Option IP       -- cachedDomainIP (none = the zero netip.Addr)
deriving Repr

structure ResRegs where
  ip : Option IP := none     -- the local `ip`
  failed : Bool := false     -- err != nil
  ret : Option Bool := none  -- returned? (some true = with the error)

/-- one statement of `updateDomainIPCache`; `res` = what the resolver answers now (none = failure) -/
def resOp (res : Option IP) (d : Bytes) (s : ResState × ResRegs) : ResOp → ResState × ResRegs
  | op =>
    if s.2.ret.isSome then s else
    match op with
    | .returnIfCached => if s.1.dom = d then (s.1, { s.2 with ret := some false }) else s
    | .resolve => (s.1, { s.2 with ip := res, failed := res.isNone })
    | .returnOnErr => if s.2.failed then (s.1, { s.2 with ret := some true }) else s
    | .setDomain => ({ s.1 with dom := d }, s.2)
    | .setIP => ({ s.1 with ip := s.2.ip }, s.2)

/-- `updateDomainIPCache`: new state and whether it returned an error -/
def updateDomainIPCache (prog : List ResOp) (res : Option IP) (d : Bytes) (st : ResState) : ResState × Bool :=
  let r := prog.foldl (resOp res d) (st, {})
  (r.1, r.2.ret == some true)

structure DirectPacked where
  packetStart : Nat
  packetLen : Nat
  dest : Option IP     -- destAddrPort's address (none = the zero netip.Addr)
deriving Repr

/-- the limit for the destination (`zerocopy.MaxPacketSizeForAddr(p.mtu, destAddrPort.Addr())`; the zero Addr is
neither `Is4` nor `Is4In6`) -/
def directLimit (mtu : Int) : Option IP → Int
  | some ip => maxPacketSize mtu ip
  | none => maxPacketSizeForAddr mtu false

/-- the tail of `PackInPlace`: the packet is the payload; `ErrPayloadTooBig` if it exceeds the limit -/
def directFinish (mtu : Int) (st : ResState) (dest : Option IP) (ps pl : Nat) : ResState × Outcome DirectPacked :=
  if directCTooBig pl (directLimit mtu dest) then (st, .err .tooBig) else (st, .ok ⟨ps, pl, dest⟩)

/-- `DirectPacketClientPacker.PackInPlace` with its state -/
def directClientPackS (prog : List ResOp) (mtu : Int) (res : Option IP) (st : ResState) (a : Addr) (ps pl : Nat) :
    ResState × Outcome DirectPacked :=
  match a with
  | .ip ap => directFinish mtu st (some ap.ip) ps pl
  | .dom d _ =>
    let u := updateDomainIPCache prog res d st
    if u.2 then (u.1, .err .resolve) else directFinish mtu u.1 u.1.ip ps pl
  | .zero => (st, .panic)   -- `targetAddr.Domain()` on the zero value

/-! ## histories -/

/-- one packet of a history through the none / SOCKS5 pair: the payload is written at `ps` of the reused buffer,
packed by the client packer, unpacked by the server unpacker (with its cache) -/
structure PlainStep where
  addr : Addr
  ps : Nat
  payload : Bytes

def plainHistStep (hdr3 : Bool) (limit : Int) (s : DomainCache × Bytes) (x : PlainStep) :
    (DomainCache × Bytes) × Option (Addr × Bytes) :=
  let b1 := splice s.2 x.ps x.payload
  match plainClientPack hdr3 limit b1 x.addr x.ps x.payload.length with
  | .ok r =>
    match plainServerUnpackC s.1 hdr3 r.buf r.packetStart.toNat r.packetLen.toNat with
    | (c', .ok u) => ((c', u.buf), some (u.addr, sub u.buf u.payloadStart.toNat u.payloadLen.toNat))
    | (c', _) => ((c', r.buf), none)
  | _ => ((s.1, b1), none)

/-- run a history; the outputs are what the server side delivered for each packet (none = refused) -/
def plainHist (hdr3 : Bool) (limit : Int) : DomainCache × Bytes → List PlainStep → List (Option (Addr × Bytes))
  | _, [] => []
  | s, x :: t => let r := plainHistStep hdr3 limit s x; r.2 :: plainHist hdr3 limit r.1 t

/-- one packet of a history through the ss2022 pair (what the packer draws for this packet is part of the step) -/
structure SSStep where
  addr : Addr
  ps : Nat
  payload : Bytes
  rand : Nat
  ts : Bytes
  pid : Bytes
  now : Int      -- the server's clock when it unpacks

structure SSPair where
  c : Crypto
  userBlock : Bytes
  aeadKey : Bytes
  eih : List (Bytes × Bytes)
  mps : Int
  pol : Policy
  sid : Bytes

def ssHistStep (p : SSPair) (s : DomainCache × Bytes) (x : SSStep) : (DomainCache × Bytes) × Option (Addr × Bytes) :=
  let b1 := splice s.2 x.ps x.payload
  match ssClientPack p.c p.userBlock p.aeadKey p.eih p.mps p.pol b1 x.addr x.ps x.payload.length x.rand x.ts p.sid x.pid with
  | .ok r =>
    match ssServerUnpackC s.1 p.c (ssBlock p.userBlock p.eih) p.aeadKey p.eih.length false [] x.now r.buf r.packetStart.toNat r.packetLen.toNat with
    | (c', .ok u) => ((c', u.buf), some (u.addr, sub u.buf u.payloadStart.toNat u.payloadLen.toNat))
    | (c', _) => ((c', r.buf), none)
  | _ => ((s.1, b1), none)

def ssHist (p : SSPair) : DomainCache × Bytes → List SSStep → List (Option (Addr × Bytes))
  | _, [] => []
  | s, x :: t => let r := ssHistStep p s x; r.2 :: ssHist p r.1 t

/-! ## server → client: the client unpackers and their per-session state -/

structure PlainDownStep where
  src : AddrPort      -- payload source address
  ps : Nat
  payload : Bytes

/-- the none / SOCKS5 client unpackers keep no per-packet state (`serverAddrPort` is fixed for the session) -/
def plainDownHistStep (hdr3 : Bool) (limit : Int) (server pktSrc : AddrPort) (b : Bytes) (x : PlainDownStep) :
    Bytes × Option (AddrPort × Bytes) :=
  let b1 := splice b x.ps x.payload
  match plainServerPack hdr3 b1 x.src x.ps x.payload.length limit with
  | .ok r =>
    match plainClientUnpack hdr3 server pktSrc r.buf r.packetStart.toNat r.packetLen.toNat with
    | .ok u => (u.buf, some (u.addr, sub u.buf u.payloadStart.toNat u.payloadLen.toNat))
    | _ => (r.buf, none)
  | _ => (b1, none)

def plainDownHist (hdr3 : Bool) (limit : Int) (server pktSrc : AddrPort) : Bytes → List PlainDownStep → List (Option (AddrPort × Bytes))
  | _, [] => []
  | b, x :: t => let r := plainDownHistStep hdr3 limit server pktSrc b x; r.2 :: plainDownHist hdr3 limit server pktSrc r.1 t

/-- state of `ShadowPacketClientUnpacker`: current and old server session (id; its AEAD is derived from the id),
the packet ids delivered in each (the sliding-window filters as sets — their window logic is C04's), and
`oldServerSessionLastSeenTime` (none = the zero time). Times in seconds. -/
structure CUState where
  cur : Option Bytes := none
  curSeen : List Bytes := []
  old : Option Bytes := none
  oldSeen : List Bytes := []
  oldLastSeen : Option Int := none
deriving Repr

/-- `ShadowPacketClientUnpacker.UnpackInPlace` with its session state: pick the session by the server session id
in the separate header (current, old, or — unless the old one was seen less than a minute ago — a new one), refuse
a packet id already delivered in that session, then open and parse as `ssClientUnpack` does with that session's key;
on success record the packet id and update the sessions. `keyOf ssid` = the AEAD key derived from the PSK and `ssid`. -/
def ssClientUnpackS (c : Crypto) (block : Bytes) (keyOf : Bytes → Bytes) (csid : Bytes) (now : Int) (st : CUState)
    (b : Bytes) (q n : Nat) : CUState × Outcome (Unpacked AddrPort) :=
  if cUnpackTooSmall n then (st, .err .tooSmall) else
  if ¬ sliceOk b q (cUnpackMessageHeaderStart q) then (st, .panic) else
  if ¬ sliceOk b (cUnpackMessageHeaderStart q) (q + n) then (st, .panic) else
  let sep := c.dec block (sub b q 16)
  let ssid := sep.take 8
  let spid := sep.drop 8
  let status : Option Nat :=
    if st.cur = some ssid then some 0
    else if st.old = some ssid then some 1
    else if (match st.oldLastSeen with | some t => decide (now - t < 60) | none => false) then none
    else some 2
  match status with
  | none => (st, .err .tooManySessions)
  | some k =>
    let seen := if k = 0 then st.curSeen else if k = 1 then st.oldSeen else []
    if spid ∈ seen then (st, .err .replay) else
    match ssClientUnpack c block (keyOf ssid) csid now b q n with
    | .ok u =>
      let st' : CUState :=
        if k = 0 then { st with curSeen := spid :: st.curSeen }
        else if k = 1 then { st with oldSeen := spid :: st.oldSeen, oldLastSeen := some now }
        else { cur := some ssid, curSeen := [spid], old := st.cur, oldSeen := st.curSeen, oldLastSeen := some now }
      (st', .ok u)
    | o => (st, o)

structure SSDownStep where
  src : AddrPort
  ps : Nat
  payload : Bytes
  rand : Nat
  ts : Bytes
  spid : Bytes
  now : Int

/-- one server session (packer) and the client session it answers -/
structure SSDownPair where
  c : Crypto
  block : Bytes
  keyOf : Bytes → Bytes
  pol : Policy
  lim : Int
  ssid : Bytes
  csid : Bytes

def ssDownHistStep (p : SSDownPair) (s : CUState × Bytes) (x : SSDownStep) : (CUState × Bytes) × Option (AddrPort × Bytes) :=
  let b1 := splice s.2 x.ps x.payload
  match ssServerPack p.c p.block (p.keyOf p.ssid) p.pol b1 x.src x.ps x.payload.length p.lim x.rand x.ts p.ssid x.spid p.csid with
  | .ok r =>
    match ssClientUnpackS p.c p.block p.keyOf p.csid x.now s.1 r.buf r.packetStart.toNat r.packetLen.toNat with
    | (st', .ok u) => ((st', u.buf), some (u.addr, sub u.buf u.payloadStart.toNat u.payloadLen.toNat))
    | (st', _) => ((st', r.buf), none)
  | _ => ((s.1, b1), none)

def ssDownHist (p : SSDownPair) : CUState × Bytes → List SSDownStep → List (Option (AddrPort × Bytes))
  | _, [] => []
  | s, x :: t => let r := ssDownHistStep p s x; r.2 :: ssDownHist p r.1 t

/-- one packet of a history through the direct packer: target, payload length, what the resolver answers now -/
structure DirectStep where
  addr : Addr
  ps : Nat
  pl : Nat
  res : Option IP

def directHist (prog : List ResOp) (mtu : Int) : ResState → List DirectStep → List (Outcome DirectPacked)
  | _, [] => []
  | st, x :: t => let r := directClientPackS prog mtu x.res st x.addr x.ps x.pl; r.2 :: directHist prog mtu r.1 t

end SSV.Packet
