import SSV.Model.Router
/-
Model of the part of service.Config.Manager (service/service.go) that builds the two resolver arguments of
`router.Config.Router`: the `resolvers` slice and `resolverMap`, in one loop over `sc.DNS`:

    for i := range sc.DNS {
        resolverConfig := &sc.DNS[i]
        if _, ok := resolverMap[resolverConfig.Name]; ok { return nil, "duplicate DNS resolver name" }
        resolver, err := resolverConfig.NewSimpleResolver(...)
        resolvers[i] = resolver
        resolverMap[resolverConfig.Name] = resolver
    }

A resolver is identified by the name of its configuration (that is how `Params.resolve` is indexed): the loop stores
the SAME object in the slice and under that name in the map, and refuses a second configuration with the same name,
so "the resolver called n" is unambiguous. The source text of the loop is tied by `C09.srcServiceResolverLoop`.
-/
namespace SSV.Router

/-- the loop: `none` = the duplicate-name error; otherwise (slice in order, map keys in insertion order) -/
def serviceResolvers : List String → List String → List String → Option (List String × List String)
  | [], slice, keys => some (slice, keys)
  | n :: rest, slice, keys =>
    if keys.contains n then none else serviceResolvers rest (slice ++ [n]) (keys ++ [n])

/-- the environment service.Config.Manager hands to the router, as far as resolvers are concerned -/
def Env.withServiceResolvers (env : Env) (dns : List String) : Option Env :=
  match serviceResolvers dns [] [] with
  | none => none
  | some (slice, keys) => some { env with resolvers := slice, resolverMap := keys }

end SSV.Router
