import SSV.Base.Util
import SSV.Gen.C07
/-
Model of the proxy handshakes of C07:

* socks5/stream.go  — serverHandleMethodSelection / serverHandleUsernamePassword / serverHandleRequest,
  replyWithStatus, ReplyFromDialResultCode, clientNegotiateAuthMethod / clientDoUsernamePasswordAuth /
  clientDoRequest, UserInfo.AppendAuthMsg (including the single 262-byte scratch buffer);
* socks5/addr.go    — WriteAddrFromConnAddr, AppendFromReader, ConnAddrFromSlice, ConnAddrFromReader;
* ssnone/stream.go  — DialStream (address ++ payload), HandleStream;
* httpproxy         — see the second half of the file.

The transport is a list of chunks (what successive `Read` calls can return at most); `readFull` is
`io.ReadFull` over it. Everything the peer wrote that has not been consumed stays in `St.inp`
(and, for the HTTP paths, in `St.buf`, the `bufio.Reader`'s unread bytes); everything written goes
to `St.out`. Slice-bounds failures of the scratch buffer are `Err.panic`, so that "the guards are
sufficient" is a statement and not an assumption.
-/
namespace SSV.HS
open SSV
open SSV.Gen

abbrev Chunks := List Bytes

def u8 (n : Nat) : UInt8 := UInt8.ofNat n

def cVersion : UInt8 := u8 C07.Version
def cAuthVersion : UInt8 := u8 C07.UsernamePasswordAuthVersion
def mNoAuth : UInt8 := u8 C07.MethodNoAuthenticationRequired
def mUserPass : UInt8 := u8 C07.MethodUsernamePassword
def mNoAcceptable : UInt8 := u8 C07.MethodNoAcceptable
def cmdConnect : UInt8 := u8 C07.CmdConnect
def cmdUDP : UInt8 := u8 C07.CmdUDPAssociate
def atypV4 : UInt8 := u8 C07.AtypIPv4
def atypDom : UInt8 := u8 C07.AtypDomainName
def atypV6 : UInt8 := u8 C07.AtypIPv6
def repSucceeded : UInt8 := u8 C07.ReplySucceeded
def repCmdNotSupported : UInt8 := u8 C07.ReplyCommandNotSupported

inductive Err
  | eof | ueof
  | panic
  | badVersion (b : UInt8)
  | zeroNMethods | noAcceptable
  | badAuthVersion (b : UInt8) | zeroULEN | zeroPLEN | badCreds
  | badAtyp (b : UInt8) | badDomainLen
  | badMethod (b : UInt8)      -- client: server selected another method
  | replyErr (b : UInt8)       -- client: REP ≠ succeeded
  -- HTTP
  | httpRead                   -- http.ReadRequest / http.ReadResponse failed
  | authFailed                 -- 407 sent and the request said `Connection: close`
  | badTarget                  -- 400 sent
  | connectStatus (code : Nat) -- client: non-2xx response
  | oom                        -- input outside the modelled HTTP grammar (not compared)
deriving Repr, DecidableEq

/-! ## Transport -/

structure St where
  inp : Chunks
  out : Bytes := []
  buf : Bytes := []    -- bufio.Reader: bytes read from the transport and not yet consumed (HTTP only)
deriving Repr, DecidableEq

def M (α : Type) := St → Except Err α × St

@[inline] def M.pure (a : α) : M α := fun s => (.ok a, s)
@[inline] def M.bind (m : M α) (f : α → M β) : M β := fun s =>
  match m s with
  | (.ok a, s') => f a s'
  | (.error e, s') => (.error e, s')

instance : Monad M where
  pure := M.pure
  bind := M.bind

def fail (e : Err) : M α := fun s => (.error e, s)
def need (c : Bool) : M Unit := fun s => if c then (.ok (), s) else (.error .panic, s)
def write (b : Bytes) : M Unit := fun s => (.ok (), { s with out := s.out ++ b })
def liftE (x : Except Err α) : M α := fun s => (x, s)

/-- what remains of the transport after `n` bytes have been consumed -/
def dropC : Nat → Chunks → Chunks
  | 0, cs => cs
  | _ + 1, [] => []
  | n + 1, c :: cs =>
    if n + 1 ≤ c.length then (if n + 1 = c.length then cs else c.drop (n + 1) :: cs)
    else dropC (n + 1 - c.length) cs

/-- `io.ReadFull` of `n` bytes: successive `Read`s each return at most one chunk. `none` = the
transport ended first. -/
def readFull : Nat → Chunks → Option (Bytes × Chunks)
  | 0, cs => some ([], cs)
  | _ + 1, [] => none
  | n + 1, c :: cs =>
    if n + 1 ≤ c.length then some (c.take (n + 1), if n + 1 = c.length then cs else c.drop (n + 1) :: cs)
    else match readFull (n + 1 - c.length) cs with
      | some (d, r) => some (c ++ d, r)
      | none => none

def readFullM (n : Nat) : M Bytes := fun s =>
  match readFull n s.inp with
  | some (d, r) => (.ok d, { s with inp := r })
  | none => (.error (if s.inp.flatten.isEmpty then .eof else .ueof), { s with inp := [] })

/-! ## Scratch buffer (Go slices of one backing array) -/

/-- `copy(b[off:], d)` for `off + len(d) ≤ len(b)` -/
def bwrite (b : Bytes) (off : Nat) (d : Bytes) : Bytes := b.take off ++ d ++ b.drop (off + d.length)
/-- `b[i:j]` -/
def bslice (b : Bytes) (i j : Nat) : Bytes := (b.take j).drop i
def bset (b : Bytes) (i : Nat) (v : UInt8) : Bytes := b.set i v

def bgetM (b : Bytes) (i : Nat) : M UInt8 := fun s =>
  match b[i]? with
  | some v => (.ok v, s)
  | none => (.error .panic, s)

/-- `io.ReadFull(rw, b[off:off+n])` -/
def readIntoM (b : Bytes) (off n : Nat) : M Bytes := do
  need (off + n ≤ b.length)
  let d ← readFullM n
  pure (bwrite b off d)

/-! ## Addresses -/

inductive Addr
  | v4 (ip : Bytes) (port : Nat)
  | v6 (ip : Bytes) (port : Nat)
  | dom (name : Bytes) (port : Nat)
  | zero                         -- the zero value conn.Addr{} (client side only)
deriving Repr, DecidableEq, Inhabited

def Addr.wf : Addr → Bool
  | .v4 ip p => ip.length == 4 && p < 65536
  | .v6 ip p => ip.length == 16 && p < 65536
  | .dom n p => 1 ≤ n.length && n.length ≤ 255 && p < 65536
  | .zero => true

def be16 (p : Nat) : Bytes := [u8 (p / 256), u8 (p % 256)]
def rd16 (hi lo : UInt8) : Nat := hi.toNat * 256 + lo.toNat

def mappedPrefix : Bytes := [0, 0, 0, 0, 0, 0, 0, 0, 0, 0, 0xff, 0xff]
/-- netip.Addr.Is4In6 -/
def is4in6 (ip : Bytes) : Bool := ip.take 12 == mappedPrefix

/-- AppendAddrFromAddrPort / WriteAddrFromAddrPort -/
def encodeIPPort (isV6 : Bool) (ip : Bytes) (p : Nat) : Bytes :=
  if !isV6 then atypV4 :: (ip ++ be16 p)
  else if is4in6 ip then atypV4 :: (ip.drop 12 ++ be16 p)
  else atypV6 :: (ip ++ be16 p)

/-- WriteAddrFromConnAddr / AppendAddrFromConnAddr -/
def encodeAddr : Addr → Bytes
  | .zero => encodeIPPort false [0, 0, 0, 0] 0
  | .v4 ip p => encodeIPPort false ip p
  | .v6 ip p => encodeIPPort true ip p
  | .dom n p => atypDom :: u8 n.length :: (n ++ be16 p)

/-- what a SOCKS address can carry of a conn.Addr: IPv4-mapped IPv6 becomes IPv4, the zero value 0.0.0.0:0 -/
def Addr.norm : Addr → Addr
  | .zero => .v4 [0, 0, 0, 0] 0
  | .v6 ip p => if is4in6 ip then .v4 (ip.drop 12) p else .v6 ip p
  | a => a

/-- ConnAddrFromSlice (the length checks are slice-bounds guards of the code itself) -/
def decodeAddr (sa : Bytes) : Except Err Addr :=
  match sa with
  | [] | [_] => .error .ueof
  | t :: l :: rest =>
    if t = atypDom then
      let n := l.toNat
      if rest.length < n + 2 then .error .ueof
      else
        let name := rest.take n
        match rest.drop n with
        | hi :: lo :: _ =>
          if n = 0 then .error .badDomainLen else .ok (.dom name (rd16 hi lo))
        | _ => .error .ueof
    else if t = atypV4 then
      match l :: rest with
      | a :: b :: c :: d :: hi :: lo :: _ => .ok (.v4 [a, b, c, d] (rd16 hi lo))
      | _ => .error .ueof
    else if t = atypV6 then
      let body := l :: rest
      if body.length < 18 then .error .ueof
      else match body.drop 16 with
        | hi :: lo :: _ => .ok (.v6 (body.take 16) (rd16 hi lo))
        | _ => .error .ueof
    else .error (.badAtyp t)

/-- AppendFromReader(b[3:3], newPrefixedReader(b[3:5], rw)) followed by ConnAddrFromSlice:
`b[3]`,`b[4]` already hold ATYP and the byte after it; the rest is read into `b[5:]`. -/
def readAddrTailM (b : Bytes) : M (Addr × Bytes) := do
  let t ← bgetM b 3
  let x ← bgetM b 4
  let k ← (if t = atypDom then pure (x.toNat + 2)
           else if t = atypV4 then pure 5
           else if t = atypV6 then pure 17
           else fail (.badAtyp t) : M Nat)
  let b ← readIntoM b 5 k
  let a ← liftE (decodeAddr (bslice b 3 (5 + k)))
  pure (a, b)

/-! ## SOCKS5 server -/

/-- replyWithStatus: `b[:10]` = VER REP RSV ATYP=1 0.0.0.0:0 -/
def replyWithStatus (b : Bytes) (status : UInt8) : M Unit := do
  need (C07.IPv4AddrLen + 3 ≤ b.length)
  write ([cVersion, status, 0] ++ (atypV4 :: List.replicate (C07.IPv4AddrLen - 1) 0))

/-- serverHandleMethodSelection -/
def methodSelection (b : Bytes) (method : UInt8) : M Bytes := do
  need (1 + 1 + 255 ≤ b.length)
  let b ← readIntoM b 0 3
  let ver ← bgetM b 0
  if ver ≠ cVersion then fail (.badVersion ver) else
  let nb ← bgetM b 1
  let n := nb.toNat
  if n = 0 then fail .zeroNMethods else
  let (b, found) ← (if n = 1 then do
        let m0 ← bgetM b 2
        pure (b, m0 == method)
      else do
        let b ← readIntoM b 3 (n - 1)
        pure (b, (bslice b 2 (2 + n)).contains method) : M (Bytes × Bool))
  if !found then do
    let b := bset b 1 mNoAcceptable
    write (bslice b 0 2)
    fail .noAcceptable
  else do
    let b := bset b 1 method
    write (bslice b 0 2)
    pure b

/-- the map built by NewStreamServer: a later entry with the same username replaces an earlier one -/
def lookupUser (users : List (Bytes × Bytes)) (uname : Bytes) : Option (Bytes × Bytes) :=
  users.reverse.find? (fun u => u.1 == uname)

/-- serverHandleUsernamePassword: UNAME is looked up *before* PASSWD is read over it -/
def userPass (users : List (Bytes × Bytes)) (b : Bytes) : M (Bytes × Bytes) := do
  need (1 + 1 + 255 + 1 ≤ b.length)
  let b ← readIntoM b 0 4
  let ver ← bgetM b 0
  if ver ≠ cAuthVersion then fail (.badAuthVersion ver) else
  let ub ← bgetM b 1
  let ulen := ub.toNat
  if ulen = 0 then fail .zeroULEN else
  let b ← (if ulen > 1 then readIntoM b 4 (ulen - 1) else pure b : M Bytes)
  let plenIndex := 2 + ulen
  let uname := bslice b 2 plenIndex
  let info := lookupUser users uname
  let pb ← bgetM b plenIndex
  let plen := pb.toNat
  if plen = 0 then fail .zeroPLEN else
  let b ← readIntoM b 2 plen
  let passwd := bslice b 2 (2 + plen)
  let good := match info with
    | some (_, pw) => passwd == pw
    | none => false
  let status : UInt8 := if good then 0 else 1
  let b := bset b 1 status
  write (bslice b 0 2)
  if !good then fail .badCreds else
  match info with
  | some (u, _) => pure (u, b)
  | none => fail .badCreds

inductive ReqOutcome
  | pending (a : Addr)                   -- CONNECT accepted: a PendingConn is returned
  | udpDone (a : Addr)                   -- UDP ASSOCIATE handled (ErrHandleStreamDone)
  | unsupported (a : Addr) (cmd : UInt8) -- reply 7 written, UnsupportedCommandError
deriving Repr, DecidableEq

/-- serverHandleRequest. `loc` = rw.LocalAddr() as (isV6, ip, port). -/
def handleRequest (tcp udp : Bool) (loc : Bool × Bytes × Nat) (b : Bytes) : M (ReqOutcome × Bytes) := do
  need (3 + C07.MaxAddrLen ≤ b.length)
  let b ← readIntoM b 0 5
  let ver ← bgetM b 0
  if ver ≠ cVersion then fail (.badVersion ver) else
  let (a, b) ← readAddrTailM b
  let cmd ← bgetM b 1
  if cmd = cmdConnect && tcp then pure (.pending a, b)
  else if cmd = cmdUDP && udp then do
    let b := bset b 1 repSucceeded
    write (bslice b 0 3 ++ encodeIPPort loc.1 loc.2.1 loc.2.2)
    -- `rw.Read(b[:1])` holds the connection open until the client closes; nothing is delivered
    pure (.udpDone a, b)
  else do
    replyWithStatus b repCmdNotSupported
    pure (.unsupported a cmd, b)

def newBuf : Bytes := List.replicate C07.scratchLen 0

/-- ServerAccept -/
def serverAccept (tcp udp : Bool) (loc : Bool × Bytes × Nat) : M (ReqOutcome × Bytes) := do
  let b ← methodSelection newBuf mNoAuth
  handleRequest tcp udp loc b

/-- ServerAcceptUsernamePassword -/
def serverAcceptUserPass (users : List (Bytes × Bytes)) (tcp udp : Bool) (loc : Bool × Bytes × Nat) :
    M (Bytes × ReqOutcome × Bytes) := do
  let b ← methodSelection newBuf mUserPass
  let (u, b) ← userPass users b
  let (r, b) ← handleRequest tcp udp loc b
  pure (u, r, b)

/-- ReplyFromDialResultCode (table regenerated from the switch) -/
def replyFromDialResultCode (code : Nat) : Nat :=
  match C07.replyTable.lookup code with
  | some r => r
  | none => C07.replyDefault

/-- serverPendingConn.Proceed -/
def proceed (b : Bytes) : M Unit := replyWithStatus b repSucceeded
/-- what `conn.DialResult.Err` can be: nothing, a syscall errno (possibly wrapped), a resolver error, the
router's rejection, or any other error value -/
inductive DialErr
  | none
  | errno (n : Nat) (wrapped : Bool)
  | dns (notFound : Bool)
  | rejected
  | opaque (tag : Nat)
deriving Repr, DecidableEq

/-- conn.DialResult -/
structure DialResult where
  code : Nat
  err : DialErr := .none
deriving Repr, DecidableEq

/-- serverPendingConn.Abort: the reply is a function of `dialResult.Code` only (regenerated fingerprint
`Gen.C07.abortUsesCode`); `dialResult.Err` is not looked at. -/
def abort (b : Bytes) (dr : DialResult) : M Unit := replyWithStatus b (u8 (replyFromDialResultCode dr.code))

/-! ## SOCKS5 client -/

/-- UserInfo.AppendAuthMsg -/
def authMsg (user pass : Bytes) : Bytes :=
  [cAuthVersion, u8 user.length] ++ user ++ [u8 pass.length] ++ pass

/-- clientNegotiateAuthMethod -/
def clientNegotiate (b : Bytes) (method : UInt8) : M Bytes := do
  need (3 ≤ b.length)
  let b := bwrite b 0 [cVersion, 1, method]
  write (bslice b 0 3)
  let b ← readIntoM b 0 2
  let ver ← bgetM b 0
  if ver ≠ cVersion then fail (.badVersion ver) else
  let m ← bgetM b 1
  if m ≠ method then fail (.badMethod m) else
  pure b

/-- clientDoUsernamePasswordAuth -/
def clientAuth (b : Bytes) (msg : Bytes) : M Bytes := do
  need (2 ≤ b.length)
  write msg
  let b ← readIntoM b 0 2
  let ver ← bgetM b 0
  if ver ≠ cAuthVersion then fail (.badAuthVersion ver) else
  let st ← bgetM b 1
  if st ≠ 0 then fail .badCreds else
  pure b

/-- clientDoRequest: returns the bound address of the reply -/
def clientDoRequest (b : Bytes) (cmd : UInt8) (target : Addr) : M Addr := do
  need (3 + C07.MaxAddrLen ≤ b.length)
  let b := bwrite b 0 ([cVersion, cmd, 0] ++ encodeAddr target)
  write (bslice b 0 (3 + (encodeAddr target).length))
  let b ← readIntoM b 0 5
  let ver ← bgetM b 0
  if ver ≠ cVersion then fail (.badVersion ver) else
  let (a, b) ← readAddrTailM b
  let rep ← bgetM b 1
  if rep ≠ repSucceeded then fail (.replyErr rep) else
  pure a

/-- ClientRequest -/
def clientRequest (cmd : UInt8) (target : Addr) : M Addr := do
  let b ← clientNegotiate newBuf mNoAuth
  clientDoRequest b cmd target

/-- ClientRequestUsernamePassword -/
def clientRequestUserPass (msg : Bytes) (cmd : UInt8) (target : Addr) : M Addr := do
  let b ← clientNegotiate newBuf mUserPass
  let b ← clientAuth b msg
  clientDoRequest b cmd target

/-! ## Shadowsocks "none" -/

/-- ssnone.StreamClient.DialStream: what is handed to the inner client as initial payload -/
def noneClient (target : Addr) (payload : Bytes) : Bytes := encodeAddr target ++ payload

/-- socks5.ConnAddrFromReader (ssnone.StreamServer.HandleStream) -/
def noneServer : M Addr := do
  let h ← readFullM 2
  match h with
  | [t, x] =>
    if t = atypDom then do
      let d ← readFullM (x.toNat + 2)
      liftE (decodeAddr (t :: x :: d))
    else if t = atypV4 then do
      let d ← readFullM 5
      liftE (decodeAddr (t :: x :: d))
    else if t = atypV6 then do
      let d ← readFullM 17
      liftE (decodeAddr (t :: x :: d))
    else fail (.badAtyp t)
  | _ => fail .panic

/-- the byte stream a reader of the returned connection sees after the handshake -/
def St.stream (s : St) : Bytes := s.buf ++ s.inp.flatten

end SSV.HS
