import SSV.Gen.C09
import SSV.Model.PortSet
/-
Model of router/route.go and router/router.go (pinned tree + proposed_fixes/F3.diff).

What is modelled (Go → Lean):
* `RouteConfig.Route`  → `build`      (pre-checks in source order, which criteria exist, `AddCriterion` with the
                                       invert flag, `CriterionGroupOR.AppendTo` / `.Criterion()`, the choice of the
                                       port representation, resolver selection, client lookup)
* `Criterion.Meet`     → `meet`       (every criterion type of route.go, `InvertedCriterion`, `CriterionGroupOR`)
* `Route.Match`        → `meetAll`    (AND, stops at the first criterion that is not met; its error is returned)
* `Config.Router`      → `buildRouter` (default route appended last)
* `Router.match` + `GetTCPClient`/`GetUDPClient` → `getClient`
* `portset.PortSet` (as a 65536-entry bit table; the word-level code is C10's), `Count`, `First`, `RangeSet`
  (scan for maximal runs), `PortRangeSet.Contains` (binary search), `PortSet.Contains` (panics on 0),
  `bitset.BitSet.IsSet` (panics on index >= capacity).

Parameters (`Params`): resolvers (`resolver name → domain → addr | ErrLookup | other error`), named domain
sets (`name → domain → Bool`), named prefix sets (`name → IP → Bool`), literal prefix containment
(`Prefix → IP → Bool`), GeoIP (`IP → country | error`).

Go's `(bool, error)` result of `Meet` is the four-valued `R`: no criterion of route.go returns `(true, err)`
with a non-nil error, so `(false, err)` is `fail err`; `panic` is a Go panic (the model is total).
-/
namespace SSV.Router
open SSV.Gen

/-! ## Addresses -/

/-- `netip.Addr` without zone: family + value. -/
inductive IP where
  | v4 (n : Nat)
  | v6 (n : Nat)
deriving DecidableEq, Repr, Inhabited

/-- `netip.Addr.Unmap`: `::ffff:a.b.c.d` becomes `a.b.c.d` (hi == 0 && lo>>32 == 0xffff). -/
def IP.unmap : IP → IP
  | .v6 n => if n / 2 ^ 32 = 0xffff then .v4 (n % 2 ^ 32) else .v6 n
  | .v4 n => .v4 n

/-- `netip.Prefix`. -/
structure Prefix where
  ip : IP
  bits : Nat
deriving DecidableEq, Repr

/-- Brute-force prefix containment (the driver's instance of `Params.pfx`): same family and equal top `bits` bits.
An IPv4-mapped IPv6 address is an IPv6 address here, as for `netip.Prefix.Contains` and `bart`. -/
def Prefix.contains (p : Prefix) (a : IP) : Bool :=
  match p.ip, a with
  | .v4 b, .v4 x => p.bits ≤ 32 && b / 2 ^ (32 - p.bits) == x / 2 ^ (32 - p.bits)
  | .v6 b, .v6 x => p.bits ≤ 128 && b / 2 ^ (128 - p.bits) == x / 2 ^ (128 - p.bits)
  | _, _ => false

/-! ## Results -/

inductive Err where
  /-- `errNoAvailableResolvers` -/
  | noAvailableResolvers
  /-- any error returned by a resolver other than `dns.ErrLookup` (e.g. `dns.ErrDomainNoAssociatedIPs`) -/
  | resolver (tag : String)
  /-- error of `geoip.Country` -/
  | geoip
deriving DecidableEq, Repr

/-- what one `SimpleResolver.LookupIP` call returns -/
inductive LookupRes where
  | addr (a : IP)
  | errLookup
  | fail (tag : String)
deriving DecidableEq, Repr

/-- result of `Meet` / `Match` -/
inductive R where
  | yes
  | no
  | fail (e : Err)
  | panic
deriving DecidableEq, Repr

def R.ofBool (b : Bool) : R := if b then .yes else .no

/-- `InvertedCriterion.Meet`: `if err != nil { return false, err }; return !met, nil` (a panic propagates) -/
def R.invert : R → R
  | .yes => .no
  | .no => .yes
  | r => r

/-- one step of the `Route.Match` loop: `if !met { return false, err }`, otherwise go on with `k`
(`k` is a value: the model is pure, so evaluating the rest eagerly does not change the result) -/
def R.andThen (r k : R) : R :=
  match r with
  | .yes => k
  | r => r

/-- one step of the `CriterionGroupOR.Meet` loop: error ⇒ return it; met ⇒ true; otherwise go on with `k` -/
def R.orElse (r k : R) : R :=
  match r with
  | .yes => .yes
  | .no => k
  | r => r

inductive Target where
  | ip (a : IP)
  | domain (d : String)
deriving DecidableEq, Repr

inductive Net where
  | tcp
  | udp
deriving DecidableEq, Repr

/-- `RequestInfo` + protocol. `server` = `ServerIndex`. Ports are `uint16` in the code. -/
structure Req where
  net : Net
  server : Nat
  user : String
  srcIP : IP
  srcPort : Nat
  target : Target
  dstPort : Nat
deriving Repr

structure Params where
  resolve : String → String → LookupRes
  domSet : String → String → Bool
  pfxSet : String → IP → Bool
  pfx : Prefix → IP → Bool
  country : IP → Option String

/-! ## Port sets -/

/-- `portset.PortSet` as a table of 65536 bits (index = port). -/
structure PortSet where
  bits : Array Bool

def portSpace : Nat := 65536

def PortSet.empty : PortSet := ⟨Array.replicate portSpace false⟩

def PortSet.mem (s : PortSet) (p : Nat) : Bool := s.bits.getD p false

/-- `add` -/
def PortSet.add (s : PortSet) (p : Nat) : PortSet := ⟨s.bits.setIfInBounds p true⟩

/-- `addRange(from, to+1)`: sets the bits `a .. a+n-1`. -/
def PortSet.addRun (s : PortSet) : (a n : Nat) → PortSet
  | _, 0 => s
  | a, n + 1 => (s.add a).addRun (a + 1) n

/-- number of set bits among `p .. p+n-1` (the recursive call is the first summand so that the kernel's
`Nat.add`, which recurses on its second argument, gets stuck at once instead of unfolding 65536 levels) -/
def countFrom (mem : Nat → Bool) : Nat → Nat → Nat
  | 0, _ => 0
  | n + 1, p => countFrom mem n (p + 1) + (if mem p then 1 else 0)

/-- first set bit among `p .. p+n-1` (0 when there is none, as `First`) -/
def firstFrom (mem : Nat → Bool) : Nat → Nat → Nat
  | 0, _ => 0
  | n + 1, p => if mem p then p else firstFrom mem n (p + 1)

/-- maximal runs of set bits among `p .. p+n-1`; `cur` = start of the run that is open at `p` -/
def runs (mem : Nat → Bool) : Nat → Nat → Option Nat → List (Nat × Nat)
  | 0, _, none => []
  | 0, p, some s => [(s, p - 1)]
  | n + 1, p, none => if mem p then runs mem n (p + 1) (some p) else runs mem n (p + 1) none
  | n + 1, p, some s => if mem p then runs mem n (p + 1) (some s) else (s, p - 1) :: runs mem n (p + 1) none

/-- `Count` -/
def PortSet.count (s : PortSet) : Nat := countFrom s.mem portSpace 0
/-- `First` -/
def PortSet.first (s : PortSet) : Nat := firstFrom s.mem portSpace 0
/-- `RangeSet` (and `RangeCount` = its length; equality of the two scans is C10's `rangeset_eq_bitset`) -/
def PortSet.rangeSet (s : PortSet) : List (Nat × Nat) := runs s.mem portSpace 0 none

/-- `PortSet.Contains`: `none` = `panic(ErrZeroPort)`. -/
def PortSet.contains (s : PortSet) (p : Nat) : Option Bool :=
  if p = 0 then none else some (s.mem p)

/-- `PortRangeSet.Contains`: binary search over `[i, j)`. -/
def bsearch (rs : List (Nat × Nat)) (port : Nat) : Nat → Nat → Nat → Bool
  | 0, _, _ => false
  | fuel + 1, i, j =>
    if i < j then
      let h := (i + j) / 2
      let r := rs.getD h (0, 0)
      if port > r.2 then bsearch rs port fuel (h + 1) j
      else if port < r.1 then bsearch rs port fuel i h
      else true
    else false

def rangesContain (rs : List (Nat × Nat)) (port : Nat) : Bool :=
  bsearch rs port (rs.length + 1) 0 rs.length

/-! ## Criteria -/

/-- a `bart.Lite` built from literal prefixes (`Insert`) and named sets (`Union`) -/
structure PfxSet where
  lits : List Prefix
  sets : List String

def PfxSet.contains (p : Params) (s : PfxSet) (a : IP) : Bool :=
  s.lits.any (fun x => p.pfx x a) || s.sets.any (fun n => p.pfxSet n a)

/-- `[]domainset.DomainSet`: the `toDomains` matcher (exact names) first, then the named sets -/
structure DomSets where
  exact : List String
  sets : List String

/-- `matchDomainToDomainSets` -/
def DomSets.matches (p : Params) (ds : DomSets) (d : String) : Bool :=
  ds.exact.contains d || ds.sets.any (fun n => p.domSet n d)

inductive Crit where
  | netTCP
  | netUDP
  | srcServer (cap : Nat) (set : List Nat)
  | srcUser (users : List String)
  | srcPort (port : Nat)
  | srcPortRanges (rs : List (Nat × Nat))
  | srcPortSet (s : PortSet)
  | srcIP (s : PfxSet)
  | srcGeo (countries : List String)
  | dstPort (port : Nat)
  | dstPortRanges (rs : List (Nat × Nat))
  | dstPortSet (s : PortSet)
  | dstDomain (ds : DomSets)
  | dstDomainExpected (ds : DomSets) (expected : Crit)
  | dstIP (s : PfxSet)
  | dstResolvedIP (s : PfxSet) (resolvers : List String)
  | dstGeo (countries : List String)
  | dstResolvedGeo (countries : List String) (resolvers : List String)
  | inverted (inner : Crit)
  | groupOr (cs : List Crit)
  /-- a nil `Criterion` interface value (`CriterionGroupOR.Criterion()` of an empty group); calling it panics -/
  | nilCrit

/-- `lookup`: first resolver whose error is not `dns.ErrLookup` decides. -/
def lookup (p : Params) (d : String) : List String → Except Err IP
  | [] => .error .noAvailableResolvers
  | r :: rs =>
    match p.resolve r d with
    | .addr a => .ok a
    | .errLookup => lookup p d rs
    | .fail t => .error (.resolver t)

/-- `matchAddrToGeoIPCountries` -/
def geoMatch (p : Params) (countries : List String) (a : IP) : R :=
  match p.country a with
  | none => .fail .geoip
  | some c => .ofBool (countries.contains c)

/-- `bitset.BitSet.IsSet` -/
def bitsetIsSet (cap : Nat) (set : List Nat) (i : Nat) : Option Bool :=
  if i ≥ cap then none else some (set.contains i)

def portSetMeet (guard : Bool) (s : PortSet) (port : Nat) : R :=
  if guard && port == 0 then .no
  else match s.contains port with
    | none => .panic
    | some b => .ofBool b

mutual
/-- `Criterion.Meet` -/
def meet (p : Params) (q : Req) : Crit → R
  | .netTCP => .ofBool (q.net == .tcp)
  | .netUDP => .ofBool (q.net == .udp)
  | .srcServer cap set =>
    match bitsetIsSet cap set q.server with
    | none => .panic
    | some b => .ofBool b
  | .srcUser users => .ofBool (users.contains q.user)
  | .srcPort port => .ofBool (port == q.srcPort)
  | .srcPortRanges rs => .ofBool (rangesContain rs q.srcPort)
  | .srcPortSet s => portSetMeet C09.srcPortSetGuardsZero s q.srcPort
  | .srcIP s => .ofBool (s.contains p q.srcIP.unmap)
  | .srcGeo cs => geoMatch p cs q.srcIP
  | .dstPort port => .ofBool (port == q.dstPort)
  | .dstPortRanges rs => .ofBool (rangesContain rs q.dstPort)
  | .dstPortSet s => portSetMeet C09.dstPortSetGuardsZero s q.dstPort
  | .dstDomain ds =>
    match q.target with
    | .ip _ => .no
    | .domain d => .ofBool (ds.matches p d)
  | .dstDomainExpected ds expected =>
    match q.target with
    | .ip _ => .no
    | .domain d => if ds.matches p d then meet p q expected else .no
  | .dstIP s =>
    match q.target with
    | .ip a => .ofBool (s.contains p a.unmap)
    | .domain _ => .no
  | .dstResolvedIP s resolvers =>
    match q.target with
    | .ip a => .ofBool (s.contains p a.unmap)
    | .domain d =>
      match lookup p d resolvers with
      | .error e => .fail e
      | .ok a => .ofBool (s.contains p a.unmap)
  | .dstGeo cs =>
    match q.target with
    | .ip a => geoMatch p cs a
    | .domain _ => .no
  | .dstResolvedGeo cs resolvers =>
    match q.target with
    | .ip a => geoMatch p cs a
    | .domain d =>
      match lookup p d resolvers with
      | .error e => .fail e
      | .ok a => geoMatch p cs a
  | .inverted inner => (meet p q inner).invert
  | .groupOr cs => meetOr p q cs
  | .nilCrit => .panic
/-- `CriterionGroupOR.Meet` -/
def meetOr (p : Params) (q : Req) : List Crit → R
  | [] => .no
  | c :: cs => (meet p q c).orElse (meetOr p q cs)
end

/-- `Route.Match` -/
def meetAll (p : Params) (q : Req) : List Crit → R
  | [] => .yes
  | c :: cs => (meet p q c).andThen (meetAll p q cs)

/-! ## Configuration -/

/-- `RouteConfig`, field by field. -/
structure RouteConfig where
  name : String
  network : String := ""
  client : String
  resolver : String := ""
  fromServers : List String := []
  fromUsers : List String := []
  fromPorts : List Nat := []
  /-- the string as written (bytes) -/
  fromPortRanges : List UInt8 := []
  fromPrefixes : List Prefix := []
  fromPrefixSets : List String := []
  fromGeoIPCountries : List String := []
  toPorts : List Nat := []
  toPortRanges : List UInt8 := []
  toDomains : List String := []
  toDomainSets : List String := []
  toMatchedDomainExpectedPrefixes : List Prefix := []
  toMatchedDomainExpectedPrefixSets : List String := []
  toMatchedDomainExpectedGeoIPCountries : List String := []
  toPrefixes : List Prefix := []
  toPrefixSets : List String := []
  toGeoIPCountries : List String := []
  disableNameResolutionForIPRules : Bool := false
  invertFromServers : Bool := false
  invertFromUsers : Bool := false
  invertFromPrefixes : Bool := false
  invertFromGeoIPCountries : Bool := false
  invertFromPorts : Bool := false
  invertToDomains : Bool := false
  invertToMatchedDomainExpectedPrefixes : Bool := false
  invertToMatchedDomainExpectedGeoIPCountries : Bool := false
  invertToPrefixes : Bool := false
  invertToGeoIPCountries : Bool := false
  invertToPorts : Bool := false

/-- what `Config.Router` passes to `RouteConfig.Route` (names only; behaviours are in `Params`) -/
structure Env where
  hasGeoip : Bool := false
  /-- the `resolvers` slice, in order; a resolver is identified by the name it has in the service configuration -/
  resolvers : List String := []
  /-- the keys of `resolverMap` (service.Config.Manager stores every resolver in both, under its name; the router
  itself does not require the two to agree, and neither do the theorems) -/
  resolverMap : List String := []
  tcpClients : List String := []
  udpClients : List String := []
  /-- `serverIndexByName`: name ↦ position -/
  servers : List String := []
  domSets : List String := []
  pfxSets : List String := []

inductive BuildErr where
  | badName | geoipNoDb | noResolvers | noDomainCriteria | resolverNotFound | badNetwork
  | tcpClientNotFound | udpClientNotFound | serverNotFound
  | badFromPorts | badFromPortRanges | pointlessFromPorts
  | badToPorts | badToPortRanges | pointlessToPorts
  | prefixSetNotFound | domainSetNotFound
  | unreachable
  | defaultTCPNotFound | defaultUDPNotFound
deriving DecidableEq, Repr

structure Route where
  name : String
  criteria : List Crit
  tcpClient : Option String
  udpClient : Option String

/-- `AddCriterion(criterion, invert)` -/
def wrap (invert : Bool) (c : Crit) : Crit := if invert then .inverted c else c

/-- `CriterionGroupOR.AppendTo(nil)` -/
def groupAppend (g : List Crit) : List Crit :=
  match g with
  | [] => []
  | [c] => [c]
  | _ => [.groupOr g]

/-- `CriterionGroupOR.Criterion()` -/
def groupCriterion (g : List Crit) : Crit :=
  match g with
  | [] => .nilCrit
  | [c] => c
  | _ => .groupOr g

/-- the pre-checks at the top of `RouteConfig.Route`, in source order -/
def precheck (env : Env) (rc : RouteConfig) : Option BuildErr :=
  if C09.badRouteNames.contains rc.name then some .badName
  else if !env.hasGeoip && (!rc.fromGeoIPCountries.isEmpty || !rc.toGeoIPCountries.isEmpty || !rc.toMatchedDomainExpectedGeoIPCountries.isEmpty) then some .geoipNoDb
  else if env.resolvers.isEmpty &&
      (!rc.toMatchedDomainExpectedPrefixes.isEmpty || !rc.toMatchedDomainExpectedPrefixSets.isEmpty ||
       !rc.toMatchedDomainExpectedGeoIPCountries.isEmpty ||
       (!rc.disableNameResolutionForIPRules &&
        (!rc.toPrefixes.isEmpty || !rc.toPrefixSets.isEmpty || !rc.toGeoIPCountries.isEmpty))) then some .noResolvers
  else if rc.toDomains.isEmpty && rc.toDomainSets.isEmpty &&
      (!rc.toMatchedDomainExpectedPrefixes.isEmpty || !rc.toMatchedDomainExpectedPrefixSets.isEmpty ||
       !rc.toMatchedDomainExpectedGeoIPCountries.isEmpty) then some .noDomainCriteria
  else none

/-- `if rc.Resolver != "" { ... resolvers = []dns.SimpleResolver{resolver} }` -/
def resolversFor (env : Env) (rc : RouteConfig) : Except BuildErr (List String) :=
  if rc.resolver = "" then .ok env.resolvers
  else if env.resolverMap.contains rc.resolver then .ok [rc.resolver]
  else .error .resolverNotFound

def secNetwork (rc : RouteConfig) : Except BuildErr (List Crit) :=
  if rc.network = C09.networkNames.getD 0 "" then .ok []
  else if rc.network = C09.networkNames.getD 1 "" then .ok [.netTCP]
  else if rc.network = C09.networkNames.getD 2 "" then .ok [.netUDP]
  else .error .badNetwork

def secClients (env : Env) (rc : RouteConfig) : Except BuildErr (Option String × Option String) :=
  if rc.client = C09.rejectName then .ok (none, none)
  else
    let wantTCP := rc.network = "" || rc.network = "tcp"
    let wantUDP := rc.network = "" || rc.network = "udp"
    if wantTCP && !env.tcpClients.contains rc.client then .error .tcpClientNotFound
    else if wantUDP && !env.udpClients.contains rc.client then .error .udpClientNotFound
    else .ok (if wantTCP then some rc.client else none, if wantUDP then some rc.client else none)

def secServers (env : Env) (rc : RouteConfig) : Except BuildErr (List Crit) :=
  if rc.fromServers.isEmpty then .ok []
  else if rc.fromServers.all (fun s => env.servers.contains s) then
    .ok [wrap rc.invertFromServers (.srcServer env.servers.length (rc.fromServers.map (fun s => env.servers.idxOf s)))]
  else .error .serverNotFound

def secUsers (rc : RouteConfig) : List Crit :=
  if rc.fromUsers.isEmpty then [] else [wrap rc.invertFromUsers (.srcUser rc.fromUsers)]

/-- the `for _, port := range rc.FromPorts` loop -/
def addPorts (bad : BuildErr) (s : PortSet) : List Nat → Except BuildErr PortSet
  | [] => .ok s
  | p :: ps => if p = 0 || p ≥ portSpace then .error bad else addPorts bad (s.add p) ps

/-- `PortSet.Parse(rc.FromPortRanges)` on the table: the comma-separated pieces the loop visits
(`SSV.PortSet.items`), each parsed by `SSV.PortSet.parseItem` (C10's model of the piece syntax: `strconv.ParseUint(_, 10, 16)`,
zero port, `from >= to`); the first bad piece is the error return. -/
def addPieces (bad : BuildErr) (s : PortSet) : List (List UInt8) → Except BuildErr PortSet
  | [] => .ok s
  | pc :: rest =>
    match SSV.PortSet.parseItem pc with
    | none => .error bad
    | some (.port p) => addPieces bad (s.add p) rest
    | some (.range a b) => addPieces bad (s.addRun a (b + 1 - a)) rest

/-- the `switch portCount` of `RouteConfig.Route` -/
def portCrit (s : PortSet) (singleCount allCount maxRanges : Nat) (pointless : BuildErr)
    (single : Nat → Crit) (ranges : List (Nat × Nat) → Crit) (set : PortSet → Crit) : Except BuildErr Crit :=
  let c := s.count
  if c = 0 then .error .unreachable
  else if c = singleCount then .ok (single s.first)
  else if c = allCount then .error pointless
  else
    let rs := s.rangeSet
    if rs.length ≤ maxRanges then .ok (ranges rs) else .ok (set s)

/-- the `if len(rc.FromPorts) > 0 || rc.FromPortRanges != "" { ... }` block (same shape for the destination);
`init` is the zero-valued `var portSet portset.PortSet` -/
def portsSection (init : PortSet) (ports : List Nat) (str : List UInt8) (invert : Bool)
    (badPorts badRanges pointless : BuildErr) (singleCount allCount maxRanges : Nat)
    (single : Nat → Crit) (ranges : List (Nat × Nat) → Crit) (set : PortSet → Crit) : Except BuildErr (List Crit) :=
  if ports.isEmpty && str.isEmpty then .ok []
  else
    match addPorts badPorts init ports with
    | .error e => .error e
    | .ok s1 =>
    match addPieces badRanges s1 (SSV.PortSet.items str) with
    | .error e => .error e
    | .ok s2 =>
    match portCrit s2 singleCount allCount maxRanges pointless single ranges set with
    | .error e => .error e
    | .ok c => .ok [wrap invert c]

def secFromPorts (rc : RouteConfig) : Except BuildErr (List Crit) :=
  portsSection .empty rc.fromPorts rc.fromPortRanges rc.invertFromPorts
    .badFromPorts .badFromPortRanges .pointlessFromPorts
    C09.srcPortSingleCount C09.srcPortAllCount C09.srcPortMaxRanges .srcPort .srcPortRanges .srcPortSet

def secToPorts (rc : RouteConfig) : Except BuildErr (List Crit) :=
  portsSection .empty rc.toPorts rc.toPortRanges rc.invertToPorts
    .badToPorts .badToPortRanges .pointlessToPorts
    C09.dstPortSingleCount C09.dstPortAllCount C09.dstPortMaxRanges .dstPort .dstPortRanges .dstPortSet

/-- a prefix-set criterion's table: literal prefixes + named sets, all of which must exist -/
def mkPfxSet (env : Env) (lits : List Prefix) (sets : List String) : Except BuildErr PfxSet :=
  if sets.all (fun s => env.pfxSets.contains s) then .ok ⟨lits, sets⟩ else .error .prefixSetNotFound

def secFromAddr (env : Env) (rc : RouteConfig) : Except BuildErr (List Crit) :=
  if rc.fromPrefixes.isEmpty && rc.fromPrefixSets.isEmpty && rc.fromGeoIPCountries.isEmpty then .ok []
  else
    match (if rc.fromPrefixes.isEmpty && rc.fromPrefixSets.isEmpty then .ok []
           else match mkPfxSet env rc.fromPrefixes rc.fromPrefixSets with
             | .error e => .error e
             | .ok s => .ok [wrap rc.invertFromPrefixes (.srcIP s)] : Except BuildErr (List Crit)) with
    | .error e => .error e
    | .ok g1 =>
      let g2 := if rc.fromGeoIPCountries.isEmpty then [] else [wrap rc.invertFromGeoIPCountries (.srcGeo rc.fromGeoIPCountries)]
      .ok (groupAppend (g1 ++ g2))

/-- the `expectedIPCriterionGroup` -/
def secExpected (env : Env) (rc : RouteConfig) (resolvers : List String) : Except BuildErr (List Crit) :=
  match (if rc.toMatchedDomainExpectedPrefixes.isEmpty && rc.toMatchedDomainExpectedPrefixSets.isEmpty then .ok []
         else match mkPfxSet env rc.toMatchedDomainExpectedPrefixes rc.toMatchedDomainExpectedPrefixSets with
           | .error e => .error e
           | .ok s => .ok [wrap rc.invertToMatchedDomainExpectedPrefixes (.dstResolvedIP s resolvers)] : Except BuildErr (List Crit)) with
  | .error e => .error e
  | .ok g1 =>
    let g2 := if rc.toMatchedDomainExpectedGeoIPCountries.isEmpty then []
      else [wrap rc.invertToMatchedDomainExpectedGeoIPCountries (.dstResolvedGeo rc.toMatchedDomainExpectedGeoIPCountries resolvers)]
    .ok (g1 ++ g2)

def hasExpected (rc : RouteConfig) : Bool :=
  !rc.toMatchedDomainExpectedPrefixes.isEmpty || !rc.toMatchedDomainExpectedPrefixSets.isEmpty ||
    !rc.toMatchedDomainExpectedGeoIPCountries.isEmpty

/-- the domain part of the destination group -/
def secToDomain (env : Env) (rc : RouteConfig) (resolvers : List String) : Except BuildErr (List Crit) :=
  if rc.toDomains.isEmpty && rc.toDomainSets.isEmpty then .ok []
  else if !rc.toDomainSets.all (fun s => env.domSets.contains s) then .error .domainSetNotFound
  else
    let ds : DomSets := ⟨rc.toDomains, rc.toDomainSets⟩
    if hasExpected rc then
      match secExpected env rc resolvers with
      | .error e => .error e
      | .ok g => .ok [wrap rc.invertToDomains (.dstDomainExpected ds (groupCriterion g))]
    else .ok [wrap rc.invertToDomains (.dstDomain ds)]

def secToPrefix (env : Env) (rc : RouteConfig) (resolvers : List String) : Except BuildErr (List Crit) :=
  if rc.toPrefixes.isEmpty && rc.toPrefixSets.isEmpty then .ok []
  else match mkPfxSet env rc.toPrefixes rc.toPrefixSets with
    | .error e => .error e
    | .ok s =>
      if rc.disableNameResolutionForIPRules then .ok [wrap rc.invertToPrefixes (.dstIP s)]
      else .ok [wrap rc.invertToPrefixes (.dstResolvedIP s resolvers)]

def secToGeo (rc : RouteConfig) (resolvers : List String) : List Crit :=
  if rc.toGeoIPCountries.isEmpty then []
  else if rc.disableNameResolutionForIPRules then [wrap rc.invertToGeoIPCountries (.dstGeo rc.toGeoIPCountries)]
  else [wrap rc.invertToGeoIPCountries (.dstResolvedGeo rc.toGeoIPCountries resolvers)]

def secToAddr (env : Env) (rc : RouteConfig) (resolvers : List String) : Except BuildErr (List Crit) :=
  match secToDomain env rc resolvers with
  | .error e => .error e
  | .ok g1 =>
  match secToPrefix env rc resolvers with
  | .error e => .error e
  | .ok g2 => .ok (groupAppend (g1 ++ g2 ++ secToGeo rc resolvers))

/-- `RouteConfig.Route` -/
def build (env : Env) (rc : RouteConfig) : Except BuildErr Route :=
  match precheck env rc with
  | some e => .error e
  | none =>
  match resolversFor env rc with
  | .error e => .error e
  | .ok resolvers =>
  match secNetwork rc with
  | .error e => .error e
  | .ok cNet =>
  match secClients env rc with
  | .error e => .error e
  | .ok clients =>
  match secServers env rc with
  | .error e => .error e
  | .ok cSrv =>
  match secFromPorts rc with
  | .error e => .error e
  | .ok cSp =>
  match secFromAddr env rc with
  | .error e => .error e
  | .ok cSa =>
  match secToPorts rc with
  | .error e => .error e
  | .ok cDp =>
  match secToAddr env rc resolvers with
  | .error e => .error e
  | .ok cDa =>
    .ok { name := rc.name, criteria := cNet ++ cSrv ++ secUsers rc ++ cSp ++ cSa ++ cDp ++ cDa,
          tcpClient := clients.1, udpClient := clients.2 }

/-- `router.Config` (the parts that do not come from files) -/
structure Config where
  defaultTCPClientName : String := ""
  defaultUDPClientName : String := ""
  routes : List RouteConfig := []

structure Router where
  routes : List Route

/-- the `switch rc.DefaultTCPClientName` / `DefaultUDPClientName` of `Config.Router` -/
def defaultClient (name : String) (clients : List String) (notFound : BuildErr) : Except BuildErr (Option String) :=
  if name = C09.rejectName then .ok none
  else if name = "" then
    match clients with
    | [c] => .ok (some c)
    | _ => .ok none
  else if clients.contains name then .ok (some name) else .error notFound

def buildRoutes (env : Env) : List RouteConfig → Except BuildErr (List Route)
  | [] => .ok []
  | rc :: rcs =>
    match build env rc with
    | .error e => .error e
    | .ok r =>
      match buildRoutes env rcs with
      | .error e => .error e
      | .ok rs => .ok (r :: rs)

/-- `Config.Router` -/
def buildRouter (env : Env) (cfg : Config) : Except BuildErr Router :=
  match defaultClient cfg.defaultTCPClientName env.tcpClients .defaultTCPNotFound with
  | .error e => .error e
  | .ok dt =>
  match defaultClient cfg.defaultUDPClientName env.udpClients .defaultUDPNotFound with
  | .error e => .error e
  | .ok du =>
  match buildRoutes env cfg.routes with
  | .error e => .error e
  | .ok rs => .ok ⟨rs ++ [{ name := "default", criteria := [], tcpClient := dt, udpClient := du }]⟩

/-- what `GetTCPClient` / `GetUDPClient` return -/
inductive Res where
  | client (name : String)
  | rejected
  | error (e : Err)
  | panic
deriving DecidableEq, Repr

/-- `Route.TCPClient` / `Route.UDPClient` -/
def Route.clientFor (r : Route) (net : Net) : Res :=
  match (match net with | .tcp => r.tcpClient | .udp => r.udpClient) with
  | some c => .client c
  | none => .rejected

/-- what `Router.match` returns: the matched route, an error, or `panic("did not match default route")` -/
inductive MatchRes where
  | route (r : Route)
  | error (e : Err)
  | panic

/-- `Router.match` -/
def matchRoute (p : Params) (q : Req) : List Route → MatchRes
  | [] => .panic
  | r :: rs =>
    match meetAll p q r.criteria with
    | .yes => .route r
    | .no => matchRoute p q rs
    | .fail e => .error e
    | .panic => .panic

/-- `GetTCPClient` / `GetUDPClient`: `match`, then the client getter of the matched route -/
def getClient (p : Params) (r : Router) (q : Req) : Res :=
  match matchRoute p q r.routes with
  | .route rt => rt.clientFor q.net
  | .error e => .error e
  | .panic => .panic

/-- the name of the matched route (what `GetTCPClient` / `GetUDPClient` log as "route"); `none` when there is none -/
def matchedRoute (p : Params) (r : Router) (q : Req) : Option String :=
  match matchRoute p q r.routes with
  | .route rt => some rt.name
  | _ => none

end SSV.Router
