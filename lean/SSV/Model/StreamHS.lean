import SSV.Model.Parsers
/-
C06 (gap round): ss2022 `StreamServer.HandleStream` — the pre-authentication buffer arithmetic for every configuration
(salt length, 0/1 identity header, request-stream prefix length, allowSegmentedFixedLengthHeader, fallback) and what a peer
controls (how many bytes arrive and in which fragments, their content) — and the client's `initRead` + first payload chunk.
Ciphers are parameters; the read buffer is modelled by its length (`writeBuf[:n]` / `make([]byte, n)` both give len = n).
Sources: ss2022/tcp.go HandleStream, ss2022/stream.go initRead / Read / readOnceExpectFull.
-/
namespace SSV.Parsers
open SSV SSV.Go SSV.Outcome

/-- `readOnceExpectFull` / `io.ReadFull` on a transport that delivers `chunk0` bytes in its first read out of `total`:
returns the number of bytes now in the buffer or the error (with `n`). -/
def firstRead (segmented : Bool) (chunk0 total want : Nat) : Nat × Option Err :=
  if segmented then
    if want ≤ total then (want, Option.none) else if total = 0 then (0, some .eof) else (total, some .unexpectedEOF)
  else
    let n := min (min chunk0 total) want
    if total = 0 then (0, some .eof)
    else if n < want then (n, some .firstRead) else (n, Option.none)

structure HSCfg where
  saltLen : Nat
  idLen : Nat          -- 0, or IdentityHeaderLength when the server has an identity PSK
  urspLen : Nat        -- len(unsafeRequestStreamPrefix)
  segmented : Bool
  fallback : Bool      -- unsafeFallbackAddr.IsValid()

/-- what the deferred function of `HandleStream` does with an error: fallback hands `readBuf[:n]` to the fallback address -/
def hsFail (cfg : HSCfg) (readBufLen n : Nat) (e : Err) : R (Option (Addr × Bytes) × Nat) :=
  if n > 0 ∧ cfg.fallback then do
    goSliceN readBufLen n          -- Payload: readBuf[:n]
    pure (Option.none, n)
  else .err e
where goSliceN (len j : Nat) : R Unit := if j ≤ len then .ok () else .panic

/-- `HandleStream`. Peer-controlled: `chunk0`/`total` (arrival), the bytes (through the verdicts `replayed`, `prefixOk`,
`userFound`, `openFixed`, `openVar` of the salt pool / comparison / user table / AEAD), `rest` = stream after the first read.
Result: `(some (addr, payload), 0)` = request, `(none, n)` = fallback with the first `n` bytes. -/
def handleStream (cfg : HSCfg) (now : Int) (chunk0 total : Nat) (replayed prefixOk userFound saltAdded : Bool)
    (openFixed : Option Bytes) (openVar : Bytes → Option Bytes) (rest : Bytes) : R (Option (Addr × Bytes) × Nat) := do
  let identityHeaderStart := cfg.urspLen + cfg.saltLen
  let fixedLengthHeaderStart := identityHeaderStart + cfg.idLen
  let reservedStart := fixedLengthHeaderStart + Gen.C06.TCPRequestFixedLengthHeaderLength + Gen.C06.tagSize
  let bufferLen := reservedStart + Gen.C06.IdentityHeaderLength
  -- b = writeBuf[:bufferLen] when bufferLen ≤ cap(writeBuf), else make([]byte, bufferLen): len(b) = bufferLen
  let b : Bytes := List.replicate bufferLen 0
  let readBuf ← sliceTo b reservedStart
  let (n, rerr) := firstRead cfg.segmented chunk0 total reservedStart
  match rerr with
  | some e => hsFail cfg readBuf.length n e
  | Option.none => do
  let _ursp ← sliceTo b cfg.urspLen
  let _salt ← slice b cfg.urspLen identityHeaderStart
  let ct ← slice b fixedLengthHeaderStart reservedStart
  let reserved ← sliceFrom b reservedStart
  if replayed then hsFail cfg readBuf.length n .repeatedSalt else
  if !prefixOk then hsFail cfg readBuf.length n .prefixMismatch else do
  let idOk ← (if cfg.idLen ≠ 0 then do
      let ih ← slice b identityHeaderStart fixedLengthHeaderStart
      let _ ← arr 16 ih                                         -- cipher.Block.Decrypt(reserved, identityHeader): full blocks
      let _ ← arr 16 reserved
      let _ ← arr Gen.C06.IdentityHeaderLength reserved          -- [IdentityHeaderLength]byte(reserved)
      pure userFound
    else pure true : R Bool)
  if !idOk then hsFail cfg readBuf.length n .userNotFound else do
  let _ := ct
  match openFixed with                                           -- DecryptTo(reserved, ciphertext)
  | Option.none => hsFail cfg readBuf.length n .aead
  | some pt =>
    match parseTCPRequestFixedLengthHeader now pt with
    | .panic => .panic
    | .err e => hsFail cfg readBuf.length n e
    | .ok vhlen =>
      if !saltAdded then hsFail cfg readBuf.length n .repeatedSalt else do
      -- authenticated: n = 0, errors are plain errors from here on
      let want := vhlen + Gen.C06.tagSize                        -- writeBuf[:bufferLen] or make: len = want
      let (vct, _) ← readFull rest want
      match openVar vct with
      | Option.none => .err .aead
      | some vpt => do
        let (a, payload) ← parseTCPRequestVariableLengthHeader vpt
        pure (some (a, payload), 0)

/-- the client's first `Read`: `initRead` (buffer choice, prefix / salt / ciphertext slicing, response header) and the first
payload chunk. `bLen` = len of the caller's buffer, `saltLen` = len(PSK) = requestSaltLen, `openHdr` / `openChunk` = AEAD results. -/
def clientFirstRead (urspLen saltLen : Nat) (segmented : Bool) (now : Int) (reqSalt : Bytes) (bLen : Nat) (chunk0 total : Nat)
    (prefixOk : Bool) (openHdr : Option Bytes) (openChunk : Bytes → Option Bytes) (rest : Bytes) : R Nat := do
  let fixedLengthHeaderStart := urspLen + saltLen
  let bufferLen := fixedLengthHeaderStart + Gen.C06.TCPRequestFixedLengthHeaderLength + saltLen + Gen.C06.tagSize
  -- hb: b[:bufferLen] | getReadBuf()[:bufferLen] (cap streamReadMinBufferSize) | make
  let hbLen ← (if bufferLen ≤ bLen then pure bufferLen
    else if bufferLen ≤ Gen.C06.streamReadMinBufferSize then
      (if bufferLen ≤ Gen.C06.streamReadMinBufferSize then pure bufferLen else .panic)
    else pure bufferLen : R Nat)
  let hb : Bytes := List.replicate hbLen 0
  let (_, rerr) := firstRead segmented chunk0 total hbLen
  match rerr with
  | some e => .err e
  | Option.none => do
  let _ ← sliceTo hb urspLen
  if !prefixOk then .err .prefixMismatch else do
  let _salt ← slice hb urspLen fixedLengthHeaderStart
  let _ct ← sliceFrom hb fixedLengthHeaderStart
  match openHdr with
  | Option.none => .err .aead
  | some pt => do
    let rs ← sliceTo (reqSalt ++ List.replicate (32 - reqSalt.length) 0) saltLen     -- c.requestSalt[:c.requestSaltLen] on the [32]byte
    let payloadLen ← parseTCPResponseHeader now rs pt
    let bufLen := payloadLen + Gen.C06.tagSize
    -- readFirstPayloadChunk(b[:bufLen]) or readBuf[:bufLen] (cap streamReadMinBufferSize), then readBuf[:payloadLen]
    if bufLen ≤ bLen then do
      let (ct, _) ← readFull rest bufLen
      match openChunk ct with
      | Option.none => .err .aead
      | some _ => pure payloadLen
    else if Gen.C06.streamReadMinBufferSize < bufLen then .panic else do
      let (ct, _) ← readFull rest bufLen
      match openChunk ct with
      | Option.none => .err .aead
      | some _ => if bufLen < payloadLen then .panic else pure (min bLen payloadLen)

end SSV.Parsers
