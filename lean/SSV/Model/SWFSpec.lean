import SSV.Model.SWF
/-
Specification side of C04 for the sliding-window filter, written from the property statement:
the state is the list of delivered ids; an id is *fresh* iff it was not delivered yet and it is
newer than, or fewer than `size` behind, the newest delivered one (or nothing was delivered yet).
Also: operation sequences on the model (`add`, `check` = `IsOk` then `MustAdd`, `probe` = `IsOk`
only, `reset`) and the bookkeeping of what the model delivered.
-/
namespace SSV.SWF

/-- newest delivered id (0 when nothing was delivered) -/
def newest (d : List Nat) : Nat := d.foldr max 0

/-- the acceptance rule of the property statement -/
def Fresh (size : Nat) (d : List Nat) (c : Nat) : Prop :=
  c ∉ d ∧ (d = [] ∨ newest d < c ∨ newest d - c < size)

instance (size : Nat) (d : List Nat) (c : Nat) : Decidable (Fresh size d c) := by
  unfold Fresh; infer_instance

inductive Op where
  | add (c : Nat)    -- `Add(c)`
  | check (c : Nat)  -- `if IsOk(c) { MustAdd(c) }` (what the UDP unpackers do)
  | probe (c : Nat)  -- `IsOk(c)` only
  | reset            -- `Reset()`
deriving Repr, DecidableEq

/-- one operation on the model: new filter and verdict -/
def stepOp (f : Filter) : Op → Filter × Bool
  | .add c => add f c
  | .check c => if isOk f c then (mustAdd f c, true) else (f, false)
  | .probe c => (f, isOk f c)
  | .reset => (reset f, true)

/-- delivered ids (most recent first) after one operation, judged by the model's verdict -/
def stepDelivered (f : Filter) (d : List Nat) : Op → List Nat
  | .add c => if (add f c).2 then c :: d else d
  | .check c => if isOk f c then c :: d else d
  | .probe _ => d
  | .reset => []

def after (f : Filter) : List Op → Filter
  | [] => f
  | op :: r => after (stepOp f op).1 r

def verdicts (f : Filter) : List Op → List Bool
  | [] => []
  | op :: r => (stepOp f op).2 :: verdicts (stepOp f op).1 r

def deliveredFrom (f : Filter) (d : List Nat) : List Op → List Nat
  | [] => d
  | op :: r => deliveredFrom (stepOp f op).1 (stepDelivered f d op) r

/-- one operation on the specification -/
def specStep (size : Nat) (d : List Nat) : Op → List Nat × Bool
  | .add c => if Fresh size d c then (c :: d, true) else (d, false)
  | .check c => if Fresh size d c then (c :: d, true) else (d, false)
  | .probe c => (d, decide (Fresh size d c))
  | .reset => ([], true)

def specVerdicts (size : Nat) (d : List Nat) : List Op → List Bool
  | [] => []
  | op :: r => (specStep size d op).2 :: specVerdicts size (specStep size d op).1 r

def specDelivered (size : Nat) (d : List Nat) : List Op → List Nat
  | [] => d
  | op :: r => specDelivered size (specStep size d op).1 r

end SSV.SWF
