import SSV.Gen.C14
/-
C14 — lock-level model of `serverCollector.userCollector(username)` for ONE username: any number of
threads execute the regenerated program (and, as environment, snapshots take and release the read lock) `Gen.userCollector` statement by statement (each statement is one
step; `sc.mu` is a reader/writer lock: `Lock` waits until there is neither a writer nor a reader, `RLock`
until there is no writer). Collectors are object identities (`Nat`): `create` allocates a fresh one, `store`
puts the thread's `uc` into the map. This is the level at which "create if absent" could go wrong
(two first sessions of the same user racing: one collector replacing the other and its traffic vanishing
from every later snapshot).
-/
namespace SSV.StatsLock
open SSV.Gen.C14

structure LShared where
  /-- `sc.ucs[username]` -/
  entry : Option Nat
  /-- next fresh object identity -/
  next : Nat
  readers : Nat
  writer : Bool
  /-- how many of the read-lock holders are NOT callers of `userCollector` (snapshots iterating over `sc.ucs`) -/
  ext : Nat := 0

structure LThread where
  pc : Nat
  /-- the local variable `uc` (nil = none) -/
  uc : Option Nat

def lstep (prog : List LStep) (sh : LShared) (th : LThread) : Option (LShared × LThread) :=
  match prog[th.pc]? with
  | none => none
  | some .rlock => if sh.writer then none else some ({ sh with readers := sh.readers + 1 }, { th with pc := th.pc + 1 })
  | some .runlock => some ({ sh with readers := sh.readers - 1 }, { th with pc := th.pc + 1 })
  | some .lock => if sh.writer = true ∨ sh.readers ≠ 0 then none else some ({ sh with writer := true }, { th with pc := th.pc + 1 })
  | some .unlock => some ({ sh with writer := false }, { th with pc := th.pc + 1 })
  | some .lookup => some (sh, { pc := th.pc + 1, uc := sh.entry })
  | some (.skipIfSet n) => some (sh, { th with pc := if th.uc.isSome then th.pc + 1 + n else th.pc + 1 })
  | some .create => some ({ sh with next := sh.next + 1 }, { pc := th.pc + 1, uc := some sh.next })
  | some .store => some ({ sh with entry := th.uc }, { th with pc := th.pc + 1 })
  | some .ret => none

/-- the thread has executed `return uc` -/
def returned (prog : List LStep) (th : LThread) : Prop := prog[th.pc]? = some .ret

structure LConfig where
  sh : LShared
  threads : List LThread

inductive LStepRel (prog : List LStep) : LConfig → LConfig → Prop where
  | mk (pre post : List LThread) (th th' : LThread) (sh sh' : LShared) :
      lstep prog sh th = some (sh', th') → LStepRel prog ⟨sh, pre ++ th :: post⟩ ⟨sh', pre ++ th' :: post⟩
  /-- environment: a Snapshot / SnapshotAndReset takes the read lock (possible whenever there is no writer) -/
  | envRLock (sh : LShared) (ths : List LThread) : sh.writer = false →
      LStepRel prog ⟨sh, ths⟩ ⟨{ sh with readers := sh.readers + 1, ext := sh.ext + 1 }, ths⟩
  /-- environment: a snapshot releases the read lock -/
  | envRUnlock (sh : LShared) (ths : List LThread) : 0 < sh.ext →
      LStepRel prog ⟨sh, ths⟩ ⟨{ sh with readers := sh.readers - 1, ext := sh.ext - 1 }, ths⟩

inductive LReach (prog : List LStep) : LConfig → LConfig → Prop where
  | refl (c : LConfig) : LReach prog c c
  | tail {a b c : LConfig} : LReach prog a b → LStepRel prog b c → LReach prog a c

/-- `n` threads about to call `userCollector(username)`; the map may or may not hold the user already -/
def linit (entry : Option Nat) (n : Nat) : LConfig :=
  ⟨{ entry := entry, next := (match entry with | some r => r + 1 | none => 0), readers := 0, writer := false, ext := 0 },
   List.replicate n { pc := 0, uc := none }⟩

end SSV.StatsLock
