import SSV.Gen.C17
import SSV.Model.Lru
/-
Model of dns/dns.go: `resultBuilder.parseMsg`, `sendQueriesUDP`, `sendQueriesTCP`/`doTCP`,
`sendQueries`, `Resolver.Lookup` on an explicit clock (`Nat` nanoseconds).

`dnsmessage` parsing is a parameter: a received byte string is given to the model as the
sequence of outcomes the `dnsmessage.Parser` calls made by `parseMsg` have on it (`Wire`):
header parse failure, or the header fields plus, per section, the records that parse and how
the section ends (cleanly, header error, body/skip error). The harness computes this
description from the real bytes with the real `dnsmessage.Parser`.

The numbers and the shapes of the expiry assignments come from `SSV.Gen.C17`.

The cache is the *specification* LRU (`Lru.Spec`, a recency-ordered association list);
`SSV.C17.lru_refines_map` proves that the pointer-level model of cache/cache.go is
observationally equal to it for every operation sequence.
-/
namespace SSV.Dns
open SSV.Gen.C17

def typeA : Nat := 1
def typeAAAA : Nat := 28
def sec : Nat := 1000000000

/-- one answer-section record whose header and body parse -/
structure Ans where
  kind : Nat      -- RR type
  ttl : Nat       -- seconds
  addr : String   -- the address bytes (hex) for A / AAAA, "-" otherwise
deriving DecidableEq, Repr

/-- how the answer section ends after the records listed -/
inductive AnsEnd where
  | done                 -- ErrSectionDone
  | hdrErr               -- AnswerHeader() fails
  | bodyErr (ttl : Nat)  -- AnswerHeader() succeeds with this TTL, then AResource/AAAAResource/SkipAnswer fails
deriving DecidableEq, Repr

inductive AuthEnd where
  | done
  | hdrErr
  | skipErr (soa : Bool) (ttl : Nat)  -- AuthorityHeader() succeeds, SkipAuthority() fails
deriving DecidableEq, Repr

structure Msg where
  id : Nat
  response : Bool
  ra : Bool
  tc : Bool
  rcode : Nat
  qOk : Bool                  -- SkipAllQuestions succeeds
  answers : List Ans
  ansEnd : AnsEnd
  auths : List (Bool × Nat)   -- (type == SOA, ttl)
  authEnd : AuthEnd
deriving DecidableEq, Repr

inductive Wire where
  | garbage            -- parser.Start fails
  | msg (m : Msg)
deriving DecidableEq, Repr

/-- `dns.Result`; `exp = none` is the zero `time.Time` -/
structure Result where
  a : List String
  aaaa : List String
  exp : Option Nat
deriving DecidableEq, Repr

/-- `resultBuilder` -/
structure Builder where
  a : List String := []
  aaaa : List String := []
  exp : Option Nat := none
  v4done : Bool := false
  v6done : Bool := false
deriving DecidableEq, Repr

def Builder.result (b : Builder) : Result := { a := b.a, aaaa := b.aaaa, exp := b.exp }
def Builder.isDone (b : Builder) : Bool := b.v4done && b.v6done

/-- `if r.expiresAt.IsZero() || r.expiresAt.After(t) { r.expiresAt = t }` -/
def minExp (e : Option Nat) (t : Nat) : Option Nat :=
  match e with
  | none => some t
  | some x => if x > t then some t else some x

/-- what the returned header is used for by the callers -/
structure Hdr where
  id : Nat
  tc : Bool
  rcode : Nat
deriving DecidableEq, Repr

def Msg.hdr (m : Msg) : Hdr := { id := m.id, tc := m.tc, rcode := m.rcode }

/-- the failure-rcode branch, in the shape the source has now -/
def failureExp (e : Option Nat) (now : Nat) : Option Nat :=
  if failureExpiryMin then minExp e (now + rcodeFailureCachingDuration)
  else some (now + rcodeFailureCachingDuration)

/-- `// Set minimum TTL.` in the answer loop -/
def answerExp (e : Option Nat) (now ttl : Nat) : Option Nat :=
  if answerExpiryMin then minExp e (now + ttl * sec) else some (now + ttl * sec)

def applyAns (now : Nat) (b : Builder) (x : Ans) : Builder :=
  let b := { b with exp := answerExp b.exp now x.ttl }
  if x.kind = typeA then { b with a := b.a ++ [x.addr] }
  else if x.kind = typeAAAA then { b with aaaa := b.aaaa ++ [x.addr] }
  else b

def applyAuth (now : Nat) (b : Builder) (x : Bool × Nat) : Builder :=
  if x.1 then { b with exp := some (now + x.2 * sec) } else b

/-- the id check: `none` = unexpected id (error), `some (b, true)` = family already done (return header) -/
def idCheck (b : Builder) (id : Nat) : Option (Builder × Bool) :=
  if id = idV4 then (if b.v4done then some (b, true) else some ({ b with a := [] }, false))
  else if id = idV6 then (if b.v6done then some (b, true) else some ({ b with aaaa := [] }, false))
  else none

def markDone (b : Builder) (id : Nat) : Builder :=
  if id = idV4 then { b with v4done := true }
  else if id = idV6 then { b with v6done := true }
  else b

/-- `parseMsg` after the id check: response bit, RA, rcode, questions, answers, authorities, done. -/
def parseBody (b : Builder) (now : Nat) (m : Msg) (isUDP : Bool) : Builder × Option Hdr :=
  if !m.response then (b, none) else
  if !m.ra then (b, none) else
  if !(rcodeOk.contains m.rcode || rcodeFailure.contains m.rcode) then (b, none) else
  let b := if rcodeFailure.contains m.rcode then { b with exp := failureExp b.exp now } else b
  if !m.qOk then (b, none) else
  let b := m.answers.foldl (applyAns now) b
  match m.ansEnd with
  | .hdrErr => (b, none)
  | .bodyErr ttl => ({ b with exp := answerExp b.exp now ttl }, none)
  | .done =>
    let afterAuth : Builder × Bool :=
      if soaOnlyIfZero && b.exp.isSome then (b, true) else
      let b := m.auths.foldl (applyAuth now) b
      match m.authEnd with
      | .done => (b, true)
      | .hdrErr => (b, false)
      | .skipErr soa ttl => (applyAuth now b (soa, ttl), false)
    if !afterAuth.2 then (afterAuth.1, none) else
    let b := afterAuth.1
    let b := if !m.tc || !isUDP then markDone b m.id else b
    (b, some m.hdr)

/-- `resultBuilder.parseMsg(msg, isUDP)` at time `now` -/
def parseMsg (b : Builder) (now : Nat) (w : Wire) (isUDP : Bool) : Builder × Option Hdr :=
  match w with
  | .garbage => (b, none)
  | .msg m =>
    match idCheck b m.id with
    | none => (b, none)
    | some (b', true) => (b', some m.hdr)
    | some (b', false) => parseBody b' now m isUDP

/-! ### UDP receive loop (`sendQueriesUDP`) -/

inductive UdpEv where
  | dgram (dt : Nat) (fromServer : Bool) (w : Wire)  -- a datagram arrives `dt` after the previous event
  | readErr (dt : Nat)                                 -- a non-deadline read error / unpack error: `continue`
  | silence                                            -- nothing more arrives: the read deadline fires
deriving DecidableEq, Repr

/-- how the receive loop ended -/
inductive UdpStop where
  | timeout      -- read deadline (lookup timeout or script exhausted)
  | parseError   -- `parseMsg` returned an error: break, fall back to TCP
  | truncated    -- TC bit: break, fall back to TCP
  | done         -- both families answered
deriving DecidableEq, Repr

structure UdpOut where
  b : Builder
  now : Nat
  cancel4 : Bool := false   -- the A sender was told to stop
  cancel6 : Bool := false
  used : Nat := 0           -- events consumed
  why : UdpStop := .timeout
deriving DecidableEq, Repr

def udpLoop (deadline : Nat) (o : UdpOut) : List UdpEv → UdpOut
  | [] => { o with now := deadline, why := .timeout }
  | .silence :: _ => { o with now := deadline, used := o.used + 1, why := .timeout }
  | .readErr dt :: rest =>
    if o.now + dt > deadline then { o with now := deadline, why := .timeout }
    else udpLoop deadline { o with now := o.now + dt, used := o.used + 1 } rest
  | .dgram dt fromServer w :: rest =>
    if o.now + dt > deadline then { o with now := deadline, why := .timeout } else
    let o := { o with now := o.now + dt, used := o.used + 1 }
    if !fromServer then udpLoop deadline o rest else
    match parseMsg o.b o.now w true with
    | (b, none) => { o with b := b, why := .parseError }
    | (b, some h) =>
      let o := { o with b := b }
      if h.tc then { o with why := .truncated }
      else if b.isDone then { o with why := .done }
      else udpLoop deadline { o with cancel4 := o.cancel4 || h.id == idV4, cancel6 := o.cancel6 || h.id == idV6 } rest

def sendQueriesUDP (b : Builder) (now : Nat) (evs : List UdpEv) : UdpOut :=
  udpLoop (now + lookupTimeout) { b := b, now := now } evs

/-! ### TCP (`sendQueriesTCP`, `doTCP`) -/

inductive Frame where
  | wire (dt : Nat) (w : Wire)   -- a length-prefixed message arrives `dt` after the previous event
  | zero (dt : Nat)              -- a zero length field
deriving DecidableEq, Repr

inductive ConnEnd where
  | close (dt : Nat)      -- clean close on a message boundary: io.EOF on the length read
  | closeMid (dt : Nat)   -- close inside a length field or a message
  | hang                  -- silence: the read deadline fires at the lookup timeout
deriving DecidableEq, Repr

inductive Conn where
  | dialFail
  | conn (frames : List Frame) (fin : ConnEnd)
deriving DecidableEq, Repr

structure TcpOut where
  b : Builder
  now : Nat
  ok : Bool
deriving DecidableEq, Repr

def readLoop (deadline : Nat) (b : Builder) (now : Nat) (fin : ConnEnd) : List Frame → TcpOut
  | [] =>
    match fin with
    | .close dt => if now + dt > deadline then ⟨b, deadline, false⟩ else ⟨b, now + dt, true⟩
    | .closeMid dt => if now + dt > deadline then ⟨b, deadline, false⟩ else ⟨b, now + dt, false⟩
    | .hang => ⟨b, deadline, false⟩
  | .zero dt :: _ => if now + dt > deadline then ⟨b, deadline, false⟩ else ⟨b, now + dt, false⟩
  | .wire dt w :: rest =>
    if now + dt > deadline then ⟨b, deadline, false⟩ else
    match parseMsg b (now + dt) w false with
    | (b', none) => ⟨b', now + dt, false⟩
    | (b', some _) => if b'.isDone then ⟨b', now + dt, true⟩ else readLoop deadline b' (now + dt) fin rest

def doTCP (deadline : Nat) (b : Builder) (now : Nat) : Conn → TcpOut
  | .dialFail => ⟨b, now, false⟩
  | .conn frames fin => readLoop deadline b now fin frames

/-- which queries an attempt sends: "46", "6" or "4" -/
def querySubset (b : Builder) : String :=
  if b.v4done then "6" else if b.v6done then "4" else "46"

structure TcpTrace where
  b : Builder
  now : Nat
  queries : List String := []   -- per attempt, the queries written to the connection
deriving DecidableEq, Repr

/-- the retry loop `for range tcpAttempts`; a missing connection script means the dial fails -/
def tcpLoop (deadline : Nat) : Nat → TcpTrace → List Conn → TcpTrace
  | 0, t, _ => t
  | n + 1, t, conns =>
    if t.b.isDone then t else
    let q := querySubset t.b
    let r := doTCP deadline t.b t.now (conns.headD .dialFail)
    let t' : TcpTrace := { b := r.b, now := r.now, queries := t.queries ++ [q] }
    if !r.ok then t' else tcpLoop deadline n t' conns.tail

def sendQueriesTCP (b : Builder) (now : Nat) (conns : List Conn) : TcpTrace :=
  tcpLoop (now + lookupTimeout) tcpAttempts { b := b, now := now } conns

/-! ### `sendQueries` and `Lookup` -/

/-- the scripted upstream of one lookup -/
structure Upstream where
  udp : List UdpEv := []
  conns : List Conn := []
deriving DecidableEq, Repr

structure Config where
  hasUDP : Bool
  hasTCP : Bool
  cap : Nat
deriving DecidableEq, Repr

structure SendOut where
  b : Builder
  now : Nat
  udpTried : Bool := false
  udp : Option UdpOut := none
  tcpTried : Bool := false
  tcpQueries : List String := []
deriving DecidableEq, Repr

def sendQueries (cfg : Config) (now : Nat) (up : Upstream) : SendOut :=
  let b0 : Builder := {}
  let s1 : SendOut :=
    if cfg.hasUDP then
      let u := sendQueriesUDP b0 now up.udp
      { b := u.b, now := u.now, udpTried := true, udp := some u }
    else { b := b0, now := now }
  if !s1.b.isDone && cfg.hasTCP then
    let t := sendQueriesTCP s1.b s1.now up.conns
    { s1 with b := t.b, now := t.now, tcpTried := true, tcpQueries := t.queries }
  else s1

/-- `Result.HasExpired()` at time `now`: `expiresAt.Before(now)` -/
def Result.hasExpired (r : Result) (now : Nat) : Bool :=
  match r.exp with
  | none => true
  | some e => e < now

inductive Outcome where
  | hit (r : Result)      -- served from the cache, not expired
  | fresh (r : Result)    -- upstream answered both queries; cached
  | stale (r : Result)    -- upstream failed; expired entry served
  | fail                  -- upstream failed; nothing cached
deriving DecidableEq, Repr

structure State where
  cache : Lru.Spec String Result := []
  now : Nat := 0
deriving Repr

structure LookupOut where
  st : State
  out : Outcome
  send : Option SendOut   -- `none` on a cache hit
deriving Repr

/-- `Resolver.Lookup(name)` started at `st.now` -/
def lookup (cfg : Config) (st : State) (name : String) (up : Upstream) : LookupOut :=
  let (cache, cached) := Lru.Spec.get st.cache name
  match cached with
  | some r =>
    if !r.hasExpired st.now then { st := { st with cache := cache }, out := .hit r, send := none } else
    let s := sendQueries cfg st.now up
    if !s.b.isDone then { st := { cache := cache, now := s.now }, out := .stale r, send := some s }
    else { st := { cache := Lru.Spec.set cfg.cap cache name s.b.result, now := s.now }, out := .fresh s.b.result, send := some s }
  | none =>
    let s := sendQueries cfg st.now up
    if !s.b.isDone then { st := { cache := cache, now := s.now }, out := .fail, send := some s }
    else { st := { cache := Lru.Spec.set cfg.cap cache name s.b.result, now := s.now }, out := .fresh s.b.result, send := some s }

/-! ### Concurrent lookups on one resolver

`Resolver.Lookup` holds the mutex only around the cache probe (`r.cache.Get(name)`) and around the
store (`r.cache.Set(name, result)`); the upstream round trip runs unlocked. A lookup is therefore two
atomic actions, `probe` and `finish`, and lookups of several goroutines interleave arbitrarily
between them. Between the two actions the goroutine keeps only *values* (the name, the copied
`Result`), never a pointer into the cache: that is the Gen fact `lookupCacheOps`
(`[Get(name), Set(name, result)]`, each inside a lock region, no other access to `r.cache`). -/

/-- a lookup between its probe and its store -/
structure Pending where
  name : String
  cached : Option Result   -- the (expired) value copied out of the cache by the probe
  start : Nat              -- when the upstream round trip started
deriving DecidableEq, Repr

inductive Act where
  | probe (tid : Nat) (name : String) (now : Nat)   -- goroutine `tid` calls Lookup(name) at `now`: locked cache probe
  | finish (tid : Nat) (up : Upstream)              -- its upstream round trip ends (script `up`): locked store / serve-stale
deriving DecidableEq, Repr

structure CState where
  cache : Lru.Spec String Result := []
  pending : List (Nat × Pending) := []
deriving Repr

structure CEvent where
  tid : Nat
  name : String
  out : Outcome
deriving DecidableEq, Repr

def findPending (ps : List (Nat × Pending)) (tid : Nat) : Option (Nat × Pending) := ps.find? (fun tp => tp.1 == tid)

def cstep (cfg : Config) (s : CState) : Act → CState × Option CEvent
  | .probe tid name now =>
    match findPending s.pending tid with
    | some _ => (s, none)   -- the goroutine is busy: not a new call
    | none =>
      let (cache, cached) := Lru.Spec.get s.cache name
      let pend : CState × Option CEvent :=
        ({ cache := cache, pending := (tid, { name := name, cached := cached, start := now }) :: s.pending }, none)
      match cached with
      | some r => if !r.hasExpired now then ({ s with cache := cache }, some ⟨tid, name, .hit r⟩) else pend
      | none => pend
  | .finish tid up =>
    match findPending s.pending tid with
    | none => (s, none)
    | some tp =>
      let p := tp.2
      let so := sendQueries cfg p.start up
      let pending := s.pending.filter (fun x => !(x.1 == tid))
      if !so.b.isDone then
        ({ s with pending := pending }, some ⟨tid, p.name, match p.cached with | some r => .stale r | none => .fail⟩)
      else
        ({ cache := Lru.Spec.set cfg.cap s.cache p.name so.b.result, pending := pending },
          some ⟨tid, p.name, .fresh so.b.result⟩)

def crun (cfg : Config) (s : CState) : List Act → CState × List CEvent
  | [] => (s, [])
  | a :: rest =>
    let (s1, ev) := cstep cfg s a
    let (s2, evs) := crun cfg s1 rest
    (s2, match ev with | some e => e :: evs | none => evs)

end SSV.Dns
