import SSV.Gen.C18
/-
Model of the configuration validation path of `service.Config.Manager` (service/service.go,
server.go, client.go, udp.go; ss2022/policy.go, crypto.go, udp.go; router/router.go, route.go;
dns/dns.go; clientgroups/clientgroups.go), restricted to the fields that decide the invariants
named by property C18.  It mirrors the ORDER of the checks of the code (the first failing check
decides the error class) and takes every number, table and the presence of the two load-time
checks added for F4/F15/F20 from the regenerated `SSV.Gen.C18` (absent check => the model accepts, as the code does).

A configuration is a plain structure; JSON "omitted" is `none` for the policy fields and the zero
value for everything else (that is what `encoding/json` + `omitzero` give the code).
Durations are `Int` nanoseconds, JSON ints are `Int`, `slidingWindowFilterSize` (uint64) is `Nat`.
-/
namespace SSV.Config
open SSV.Gen

-- ---------------------------------------------------------------- basic types

inductive Proto
  | direct | tproxy | redirect | none_ | socks5 | http | ss128 | ss256 | other
deriving DecidableEq, Repr, Inhabited

def Proto.ofString (s : String) : Proto :=
  if s = "direct" then .direct else if s = "tproxy" then .tproxy else if s = "redirect" then .redirect
  else if s = "none" then .none_ else if s = "plain" then .none_ else if s = "socks5" then .socks5
  else if s = "http" then .http else if s = "2022-blake3-aes-128-gcm" then .ss128
  else if s = "2022-blake3-aes-256-gcm" then .ss256 else .other

def Proto.isSS : Proto → Bool
  | .ss128 | .ss256 => true
  | _ => false

/-- the method name `CheckPSKLength` is called with -/
def Proto.method : Proto → String
  | .ss128 => "2022-blake3-aes-128-gcm"
  | .ss256 => "2022-blake3-aes-256-gcm"
  | _ => ""

/-- `ss2022.PSKLengthForMethod` -/
def pskLenFor (p : Proto) : Option Nat := C18.pskLengths.lookup p.method

/-- kind of a `conn.Addr` field -/
inductive Addr
  | absent | ip | domain
deriving DecidableEq, Repr, Inhabited

def Addr.valid : Addr → Bool
  | .absent => false
  | _ => true

/-- uPSK store file: none configured / holds keys of one length / unreadable -/
inductive Upsk
  | none | keys (len : Nat) | missing
deriving DecidableEq, Repr, Inhabited

structure UL where
  network : String := "udp"
  batchMode : String := ""
  relayBatch : Int := 0
  recvBatch : Int := 0
  sendCap : Int := 0
  natTimeout : Int := 0
deriving DecidableEq, Repr, Inhabited

structure TL where
  network : String := "tcp"
  waitTimeout : Int := 0
  waitBuf : Int := 0
deriving DecidableEq, Repr, Inhabited

structure Server where
  name : String := ""
  proto : Proto := .other
  tcpListeners : List TL := []
  udpListeners : List UL := []
  mtu : Int := 0
  -- legacy single-listener fields
  enableTCP : Bool := false
  enableUDP : Bool := false
  natTimeoutSec : Int := 0
  udpBatchMode : String := ""
  udpRelayBatch : Int := 0
  udpRecvBatch : Int := 0
  udpSendCap : Int := 0
  -- direct
  tunnel : Addr := .absent
  targetOnly : Bool := false
  -- http
  httpTLS : Bool := false
  httpCertList : Bool := false
  -- ss2022
  pskLen : Nat := 0
  upsk : Upsk := .none
  padding : Option String := none
  reject : Option String := none
  filterSize : Nat := 0
deriving DecidableEq, Repr, Inhabited

structure Client where
  name : String := ""
  proto : Proto := .other
  network : String := ""
  endpoint : Bool := false
  tcpAddr : Bool := false
  udpAddr : Bool := false
  enableTCP : Bool := false
  enableUDP : Bool := false
  mtu : Int := 0
  s5auth : Bool := false
  s5userLen : Nat := 0
  s5passLen : Nat := 0
  pskLen : Nat := 0
  ipskLens : List Nat := []
  padding : Option String := none
  filterSize : Nat := 0
deriving DecidableEq, Repr, Inhabited

structure Group where
  name : String := ""
  tcpPolicy : String := ""
  tcpClients : List String := []
  udpPolicy : String := ""
  udpClients : List String := []
deriving DecidableEq, Repr, Inhabited

structure Resolver where
  name : String := ""
  type : String := ""
  addrValid : Bool := false
  tcpClient : String := ""
  udpClient : String := ""
deriving DecidableEq, Repr, Inhabited

/-- one comma-separated item of `fromPortRanges` / `toPortRanges` (`portset.PortSet.Parse`) -/
inductive PortItem
  | single (p : Nat) | range (lo hi : Nat) | junk
deriving DecidableEq, Repr, Inhabited

structure Route where
  name : String := ""
  network : String := ""
  client : String := ""
  resolver : String := ""
  fromServers : List String := []
  /-- user names are matched at request time only: nothing to resolve at load -/
  fromUsers : List String := []
  fromPorts : List Nat := []
  fromRanges : List PortItem := []
  toPorts : List Nat := []
  toRanges : List PortItem := []
  fromPrefixSets : List String := []
  toDomains : Bool := false
  toDomainSets : List String := []
  toPrefixes : Bool := false
  toPrefixSets : List String := []
  toMatchedPrefixes : Bool := false
  toMatchedPrefixSets : List String := []
  fromGeo : Bool := false
  toGeo : Bool := false
  toMatchedGeo : Bool := false
  disableNameRes : Bool := false
deriving DecidableEq, Repr, Inhabited

structure Router where
  defaultTCP : String := ""
  defaultUDP : String := ""
  domainSets : List String := []
  prefixSets : List String := []
  routes : List Route := []
deriving DecidableEq, Repr, Inhabited

/-- `secretPath` of the API block, as far as `http.ServeMux` patterns care -/
inductive Secret
  | none | plain | wildcard | malformed
deriving DecidableEq, Repr, Inhabited

structure ApiListener where
  tls : Bool := false
  certList : Bool := false     -- names a certificate list (none exists in the modelled subset)
  clientCAs : Bool := false
deriving DecidableEq, Repr, Inhabited

structure Api where
  enabled : Bool := false
  listeners : List ApiListener := []
  secret : Secret := .none
  pprof : Bool := false
  static : Bool := false
deriving DecidableEq, Repr, Inhabited

structure Config where
  servers : List Server := []
  clients : List Client := []
  groups : List Group := []
  resolvers : List Resolver := []
  router : Router := {}
  api : Api := {}
deriving DecidableEq, Repr, Inhabited

-- ---------------------------------------------------------------- effective configuration

structure EffUL where
  batchMode : String
  relayBatch : Int
  recvBatch : Int
  sendCap : Int
  natTimeout : Int
deriving DecidableEq, Repr, Inhabited

structure EffServer where
  name : String
  proto : Proto
  tcp : Nat                      -- number of TCP listeners
  udp : List EffUL
  /-- reject policy function handed to the ss2022 stream server (ss2022 with TCP only) -/
  reject : Option String
  /-- padding policy function / filter size handed to the ss2022 UDP server (ss2022 with UDP only) -/
  padding : Option String
  filterSize : Option Nat
deriving DecidableEq, Repr, Inhabited

structure EffClient where
  name : String
  network : String
  tcp : Bool
  udp : Bool
  padding : Option String        -- ss2022 with UDP only
  filterSize : Option Nat
deriving DecidableEq, Repr, Inhabited

structure Eff where
  clients : List EffClient
  servers : List EffServer
  /-- per route: the kind of source / destination port criterion built (`-`, `single`, `ranges`, `bitset`) -/
  routes : List (String × String) := []
  /-- names usable as TCP / UDP clients (clients and client groups) -/
  tcpNames : List String
  udpNames : List String
deriving DecidableEq, Repr, Inhabited

abbrev R (α : Type) := Except String α

/-- `for x in xs { y, err := f(x); if err != nil { return err } }` -/
def mapE {α β : Type} (f : α → R β) : List α → R (List β)
  | [] => .ok []
  | x :: xs =>
    match f x with
    | .error e => .error e
    | .ok y =>
      match mapE f xs with
      | .error e => .error e
      | .ok ys => .ok (y :: ys)

/-- a run of `if cond { return err }` statements: the first condition that holds decides the error -/
def firstErr : List (Bool × String) → Option String
  | [] => none
  | (c, e) :: rest => if c then some e else firstErr rest

-- ---------------------------------------------------------------- policy fields (ss2022/policy.go)

/-- `*PolicyField.UnmarshalText` at JSON decoding time followed by `.Policy()`:
    omitted field -> the nil branch of `Policy()`; a string -> the table of `UnmarshalText`.
    `none`: the text is rejected (the JSON document does not decode). -/
def policyOf (nilDefault : String) (names : List (String × String)) : Option String → Option String
  | none => some nilDefault
  | some s => names.lookup s

def rejectOf : Option String → Option String := policyOf C18.rejectNilDefault C18.rejectNames
def paddingOf : Option String → Option String := policyOf C18.paddingNilDefault C18.paddingNames

/-- the JSON document decodes (every policy text is known) -/
def Server.decodes (s : Server) : Bool := (rejectOf s.reject).isSome && (paddingOf s.padding).isSome
def Client.decodes (c : Client) : Bool := (paddingOf c.padding).isSome

/-- `NewUDPServer` / `NewUDPClient`: zero selects the default -/
def effFilterSize (n : Nat) : Nat := if n = 0 then C18.DefaultSlidingWindowFilterSize else n

/-- load-time bound on `slidingWindowFilterSize` (absent in the code => `none` => no check) -/
def filterSizeOK (max : Option Nat) (n : Nat) : Bool :=
  match max with
  | none => true
  | some m => decide (n ≤ m)

-- ---------------------------------------------------------------- clients (service/client.go)

def networkOK (s : String) : Bool := s = "" || s = "ip" || s = "ip4" || s = "ip6"

/-- `checkAddresses` -/
def Client.addressesOK (c : Client) : Bool :=
  if c.proto = .direct then true
  else if c.endpoint = (c.tcpAddr || c.udpAddr) then false
  else if c.endpoint then true
  else if c.enableTCP && !c.tcpAddr then false
  else if c.enableUDP && !c.udpAddr then false
  else true

def lenOK (n : Nat) : Bool := decide (0 < n) && decide (n ≤ 255)

/-- `CheckPSKLength(method, psk, psks)` -/
def pskOK (p : Proto) (psk : Nat) (psks : List Nat) : Bool :=
  match pskLenFor p with
  | none => false
  | some l => decide (psk = l) && psks.all (fun k => decide (k = l))

/-- protocols `TCPClient` knows -/
def Proto.clientTCP : Proto → Bool
  | .direct | .none_ | .socks5 | .http | .ss128 | .ss256 => true
  | _ => false

/-- protocols `UDPClient` knows -/
def Proto.clientUDP : Proto → Bool
  | .direct | .none_ | .socks5 | .ss128 | .ss256 => true
  | _ => false

/-- the checks of `ClientConfig.Initialize`, `TCPClient`, `UDPClient`, in order -/
def Client.checks (c : Client) : List (Bool × String) :=
  [ (!networkOK c.network, "client-network"),
    (!c.addressesOK, "client-address"),
    (c.proto = .socks5 && c.s5auth && !(lenOK c.s5userLen && lenOK c.s5passLen), "client-socks5-auth"),
    (c.proto.isSS && !pskOK c.proto c.pskLen c.ipskLens, "client-psk"),
    (c.proto.isSS && !filterSizeOK C18.clientFilterSizeMax c.filterSize, "client-filter-size"),
    (c.enableTCP && !c.proto.clientTCP, "client-protocol"),
    (c.enableUDP && decide (c.mtu < (C18.clientMTUMin : Int)), "client-mtu"),
    (c.enableUDP && !c.proto.clientUDP, "client-protocol") ]

def Client.eff (c : Client) : EffClient :=
  let ssu := c.proto.isSS && c.enableUDP
  { name := c.name, network := if c.network = "" then "ip" else c.network,
    tcp := c.enableTCP, udp := c.enableUDP,
    padding := if ssu then paddingOf c.padding else none,
    filterSize := if ssu then some (effFilterSize c.filterSize) else none }

/-- `ClientConfig.Initialize`, `TCPClient`, `UDPClient` -/
def checkClient (c : Client) : R EffClient :=
  match firstErr c.checks with
  | some e => .error e
  | none => .ok c.eff

/-- the client added by `Manager` when `clients` is empty -/
def defaultClient : Client :=
  { name := C18.defaultClientName, proto := Proto.ofString C18.defaultClientProtocol,
    enableTCP := C18.defaultClientTCP, enableUDP := C18.defaultClientUDP, mtu := C18.defaultClientMTU }

def effectiveClients (c : Config) : List Client := if c.clients.isEmpty then [defaultClient] else c.clients

/-- the client loop of `Manager`: duplicate name, then Initialize/TCPClient/UDPClient -/
def checkClients : List String → List Client → R (List EffClient)
  | _, [] => .ok []
  | seen, c :: cs =>
    if seen.contains c.name then .error "dup-client"
    else match checkClient c with
      | .error e => .error e
      | .ok ec => match checkClients (c.name :: seen) cs with
        | .error e => .error e
        | .ok ecs => .ok (ec :: ecs)

-- ---------------------------------------------------------------- client groups

def groupPolicyOK (p : String) : Bool :=
  p = "round-robin" || p = "random" || p = "availability" || p = "latency" || p = "min-max-latency"

/-- `AddClientGroup` (returns the extended TCP / UDP name maps) -/
def addGroup (g : Group) (tcp udp : List String) : R (List String × List String) :=
  if g.tcpClients.isEmpty && g.udpClients.isEmpty then .error "group-empty"
  else if !g.tcpClients.isEmpty && !g.tcpClients.all tcp.contains then .error "group-tcp-notfound"
  else if !g.tcpClients.isEmpty && !groupPolicyOK g.tcpPolicy then .error "group-tcp-policy"
  else
    let tcp' := if g.tcpClients.isEmpty then tcp else g.name :: tcp
    if !g.udpClients.isEmpty && !g.udpClients.all udp.contains then .error "group-udp-notfound"
    else if !g.udpClients.isEmpty && !groupPolicyOK g.udpPolicy then .error "group-udp-policy"
    else .ok (tcp', if g.udpClients.isEmpty then udp else g.name :: udp)

def checkGroups (clientNames : List String) : List String → List Group → List String → List String → R (List String × List String)
  | _, [], tcp, udp => .ok (tcp, udp)
  | seen, g :: gs, tcp, udp =>
    if clientNames.contains g.name then .error "group-name-is-client"
    else if seen.contains g.name then .error "dup-group"
    else match addGroup g tcp udp with
      | .error e => .error e
      | .ok (tcp', udp') => checkGroups clientNames (g.name :: seen) gs tcp' udp'

-- ---------------------------------------------------------------- DNS resolvers (dns/dns.go)

def checkResolver (r : Resolver) (tcp udp : List String) : R Unit :=
  if r.type = "system" then
    if r.addrValid || r.tcpClient ≠ "" || r.udpClient ≠ "" then .error "resolver-system-extras" else .ok ()
  else if !(r.type = "plain" || r.type = "") then .error "resolver-type"
  else if !r.addrValid then .error "resolver-address"
  else if r.tcpClient = "" && r.udpClient = "" then .error "resolver-no-client"
  else if r.tcpClient ≠ "" && !tcp.contains r.tcpClient then .error "resolver-tcp-notfound"
  else if r.udpClient ≠ "" && !udp.contains r.udpClient then .error "resolver-udp-notfound"
  else .ok ()

def checkResolvers (tcp udp : List String) : List String → List Resolver → R Unit
  | _, [] => .ok ()
  | seen, r :: rs =>
    if seen.contains r.name then .error "dup-resolver"
    else match checkResolver r tcp udp with
      | .error e => .error e
      | .ok () => checkResolvers tcp udp (r.name :: seen) rs

-- ---------------------------------------------------------------- server names

def checkUnique (code : String) : List String → List String → R Unit
  | _, [] => .ok ()
  | seen, n :: ns => if seen.contains n then .error code else checkUnique code (n :: seen) ns

/-- `len(serverIndexByName)` after the loop of `Manager` in which EVERY server stores its index under its
    name (`serverIndexByName[name] = i`): the number of distinct names. -/
def mapSize : List String → Nat
  | [] => 0
  | n :: ns => if ns.contains n then mapSize ns else mapSize ns + 1

/-- capacity of the `fromServers` bit set of a route (`bitset.NewBitSet(uint(len(serverIndexByName)))`);
    `SourceServerCriterion.Meet` tests bit `requestInfo.ServerIndex` = the position of the server in `servers`,
    and `bitset.IsSet` panics when the index is not below the capacity. -/
def Config.bitsetCapacity (c : Config) : Nat := mapSize (c.servers.map (·.name))

-- ---------------------------------------------------------------- router (router/router.go, route.go)

def defaultClientOK (name : String) (names : List String) : Bool :=
  name = "reject" || name = "" || names.contains name

-- port criteria (router/route.go, portset/portset.go)

/-- `PortSet.Parse` accepts the item -/
def PortItem.valid : PortItem → Bool
  | .single p => decide (1 ≤ p) && decide (p ≤ 65535)
  | .range lo hi => decide (1 ≤ lo) && decide (hi ≤ 65535) && decide (lo < hi)
  | .junk => false

def PortItem.covers : PortItem → Nat → Bool
  | .single q, p => q == p
  | .range lo hi, p => decide (lo ≤ p) && decide (p ≤ hi)
  | .junk, _ => false

/-- membership in the port set built from a port list and the parsed range items -/
def portCovered (ports : List Nat) (items : List PortItem) (p : Nat) : Bool :=
  ports.contains p || items.any (·.covers p)

/-- `PortSet.Count` -/
def portCount (ports : List Nat) (items : List PortItem) : Nat :=
  ((List.range 65536).filter (portCovered ports items)).length

/-- `PortSet.RangeCount`: the number of maximal runs -/
def portRangeCount (ports : List Nat) (items : List PortItem) : Nat :=
  ((List.range 65536).filter (fun p => portCovered ports items p && !(decide (0 < p) && portCovered ports items (p - 1)))).length

def hasPorts (ports : List Nat) (items : List PortItem) : Bool := !ports.isEmpty || !items.isEmpty

/-- which criterion `Route` builds: one port, a range set (at most 16 ranges) or the bit set -/
def portKind (ports : List Nat) (items : List PortItem) : String :=
  if !hasPorts ports items then "-"
  else if portCount ports items = 1 then "single"
  else if portRangeCount ports items ≤ 16 then "ranges"
  else "bitset"

/-- the three checks of a port criterion: a zero port in the list, an item `Parse` refuses, all 65535 ports -/
def portChecks (ports : List Nat) (items : List PortItem) : List (Bool × String) :=
  [ (ports.contains 0, "route-port-zero"),
    (!items.all (·.valid), "route-port-ranges"),
    (hasPorts ports items && portCount ports items == 65535, "route-ports-all") ]

/-- `RouteConfig.Route`, the checks up to the construction of the criteria, in order -/
def Route.checks (rt : Route) (resolvers tcp udp servers domainSets prefixSets : List String) : List (Bool × String) :=
  [ (rt.name = "" || rt.name = "default", "route-name"),
    (rt.fromGeo || rt.toGeo || rt.toMatchedGeo, "route-geoip"),
    (resolvers.isEmpty &&
      (rt.toMatchedPrefixes || !rt.toMatchedPrefixSets.isEmpty ||
        (!rt.disableNameRes && (rt.toPrefixes || !rt.toPrefixSets.isEmpty))), "route-no-resolvers"),
    (!rt.toDomains && rt.toDomainSets.isEmpty && (rt.toMatchedPrefixes || !rt.toMatchedPrefixSets.isEmpty), "route-no-domain-criteria"),
    (rt.resolver ≠ "" && !resolvers.contains rt.resolver, "route-resolver-notfound"),
    (!(rt.network = "" || rt.network = "tcp" || rt.network = "udp"), "route-network"),
    (rt.client ≠ "reject" && (rt.network = "" || rt.network = "tcp") && !tcp.contains rt.client, "route-tcp-notfound"),
    (rt.client ≠ "reject" && (rt.network = "" || rt.network = "udp") && !udp.contains rt.client, "route-udp-notfound"),
    (!rt.fromServers.all servers.contains, "route-server-notfound") ] ++
  portChecks rt.fromPorts rt.fromRanges ++
  [ (!rt.fromPrefixSets.all prefixSets.contains, "route-prefixset-notfound") ] ++
  portChecks rt.toPorts rt.toRanges ++
  [ (!rt.toDomainSets.all domainSets.contains, "route-domainset-notfound"),
    ((rt.toDomains || !rt.toDomainSets.isEmpty) && !rt.toMatchedPrefixSets.all prefixSets.contains, "route-prefixset-notfound"),
    (!rt.toPrefixSets.all prefixSets.contains, "route-prefixset-notfound") ]

def checkRoute (rt : Route) (resolvers tcp udp servers domainSets prefixSets : List String) : R Unit :=
  match firstErr (rt.checks resolvers tcp udp servers domainSets prefixSets) with
  | some e => .error e
  | none => .ok ()

def checkRoutes (resolvers tcp udp servers domainSets prefixSets : List String) : List Route → R Unit
  | [] => .ok ()
  | rt :: rts =>
    match checkRoute rt resolvers tcp udp servers domainSets prefixSets with
    | .error e => .error e
    | .ok () => checkRoutes resolvers tcp udp servers domainSets prefixSets rts

/-- the set loops of `Config.Router`: a duplicate name is an error iff the code checks it -/
def setNamesOK (checked : Bool) (code : String) (names : List String) : R Unit :=
  if checked then checkUnique code [] names else .ok ()

def checkRouter (r : Router) (resolvers tcp udp servers : List String) : R Unit :=
  if !defaultClientOK r.defaultTCP tcp then .error "router-default-tcp"
  else if !defaultClientOK r.defaultUDP udp then .error "router-default-udp"
  else match setNamesOK C18.domainSetNamesUnique "dup-domainset" r.domainSets with
  | .error e => .error e
  | .ok () => match setNamesOK C18.prefixSetNamesUnique "dup-prefixset" r.prefixSets with
  | .error e => .error e
  | .ok () => checkRoutes resolvers tcp udp servers r.domainSets r.prefixSets r.routes

-- ---------------------------------------------------------------- servers (service/server.go, udp.go)

/-- legacy `enableTCP` appends `{network: "tcp"}` -/
def Server.allTCP (s : Server) : List TL :=
  if s.enableTCP then s.tcpListeners ++ [{ network := "tcp" }] else s.tcpListeners

/-- legacy `enableUDP` appends a listener built from the single-listener fields -/
def Server.allUDP (s : Server) : List UL :=
  if s.enableUDP then
    s.udpListeners ++ [{ network := "udp", batchMode := s.udpBatchMode, relayBatch := s.udpRelayBatch,
                         recvBatch := s.udpRecvBatch, sendCap := s.udpSendCap,
                         natTimeout := s.natTimeoutSec * 1000000000 }]
  else s.udpListeners

/-- `TCPListenerConfig.Configure` -/
def checkTL (l : TL) : R Unit :=
  if !(l.network = "tcp" || l.network = "tcp4" || l.network = "tcp6") then .error "tcp-listener-network"
  else if l.waitTimeout < 0 then .error "tcp-listener-timeout"
  else if l.waitBuf < 0 then .error "tcp-listener-bufsize"
  else .ok ()

/-- the ranged fields of `UDPPerfConfig.CheckAndApplyDefaults` -/
def rangeDefault (x max dflt : Int) : Option Int :=
  if 0 < x ∧ x ≤ max then some x else if x = 0 then some dflt else none

def capDefault (x : Int) : Option Int :=
  if (C18.sendCapMin : Int) ≤ x then some x else if x = 0 then some C18.sendCapDefault else none

def natTooSmall (nat min : Int) : Bool :=
  if C18.natTimeoutRejectsEqual then decide (nat ≤ min) else decide (nat < min)

/-- the NAT timeout switch of `UDPListenerConfig.Configure`: zero selects the default, a value below the
    session server's minimum is refused -/
def natEff (minNat nat : Int) : Option Int :=
  if nat = 0 then some C18.natTimeoutDefault else if natTooSmall nat minNat then none else some nat

/-- `UDPListenerConfig.Configure` -/
def checkUL (minNat : Int) (l : UL) : R EffUL :=
  if !(l.network = "udp" || l.network = "udp4" || l.network = "udp6") then .error "udp-listener-network"
  else if !C18.batchModes.contains l.batchMode then .error "udp-batch-mode"
  else match rangeDefault l.relayBatch C18.relayBatchMax C18.relayBatchDefault with
    | none => .error "udp-relay-batch"
    | some rb => match rangeDefault l.recvBatch C18.recvBatchMax C18.recvBatchDefault with
      | none => .error "udp-recv-batch"
      | some sb => match capDefault l.sendCap with
        | none => .error "udp-send-capacity"
        | some cc => match natEff minNat l.natTimeout with
          | none => .error "nat-timeout"
          | some nt => .ok { batchMode := l.batchMode, relayBatch := rb, recvBatch := sb, sendCap := cc, natTimeout := nt }

/-- protocols `TCPRelay` knows -/
def Proto.serverTCP : Proto → Bool
  | .other => false
  | _ => true

/-- protocols `UDPRelay` knows -/
def Proto.serverUDP : Proto → Bool
  | .direct | .tproxy | .none_ | .socks5 | .ss128 | .ss256 => true
  | _ => false

def minNatOf (p : Proto) : Int := if p.isSS then (C18.ss2022MinNATTimeout : Int) else 0

def upskOK (p : Proto) : Upsk → Bool
  | .none => true
  | .missing => false
  | .keys l => pskLenFor p = some l

/-- the checks of `ServerConfig.Initialize` and of `TCPRelay` before the listeners are configured -/
def Server.initChecks (s : Server) : List (Bool × String) :=
  [ (s.proto = .direct && !s.tunnel.valid, "server-tunnel"),
    (s.proto = .http && s.httpTLS && !s.httpCertList, "server-http-tls"),
    (s.proto.isSS && !pskOK s.proto s.pskLen [], "server-psk"),
    (s.proto.isSS && !filterSizeOK C18.serverFilterSizeMax s.filterSize, "server-filter-size"),
    (!s.allTCP.isEmpty && !s.proto.serverTCP, "server-protocol"),
    (!s.allTCP.isEmpty && s.proto = .http && s.httpCertList, "server-http-certlist") ]

/-- the checks of `UDPRelay` before the listeners are configured -/
def Server.udpChecks (s : Server) : List (Bool × String) :=
  [ (!s.allUDP.isEmpty && decide (s.mtu < (C18.serverMTUMin : Int)), "server-mtu"),
    (!s.allUDP.isEmpty && s.proto = .direct && C18.directTargetOnlyRequiresIP && s.targetOnly && s.tunnel ≠ .ip, "server-targetonly"),
    (!s.allUDP.isEmpty && !s.proto.serverUDP, "server-protocol") ]

def Server.eff (s : Server) (uls : List EffUL) : EffServer :=
  let sst := s.proto.isSS && !s.allTCP.isEmpty
  let ssu := s.proto.isSS && !s.allUDP.isEmpty
  { name := s.name, proto := s.proto, tcp := s.allTCP.length, udp := uls,
    reject := if sst then rejectOf s.reject else none,
    padding := if ssu then paddingOf s.padding else none,
    filterSize := if ssu then some (effFilterSize s.filterSize) else none }

/-- `ServerConfig.Initialize`, `TCPRelay`, `UDPRelay`, `PostInit` -/
def checkServer (s : Server) : R EffServer :=
  match firstErr s.initChecks with
  | some e => .error e
  | none =>
    match mapE checkTL s.allTCP with
    | .error e => .error e
    | .ok _ =>
      match firstErr s.udpChecks with
      | some e => .error e
      | none =>
        match mapE (checkUL (minNatOf s.proto)) s.allUDP with
        | .error e => .error e
        | .ok uls =>
          if s.proto.isSS && !upskOK s.proto s.upsk then .error "server-upsk-store"
          else .ok (s.eff uls)

-- ---------------------------------------------------------------- Manager

def tcpNamesOf (cs : List Client) : List String := (cs.filter (·.enableTCP)).map (·.name)
def udpNamesOf (cs : List Client) : List String := (cs.filter (·.enableUDP)).map (·.name)

-- ---------------------------------------------------------------- API block (api/api.go NewServer)

def checkApiListener (l : ApiListener) : R Unit :=
  match firstErr [ (l.tls && l.certList, "api-certlist"), (l.tls && l.clientCAs, "api-clientcas") ] with
  | some e => .error e
  | none => .ok ()

/-- what happens to `secretPath`, pprof and static file patterns in `http.ServeMux`: errors whose class starts
    with `PANIC:` are panics of `ServeMux.Handle` at load (possible only when the code lacks the two guards) -/
def Api.muxChecks (a : Api) : List (Bool × String) :=
  [ (C18.apiSecretPathChecked && (a.secret = .wildcard || a.secret = .malformed), "api-secret-path"),
    (!C18.apiSecretPathChecked && a.secret = .malformed, "PANIC:api-secret-path"),
    (!C18.apiPprofIndexHasMethod && a.pprof && a.static, "PANIC:api-mux-conflict") ]

def checkApi (a : Api) : R Unit :=
  if !a.enabled then .ok ()
  else if a.listeners.isEmpty then .error "api-no-listeners"
  else match mapE checkApiListener a.listeners with
    | .error e => .error e
    | .ok _ =>
      match firstErr a.muxChecks with
      | some e => .error e
      | none => .ok ()

def routeKinds (r : Router) : List (String × String) :=
  r.routes.map fun rt => (portKind rt.fromPorts rt.fromRanges, portKind rt.toPorts rt.toRanges)

/-- `Config.Manager`: clients -> client groups -> DNS -> server names -> router -> servers -> API -/
def validate (c : Config) : R Eff :=
  if c.servers.isEmpty then .error "no-servers"
  else
    let cl := effectiveClients c
    match checkClients [] cl with
    | .error e => .error e
    | .ok ecs =>
      match checkGroups (cl.map (·.name)) [] c.groups (tcpNamesOf cl) (udpNamesOf cl) with
      | .error e => .error e
      | .ok (tcp, udp) =>
        match checkResolvers tcp udp [] c.resolvers with
        | .error e => .error e
        | .ok () =>
          match checkUnique "dup-server" [] (c.servers.map (·.name)) with
          | .error e => .error e
          | .ok () =>
            match checkRouter c.router (c.resolvers.map (·.name)) tcp udp (c.servers.map (·.name)) with
            | .error e => .error e
            | .ok () =>
              match mapE checkServer c.servers with
              | .error e => .error e
              | .ok ess =>
                match checkApi c.api with
                | .error e => .error e
                | .ok () => .ok { clients := ecs, servers := ess, routes := routeKinds c.router, tcpNames := tcp, udpNames := udp }

/-- the whole JSON document decodes as far as the modelled fields go -/
def Config.decodes (c : Config) : Bool := c.servers.all (·.decodes) && c.clients.all (·.decodes)

/-- `Config.Migrate` on the modelled fields: legacy single-listener fields become listeners -/
def Server.migrate (s : Server) : Server :=
  { s with tcpListeners := s.allTCP, udpListeners := s.allUDP, enableTCP := false, enableUDP := false,
           natTimeoutSec := 0, udpBatchMode := "", udpRelayBatch := 0, udpRecvBatch := 0, udpSendCap := 0 }

def Config.migrate (c : Config) : Config := { c with servers := c.servers.map Server.migrate }

end SSV.Config
