import SSV.Model.SWF
import SSV.Model.SaltPool
/-
Model of the UDP unpacker session logic of ss2022/packet.go:
`ShadowPacketServerUnpacker.UnpackInPlace` and `ShadowPacketClientUnpacker.UnpackInPlace`,
with the header validation of `ParseUDPClientMessageHeader` / `ParseUDPServerMessageHeader`
and `ValidateUnixEpochTimestamp` (ss2022/header.go).

Packets are abstract records: what the unpacker can observe of a datagram once the separate header
is block-decrypted. `authentic` says whether the AEAD opens under the key derived from the packet's
session id (for the server unpacker: under the unpacker's session key) with the nonce taken from the
separate header. The attacker may present any record with `authentic = false` and may re-present any
authentic record at any later time; what it cannot do is make a new authentic record (AEAD
authenticity is the hypothesis, see meta/C04.json).

The clock is an explicit input: `now` in nanoseconds (monotone, wall = monotonic).
-/
namespace SSV.UdpSession
open SSV.SWF

def headerTypeClientPacket : Nat := SSV.Gen.C04.HeaderTypeClientPacket
def headerTypeServerPacket : Nat := SSV.Gen.C04.HeaderTypeServerPacket
/-- the constants of `ValidateUnixEpochTimestamp` as the source has them now -/
def tsParams : SSV.SaltPool.Params :=
  { maxEpochDiff := SSV.Gen.C04.MaxEpochDiff, window := SSV.Gen.C04.ReplayWindowDuration }
/-- `time.Minute` in `time.Since(p.oldServerSessionLastSeenTime) < time.Minute` -/
def sessionChangeInterval : Nat := SSV.Gen.C04.clientSessionChangeMinInterval
def nsPerSec : Nat := 1000000000

structure Packet where
  /-- packetLen passes the first length check -/
  long : Bool
  /-- session id in the separate header -/
  sid : Nat
  /-- packet id in the separate header -/
  pid : Nat
  /-- AEAD open succeeds -/
  authentic : Bool
  /-- plaintext has the fixed-length part of the message header -/
  hdr : Bool
  /-- header type byte -/
  typ : Nat
  /-- header timestamp: the raw 64-bit word `binary.BigEndian.Uint64(..)` (the code reads it as `int64`) -/
  ts : BitVec 64
  /-- client session id field of a server message header (unused in client messages) -/
  csid : Nat
  /-- the padding length fits in the plaintext -/
  padOk : Bool
  /-- the SOCKS address parses -/
  addrOk : Bool
deriving Repr, DecidableEq

inductive Res where
  | ok | tooSmall | replay | authFail | incomplete | badType | badTimestamp | csidMismatch | badAddr | tooManySessions
deriving Repr, DecidableEq

def Res.name : Res → String
  | .ok => "ok" | .tooSmall => "too-small" | .replay => "replay" | .authFail => "auth" | .incomplete => "incomplete"
  | .badType => "type" | .badTimestamp => "timestamp" | .csidMismatch => "csid" | .badAddr => "addr"
  | .tooManySessions => "too-many-sessions"

/-- `ValidateUnixEpochTimestamp(b, now)` on 64-bit words exactly as written (wrapping `tsEpoch - nowEpoch`, two
signed comparisons against `±MaxEpochDiff`): the word-level model shared with C03 (`SaltPool.tsValidWord`);
the function body and its two UDP call sites are pinned by Gen facts (`srcValidateTimestamp`,
`udpClientHeaderChecks`, `udpServerHeaderChecks`). -/
def tsValid (ts : BitVec 64) (now : Nat) : Bool := SSV.SaltPool.tsValid tsParams ts now

open SSV.Gen.C04 (HdrCheck)

/-- one check of a UDP message header parser: `some e` = the parse ends with error `e`.
`len` and `pad` both return `ErrPacketIncompleteHeader` in the code. -/
def checkFails (now csid goodTyp : Nat) (p : Packet) : HdrCheck → Option Res
  | .len => if !p.hdr then some .incomplete else none
  | .typ => if p.typ != goodTyp then some .badType else none
  | .ts => if !tsValid p.ts now then some .badTimestamp else none
  | .csid => if p.csid != csid then some .csidMismatch else none
  | .pad => if !p.padOk then some .incomplete else none
  | .addr => if !p.addrOk then some .badAddr else none

/-- run a program of checks in order: the first failing one decides -/
def runChecks (f : HdrCheck → Option Res) : List HdrCheck → Option Res
  | [] => none
  | c :: r => match f c with
    | some e => some e
    | none => runChecks f r

/-- `ParseUDPClientMessageHeader`: the checks in the order the source has them now (Gen fact
`udpClientHeaderOrder`, extracted from the function body); `none` = header accepted -/
def parseClientHeader (now : Nat) (p : Packet) : Option Res :=
  runChecks (checkFails now 0 headerTypeClientPacket p) SSV.Gen.C04.udpClientHeaderOrder

/-- `ParseUDPServerMessageHeader` (Gen fact `udpServerHeaderOrder`) -/
def parseServerHeader (now : Nat) (csid : Nat) (p : Packet) : Option Res :=
  runChecks (checkFails now csid headerTypeServerPacket p) SSV.Gen.C04.udpServerHeaderOrder

/-! ### server unpacker -/

structure ServerState where
  filterSize : Nat
  /-- `nil` until the first packet validates -/
  filter : Option Filter
deriving Repr, DecidableEq

/-- `NewUDPServer` / `NewUDPClient`: `if filterSize == 0 { filterSize = DefaultSlidingWindowFilterSize }` -/
def effectiveFilterSize (n : Nat) : Nat := if n = 0 then SSV.Gen.C04.DefaultSlidingWindowFilterSize else n

def serverInit (filterSize : Nat) : ServerState := { filterSize := filterSize, filter := none }

/-- `sfilter != nil && !sfilter.IsOk(pid)` -/
def replayed (sf : Option Filter) (pid : Nat) : Bool :=
  match sf with | some f => !isOk f pid | none => false

/-- the filter `MustAdd` is called on: the existing one, or `NewSlidingWindowFilter(filterSize)` -/
def filterOrNew (sf : Option Filter) (filterSize : Nat) : Filter :=
  match sf with | some f => f | none => new filterSize

/-- `ShadowPacketServerUnpacker.UnpackInPlace`, the chain of early returns in code order
(length check, `IsOk` guard, AEAD open, header parse); none of them writes receiver state
(Gen fact `serverUnpackOrder`). -/
def serverVerdict (st : ServerState) (now : Nat) (p : Packet) : Res :=
  if !p.long then .tooSmall
  else if replayed st.filter p.pid then .replay
  else if !p.authentic then .authFail
  else match parseClientHeader now p with
    | some e => e
    | none => .ok

/-- the tail of `UnpackInPlace` after validation: lazy filter creation, `MustAdd` -/
def serverCommit (st : ServerState) (p : Packet) : ServerState :=
  { st with filter := some (mustAdd (filterOrNew st.filter st.filterSize) p.pid) }

/-- `ShadowPacketServerUnpacker.UnpackInPlace` -/
def serverStep (st : ServerState) (now : Nat) (p : Packet) : ServerState × Res :=
  if serverVerdict st now p = .ok then (serverCommit st p, .ok) else (st, serverVerdict st now p)

/-! ### client unpacker -/

structure Session where
  sid : Nat
  filter : Filter
deriving Repr, DecidableEq

structure ClientState where
  csid : Nat
  filterSize : Nat
  /-- current server session (`currentServerSessionAEAD != nil`) -/
  cur : Option Session
  /-- old server session (`oldServerSessionAEAD != nil`) -/
  old : Option Session
  /-- `oldServerSessionLastSeenTime`; `none` = the zero `time.Time` -/
  oldLastSeen : Option Nat
deriving Repr, DecidableEq

def clientInit (filterSize csid : Nat) : ClientState :=
  { csid := csid, filterSize := filterSize, cur := none, old := none, oldLastSeen := none }

inductive Status where | current | old | new
deriving Repr, DecidableEq

def isCur (st : ClientState) (sid : Nat) : Bool :=
  match st.cur with | some s => s.sid == sid | none => false
def isOld (st : ClientState) (sid : Nat) : Bool :=
  match st.old with | some s => s.sid == sid | none => false

/-- `time.Since(p.oldServerSessionLastSeenTime) < time.Minute` -/
def changeTooSoon (st : ClientState) (now : Nat) : Bool :=
  match st.oldLastSeen with
  | some t => decide (now - t < sessionChangeInterval)
  | none => false

/-- the `switch` that determines the session status; `none` = `ErrTooManyServerSessions` -/
def classify (st : ClientState) (now : Nat) (sid : Nat) : Option (Status × Option Filter) :=
  match st.cur with
  | some s => if s.sid == sid then some (.current, some s.filter) else classifyOld
  | none => classifyOld
where
  classifyOld : Option (Status × Option Filter) :=
    match st.old with
    | some s => if s.sid == sid then some (.old, some s.filter) else classifyNew
    | none => classifyNew
  classifyNew : Option (Status × Option Filter) :=
    if changeTooSoon st now then none else some (.new, none)

/-- `ShadowPacketClientUnpacker.UnpackInPlace`, the chain of early returns in code order (length check,
session classification incl. the one-minute rule, `IsOk` guard, AEAD open, header parse); none of
them writes receiver state (Gen fact `clientUnpackOrder`). -/
def clientVerdict (st : ClientState) (now : Nat) (p : Packet) : Res :=
  if !p.long then .tooSmall
  else match classify st now p.sid with
    | none => .tooManySessions
    | some (_, sfilter) =>
      if replayed sfilter p.pid then .replay
      else if !p.authentic then .authFail
      else match parseServerHeader now st.csid p with
        | some e => e
        | none => .ok

/-- the tail of `UnpackInPlace` after validation: lazy filter creation, `MustAdd`, session bookkeeping -/
def clientCommit (st : ClientState) (now : Nat) (p : Packet) : ClientState :=
  match classify st now p.sid with
  | none => st
  | some (status, sfilter) =>
    let f' := mustAdd (filterOrNew sfilter st.filterSize) p.pid
    match status with
    | .current => { st with cur := some { sid := p.sid, filter := f' } }
    | .old => { st with old := some { sid := p.sid, filter := f' }, oldLastSeen := some now }
    | .new => { st with old := st.cur, oldLastSeen := some now, cur := some { sid := p.sid, filter := f' } }

/-- `ShadowPacketClientUnpacker.UnpackInPlace` -/
def clientStep (st : ClientState) (now : Nat) (p : Packet) : ClientState × Res :=
  if clientVerdict st now p = .ok then (clientCommit st now p, .ok) else (st, clientVerdict st now p)

/-! ### runs -/

abbrev Event := Nat × Packet

def serverRun (st : ServerState) : List Event → List Res
  | [] => []
  | (now, p) :: r => (serverStep st now p).2 :: serverRun (serverStep st now p).1 r

def serverAfter (st : ServerState) : List Event → ServerState
  | [] => st
  | (now, p) :: r => serverAfter (serverStep st now p).1 r

def clientRun (st : ClientState) : List Event → List Res
  | [] => []
  | (now, p) :: r => (clientStep st now p).2 :: clientRun (clientStep st now p).1 r

def clientAfter (st : ClientState) : List Event → ClientState
  | [] => st
  | (now, p) :: r => clientAfter (clientStep st now p).1 r

end SSV.UdpSession
