/-
Model of the TCP replay defence of ss2022 (C03):

* `ss2022/saltpool.go`   — `SaltPool` (`pruneExpired`, `insert`, `Add`, `Contains`, `TryContains`, `Clear`)
* `ss2022/header.go`     — `ValidateUnixEpochTimestamp` on 64-bit words, `ParseTCPRequestFixedLengthHeader`
* `ss2022/tcp.go`        — the accept logic of `StreamServer.HandleStream`

Times are `Nat` nanoseconds since the Unix epoch (wall clock = monotonic clock, `now ≥ 0`).
Salts are `Nat` identifiers (the harness numbers the distinct 32-byte extended salts it sees).
The two constants of the code are *parameters* of the model (`Params`), instantiated with the
regenerated values of `SSV.Gen.C03` by the driver and by `SSV.Props.C03`; nothing in this file
knows whether `window` is long enough — that is a side condition of the theorems.

Core Lean only (linked into the `ssv_c03` driver).
-/
namespace SSV.SaltPool

structure Params where
  /-- `MaxEpochDiff`, whole seconds -/
  maxEpochDiff : Nat
  /-- `ReplayWindowDuration`, nanoseconds -/
  window : Nat
deriving Repr, DecidableEq

def nsPerSec : Nat := 1000000000

/-! ## The salt pool -/

abbrev Salt := Nat

/-- `saltNode` without the `next` pointer -/
structure Node where
  salt : Salt
  expiresAt : Nat
deriving Repr, DecidableEq

/-- The linked list `head … tail` (head = oldest) — in the code the map `nodeBySalt` holds exactly
the salts of the list (see `WF.nodup` in the proofs), so membership is membership in the list. -/
abbrev Pool := List Node

/-- `_, ok := p.nodeBySalt[salt]` -/
def contains (p : Pool) (s : Salt) : Bool := p.any (fun n => n.salt == s)

/-- `pruneExpired(now)`: walks from `head`, deletes nodes until the first one with
`expiresAt.After(now)` (strictly later than `now`). -/
def pruneExpired (now : Nat) : Pool → Pool
  | [] => []
  | n :: rest => if n.expiresAt > now then n :: rest else pruneExpired now rest

/-- `insert(now, salt)`: new tail node with `expiresAt = now.Add(ReplayWindowDuration)`. -/
def insert (P : Params) (now : Nat) (s : Salt) (p : Pool) : Pool :=
  p ++ [{ salt := s, expiresAt := now + P.window }]

/-- `Add(now, salt)` (whole body under `p.mu.Lock()`): prune, look up, insert. -/
def add (P : Params) (now : Nat) (s : Salt) (p : Pool) : Pool × Bool :=
  let p' := pruneExpired now p
  if contains p' s then (p', false) else (insert P now s p', true)

/-- `TryContains(salt)`: `false` at once when `TryRLock` fails (`contended`), else the lookup.
Does not prune. -/
def tryContains (contended : Bool) (p : Pool) (s : Salt) : Bool :=
  if contended then false else contains p s

/-! ## Timestamp validation, on 64-bit words exactly as written -/

/-- `now.Unix()` (floor to whole seconds) -/
def unixSec (now : Nat) : Nat := now / nsPerSec

/-- `now.Unix()` as the `int64` the code computes with -/
def nowEpoch (now : Nat) : BitVec 64 := BitVec.ofNat 64 (unixSec now)

/--
```go
tsEpoch := int64(binary.BigEndian.Uint64(b))
nowEpoch := now.Unix()
diff := tsEpoch - nowEpoch                       // wraps
if diff < -MaxEpochDiff || diff > MaxEpochDiff { return ErrBadTimestamp }
```
`ts` is the raw 64-bit word of the header, `ne` the `int64` `now.Unix()`; both comparisons signed.
-/
def tsValidWord (P : Params) (ts ne : BitVec 64) : Bool :=
  let diff := ts - ne
  let m := BitVec.ofNat 64 P.maxEpochDiff
  !(diff.slt (-m) || m.slt diff)

def tsValid (P : Params) (ts : BitVec 64) (now : Nat) : Bool := tsValidWord P ts (nowEpoch now)

/-! ## Requests and the accept logic of `HandleStream` -/

/-- What `HandleStream` can learn about the bytes presented on one connection. The cryptography is
abstract: the flags say how the real checks come out for these bytes under the server's keys. -/
structure Request where
  /-- id of the (length-extended) salt at the front of the bytes -/
  salt : Salt
  /-- the first read delivered prefix + salt + identity header + fixed-length header chunk -/
  complete : Bool
  /-- the unsafe request stream prefix matches -/
  prefixOk : Bool
  /-- identity header decrypts to a known uPSK hash (`true` without EIH) -/
  userOk : Bool
  /-- the fixed-length header chunk opens under the key derived from (PSK, salt) -/
  authOk : Bool
  /-- header type byte is `HeaderTypeClientStream` -/
  typeOk : Bool
  /-- raw timestamp word of the fixed-length header -/
  ts : BitVec 64
  /-- the variable-length header chunk arrives, opens and parses -/
  bodyOk : Bool
deriving Repr, DecidableEq

inductive Verdict
  | shortRead | repeatedSalt | badPrefix | noUser | authFail | typeMismatch | badTimestamp
  /-- failure after the salt was added (variable-length header) -/
  | lateError
  | accepted
deriving Repr, DecidableEq

def Verdict.name : Verdict → String
  | .shortRead => "short" | .repeatedSalt => "repeated" | .badPrefix => "prefix" | .noUser => "nouser"
  | .authFail => "auth" | .typeMismatch => "type" | .badTimestamp => "badts" | .lateError => "late"
  | .accepted => "accept"

/-- The property-relevant steps of `HandleStream`, in source order. -/
inductive Stage
  | readHeader | tryContains | checkPrefix | identity | openFixed | readClock | parseFixed | addSalt
  /-- `n = 0`: "Connection is authenticated. Fallback is no longer an option." -/
  | commit
  | readBody
deriving Repr, DecidableEq

def Stage.ofName : String → Option Stage
  | "readHeader" => some .readHeader | "tryContains" => some .tryContains | "checkPrefix" => some .checkPrefix
  | "identity" => some .identity | "openFixed" => some .openFixed | "readClock" => some .readClock
  | "parseFixed" => some .parseFixed | "addSalt" => some .addSalt | "commit" => some .commit
  | "readBody" => some .readBody
  | _ => none

/-- One stage: new pool and, if the stage ends the handshake, the verdict. `now` is the single
reading `now := time.Now()` used both by the timestamp check and by `Add`. -/
def stageStep (P : Params) (contended : Bool) (now : Nat) (r : Request) (pool : Pool) :
    Stage → Pool × Option Verdict
  | .readHeader => (pool, if r.complete then none else some .shortRead)
  | .tryContains => (pool, if tryContains contended pool r.salt then some .repeatedSalt else none)
  | .checkPrefix => (pool, if r.prefixOk then none else some .badPrefix)
  | .identity => (pool, if r.userOk then none else some .noUser)
  | .openFixed => (pool, if r.authOk then none else some .authFail)
  | .readClock => (pool, none)
  | .parseFixed => (pool, if !r.typeOk then some .typeMismatch
                          else if tsValid P r.ts now then none else some .badTimestamp)
  | .addSalt => let res := add P now r.salt pool
                (res.1, if res.2 then none else some .repeatedSalt)
  | .commit => (pool, none)
  | .readBody => (pool, if r.bodyOk then none else some .lateError)

def runStages (P : Params) (contended : Bool) (now : Nat) (r : Request) : List Stage → Pool → Pool × Verdict
  | [], pool => (pool, .accepted)
  | s :: rest, pool =>
    match stageStep P contended now r pool s with
    | (p', some v) => (p', v)
    | (p', none) => runStages P contended now r rest p'

/-- `HandleStream`, first half: everything before `now := time.Now()` (reads the pool once, under `RLock`). -/
def phase1Stages : List Stage := [.readHeader, .tryContains, .checkPrefix, .identity, .openFixed]
/-- `HandleStream`, second half: clock reading, header parse, `Add` (atomic), body. -/
def phase2Stages : List Stage := [.readClock, .parseFixed, .addSalt, .commit, .readBody]
def handleStages : List Stage := phase1Stages ++ phase2Stages

/-- The accept logic of `HandleStream` for one presentation. `now` is the clock reading the code takes *after* the first
read returned (stage `readClock` follows `readHeader`…`openFixed`, pinned by `gen_handle_stages`): the instant at which
the request bytes arrived, not the instant at which the (possibly idle) connection was handed to the server. -/
def handle (P : Params) (contended : Bool) (now : Nat) (r : Request) (pool : Pool) : Pool × Verdict :=
  runStages P contended now r handleStages pool

/-! ## The fallback (`UnsafeFallbackAddr`)

The deferred function of `HandleStream`: an error turns into a *fallback request* (the bytes read so far are handed
to the configured fallback address, `err = nil`) iff a fallback address is configured and `n > 0`, where `n` is the
number of bytes the first read delivered — and `n` is set to 0 right after `Add` succeeded (stage `commit`), so an
error after that point (`lateError`) stays an error.
-/

inductive Outcome
  /-- a request of the genuine client is returned -/
  | accepted
  /-- the connection is handed to the fallback address; `cause` is the swallowed error -/
  | fallback (cause : Verdict)
  | error (cause : Verdict)
deriving Repr, DecidableEq

def Outcome.name : Outcome → String
  | .accepted => "accept" | .fallback v => "fallback:" ++ v.name | .error v => v.name

/-- `fb`: a fallback address is configured; `gotBytes`: the first read delivered at least one byte (`n > 0`). -/
def outcome (fb gotBytes : Bool) : Verdict → Outcome
  | .accepted => .accepted
  | .lateError => .error .lateError
  | v => if fb && gotBytes then .fallback v else .error v

/-- `HandleStream` including its deferred fallback decision. -/
def handleStream (P : Params) (fb gotBytes contended : Bool) (now : Nat) (r : Request) (pool : Pool) : Pool × Outcome :=
  let res := handle P contended now r pool
  (res.1, outcome fb gotBytes res.2)

/-! ## Histories on a monotone clock -/

structure State where
  now : Nat
  pool : Pool
deriving Repr, DecidableEq

inductive Op
  /-- the clock advances by `d` ns (`d ≥ 0`: monotone) -/
  | advance (d : Nat)
  /-- the bytes described by `r` are presented; `contended` = outcome of `TryRLock` failing -/
  | present (r : Request) (contended : Bool)
deriving Repr, DecidableEq

/-- A fresh genuine request: well-formed, authentic. (Its salt being new is a hypothesis where needed.) -/
def genuine (salt : Salt) (ts : BitVec 64) : Request :=
  { salt := salt, complete := true, prefixOk := true, userOk := true, authOk := true, typeOk := true, ts := ts, bodyOk := true }

/-- A presentation that does not authenticate (garbage, tampered or foreign-key bytes). -/
def Request.forged (r : Request) : Bool := !(r.complete && r.prefixOk && r.userOk && r.authOk)

def Op.isForged : Op → Bool
  | .advance _ => false
  | .present r _ => r.forged

structure Event where
  time : Nat
  req : Request
  verdict : Verdict
deriving Repr, DecidableEq

def step (P : Params) (s : State) : Op → State × Option Event
  | .advance d => ({ s with now := s.now + d }, none)
  | .present r c =>
    let res := handle P c s.now r s.pool
    ({ s with pool := res.1 }, some { time := s.now, req := r, verdict := res.2 })

def run (P : Params) (s : State) : List Op → State
  | [] => s
  | o :: ops => run P (step P s o).1 ops

/-- the log of presentations (time, request, verdict) of a history -/
def runLog (P : Params) (s : State) : List Op → List Event
  | [] => []
  | o :: ops =>
    match step P s o with
    | (s', some e) => e :: runLog P s' ops
    | (s', none) => runLog P s' ops

/-! ## `Add` as a step program (what the translator extracts from the body of `SaltPool.Add`) -/

inductive AddStep
  | lock | deferUnlock | unlock | prune | lookupReturnFalse | insert | returnTrue
deriving Repr, DecidableEq

def AddStep.ofName : String → Option AddStep
  | "lock" => some .lock | "deferUnlock" => some .deferUnlock | "unlock" => some .unlock | "prune" => some .prune
  | "lookupReturnFalse" => some .lookupReturnFalse | "insert" => some .insert | "returnTrue" => some .returnTrue
  | _ => none

/-- sequential execution of an `Add` body (`none` = fell off the end without `return`) -/
def execAdd (P : Params) (now : Nat) (s : Salt) : List AddStep → Pool → Option (Pool × Bool)
  | [], _ => none
  | .lock :: rest, p | .deferUnlock :: rest, p | .unlock :: rest, p => execAdd P now s rest p
  | .prune :: rest, p => execAdd P now s rest (pruneExpired now p)
  | .lookupReturnFalse :: rest, p => if contains p s then some (p, false) else execAdd P now s rest p
  | .insert :: rest, p => execAdd P now s rest (insert P now s p)
  | .returnTrue :: _, p => some (p, true)

/-- The whole body runs with the write lock held: `Lock` first, `defer Unlock` second, no other lock operation. -/
def addBodyAtomic : List AddStep → Bool
  | .lock :: .deferUnlock :: rest => rest.all (fun s => s != .lock && s != .unlock && s != .deferUnlock)
  | _ => false

/-! ## k concurrent presentations of one request

Each thread runs `HandleStream` on the same bytes `r`. Its shared-memory actions are two atomic
ones: the `TryContains` read (under `RLock`, may be skipped = `contended`) and `Add` (under `Lock`);
everything else is thread-local. Every thread reads its own clock, in any order.
-/

inductive TState
  | idle | checked | done (v : Verdict)
deriving Repr, DecidableEq

structure CState where
  pool : Pool
  threads : List TState
deriving Repr, DecidableEq

inductive Act
  /-- thread `i` runs up to and including the AEAD open of the fixed-length header -/
  | check (i : Nat) (contended : Bool)
  /-- thread `i` reads its clock (`now`), parses, runs `Add(now, salt)` and reads the body -/
  | add (i : Nat) (now : Nat)
deriving Repr, DecidableEq

def phase1 (P : Params) (contended : Bool) (r : Request) (pool : Pool) : Option Verdict :=
  match runStages P contended 0 r phase1Stages pool with
  | (_, .accepted) => none
  | (_, v) => some v

def phase2 (P : Params) (now : Nat) (r : Request) (pool : Pool) : Pool × Verdict :=
  runStages P false now r phase2Stages pool

def setAt {α : Type} : List α → Nat → α → List α
  | [], _, _ => []
  | _ :: xs, 0, a => a :: xs
  | x :: xs, i + 1, a => x :: setAt xs i a

def cstep (P : Params) (r : Request) (s : CState) : Act → CState
  | .check i c =>
    match s.threads[i]? with
    | some .idle =>
      match phase1 P c r s.pool with
      | some v => { s with threads := setAt s.threads i (.done v) }
      | none => { s with threads := setAt s.threads i .checked }
    | _ => s
  | .add i now =>
    match s.threads[i]? with
    | some .checked =>
      let res := phase2 P now r s.pool
      { pool := res.1, threads := setAt s.threads i (.done res.2) }
    | _ => s

def crun (P : Params) (r : Request) (s : CState) (sched : List Act) : CState := sched.foldl (cstep P r) s

def countAccepted : List TState → Nat
  | [] => 0
  | .done .accepted :: ts => countAccepted ts + 1
  | _ :: ts => countAccepted ts

def allDone : List TState → Bool
  | [] => true
  | .done _ :: ts => allDone ts
  | _ :: _ => false

/-! ## `Add` under the mutex, statement by statement

`k` callers run the body of `SaltPool.Add` (as a step program, see `AddStep`) one statement at a time, in any
interleaving; `Lock` blocks while another caller holds `p.mu`; a `return` runs the deferred `Unlock`. `hist` records
the returns (call, result) in the order they happen.
-/

structure ACall where
  now : Nat
  salt : Salt
deriving Repr, DecidableEq

structure AThread where
  call : ACall
  pc : Nat
  deferred : Bool
  result : Option Bool
deriving Repr, DecidableEq

structure MState where
  pool : Pool
  holder : Option Nat
  threads : List AThread
  hist : List (ACall × Bool)
deriving Repr, DecidableEq

def mret (s : MState) (i : Nat) (t : AThread) (b : Bool) : MState :=
  { pool := s.pool
    holder := if t.deferred && s.holder == some i then none else s.holder
    threads := s.threads.set i { t with result := some b }
    hist := s.hist ++ [(t.call, b)] }

def madv (s : MState) (i : Nat) (t : AThread) : MState :=
  { s with threads := s.threads.set i { t with pc := t.pc + 1 } }

def microStep (P : Params) (prog : List AddStep) (s : MState) (i : Nat) : MState :=
  match s.threads[i]? with
  | none => s
  | some t =>
    if t.result.isSome then s else
    match prog[t.pc]? with
    | none => s
    | some .lock => if s.holder.isNone then madv { s with holder := some i } i t else s
    | some .deferUnlock => madv s i { t with deferred := true }
    | some .unlock => madv { s with holder := if s.holder == some i then none else s.holder } i t
    | some .prune => madv { s with pool := pruneExpired t.call.now s.pool } i t
    | some .lookupReturnFalse => if contains s.pool t.call.salt then mret s i t false else madv s i t
    | some .insert => madv { s with pool := insert P t.call.now t.call.salt s.pool } i t
    | some .returnTrue => mret s i t true

def seqAdds (P : Params) (p : Pool) : List ACall → Pool × List Bool
  | [] => (p, [])
  | c :: cs =>
    let r := add P c.now c.salt p
    let rest := seqAdds P r.1 cs
    (rest.1, r.2 :: rest.2)

def canonAdd : List AddStep := [.lock, .deferUnlock, .prune, .lookupReturnFalse, .insert, .returnTrue]

def minit (p₀ : Pool) (calls : List ACall) : MState :=
  { pool := p₀, holder := none, threads := calls.map (fun c => { call := c, pc := 0, deferred := false, result := none }), hist := [] }

def mrun (P : Params) (prog : List AddStep) (s : MState) (sched : List Nat) : MState :=
  sched.foldl (microStep P prog) s

end SSV.SaltPool
