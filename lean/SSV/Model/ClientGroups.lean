import SSV.Gen.C19
/-
Executable model of the client groups of /repo/clientgroups (clientgroups.go, probe.go).

* round-robin: `s.clients[int(s.index.Add(1)&uintptrToNonNegativeInt)%len(s.clients)]` on a
  `uintptr` counter initialised to `^uintptr(0)` (`rrInit`), wrapping modulo `2^rrWordBits`;
* random: `s.clients[rand.IntN(len(s.clients))]`;
* the three probe loops (`probeAvailability`, `probeLatency`, `probeMinMaxLatency`): per client a
  ring of results written at slot `probeCount % size` by that client's job, and after `wg.Wait()`
  one scan in configuration order with the loop's improvement test and initial best, whose result
  replaces the published selection.

Numbers, comparison operators, initial bests and the failure record come from `SSV.Gen.C19`
(regenerated from the source on every run). Core Lean only.

Representation choices (stated, not hidden):
* the availability word (`uint`, one bit per round) is a list of `availRingBits` slots holding 0/1;
  `*result |= mask` / `*result &^= mask` is `set slot 1` / `set slot 0`, `bits.OnesCount` is the sum;
* durations are `Nat` nanoseconds; the `int64` sum of one ring is assumed not to overflow
  (`latencyProbeResultSize * timeout < 2^63`, see `Props/C19.lean: default_sum_no_overflow`);
* `slices.Max` over non-negative durations is `foldl max 0`.
-/
namespace SSV.ClientGroups
open SSV.Gen.C19

/-! ## round-robin -/

/-- size of the counter's word -/
def rrWord : Nat := 2 ^ rrWordBits

/-- atomic `index.Add(1)`: the new counter value, which is also what `Add` returns -/
def rrAdd (ctr : Nat) : Nat := (ctr + 1) % rrWord

/-- `int(v & uintptrToNonNegativeInt) % n` (the masked value is below `2^63`, so `int(·)` is the identity) -/
def rrPick (v n : Nat) : Nat := (v &&& rrMask) % n

/-- one `Select`: new counter and the index of the returned client -/
def rrSelect (ctr n : Nat) : Nat × Nat :=
  let v := rrAdd ctr
  (v, rrPick v n)

/-- the indices returned by `m` consecutive `Select`s starting from counter `ctr` -/
def rrRun (ctr n : Nat) : Nat → List Nat
  | 0 => []
  | m + 1 => (rrSelect ctr n).2 :: rrRun (rrSelect ctr n).1 n m

/-! ## random

`s.clients[rand.IntN(len(s.clients))]`: `draw` is what `rand.IntN(n)` returned. Its contract
(`0 ≤ draw < n`, panic for `n = 0`) is math/rand/v2's and is trusted; `none` = the index expression
would panic. -/
def randomPick (n draw : Nat) : Option Nat := if draw < n then some draw else none

/-! ### concurrent selections: `Add` is atomic, the indexing happens later, in any order -/

inductive RREvent where
  /-- thread `tid` executes `s.index.Add(1)` and keeps the returned value in a local -/
  | add (tid : Nat)
  /-- thread `tid` finishes its `Select` (mask, modulo, index) and returns -/
  | fin (tid : Nat)
  deriving Repr, DecidableEq

structure RRState where
  ctr : Nat
  /-- selections in flight: (thread, value returned by `Add`) -/
  pending : List (Nat × Nat)
  /-- indices returned so far, in completion order -/
  done : List Nat
  deriving Repr

def rrInitState : RRState := { ctr := rrInit, pending := [], done := [] }

/-- remove the first in-flight selection of thread `tid` -/
def takePending (tid : Nat) : List (Nat × Nat) → Option (Nat × List (Nat × Nat))
  | [] => none
  | (t, v) :: rest =>
    if t = tid then some (v, rest)
    else match takePending tid rest with
      | some (w, r) => some (w, (t, v) :: r)
      | none => none

def rrStep (n : Nat) (s : RRState) : RREvent → RRState
  | .add tid => let v := rrAdd s.ctr; { s with ctr := v, pending := s.pending ++ [(tid, v)] }
  | .fin tid =>
    match takePending tid s.pending with
    | some (v, rest) => { s with pending := rest, done := s.done ++ [rrPick v n] }
    | none => s   -- no selection of that thread in flight: not an event of the system

def rrExec (n : Nat) (s : RRState) (evs : List RREvent) : RRState := evs.foldl (rrStep n) s

/-! ## probe policies -/

/-- outcome of one probe: `none` = failed (any error, including the deadline), `some d` = succeeded after `d` ns -/
abbrev Outcome := Option Nat

inductive Policy where
  | avail | lat | minmax
  deriving Repr, DecidableEq

def cmpTest : CmpOp → Nat → Nat → Bool
  | .lt, a, b => a < b
  | .le, a, b => a ≤ b
  | .gt, a, b => a > b
  | .ge, a, b => a ≥ b

def valOf (v : Val) (timeout : Nat) : Nat :=
  match v with
  | .zero => 0
  | .timeout => timeout

def ringSize : Policy → Nat
  | .avail => availRingBits
  | _ => latencyProbeResultSize

def cmpOf : Policy → CmpOp
  | .avail => availCmp
  | .lat => latCmp
  | .minmax => minmaxCmp

def initBestOf : Policy → Val
  | .avail => availInitBest
  | .lat => latInitBest
  | .minmax => minmaxInitBest

/-- what a finished job writes into its slot -/
def record (p : Policy) (timeout : Nat) (o : Outcome) : Nat :=
  match p, o with
  | .avail, some _ => 1
  | .avail, none => 0
  | _, some d => d
  | _, none => valOf latFailureRecord timeout

/-- `probeCount++` on a `uint` -/
def uintWord : Nat := 2 ^ 64
def countSucc (c : Nat) : Nat := (c + 1) % uintWord

/-- a job's write: slot `count % size` of its client's ring -/
def put (p : Policy) (count : Nat) (ring : List Nat) (v : Nat) : List Nat :=
  ring.set (count % ringSize p) v

def maxOf (ring : List Nat) : Nat := ring.foldl max 0

/-- the figure the scan computes for one client -/
def score (p : Policy) (ring : List Nat) : Nat :=
  match p with
  | .avail => ring.sum
  | .lat => ring.sum / ring.length
  | .minmax => maxOf ring

/-- the scan: `for i, result := range probeResult { if score <op> best { bestIndex = i; best = score } }` -/
def scanFrom (c : CmpOp) : List Nat → Nat → Nat × Nat → Nat × Nat
  | [], _, acc => acc
  | s :: rest, i, (bi, bs) => scanFrom c rest (i + 1) (if cmpTest c s bs then (i, s) else (bi, bs))

def bestIndex (p : Policy) (timeout : Nat) (scores : List Nat) : Nat :=
  (scanFrom (cmpOf p) scores 0 (0, valOf (initBestOf p) timeout)).1

structure State where
  /-- `probeResult`: one ring per client, configuration order -/
  rings : List (List Nat)
  /-- `probeCount` -/
  count : Nat
  /-- `clientIndex`; the published pointer is `&pc.clients[sel]` at all times -/
  sel : Nat
  deriving Repr

def init (p : Policy) (n : Nat) : State :=
  { rings := List.replicate n (List.replicate (ringSize p) 0), count := 0, sel := initialSelection }

/-- small step: the job of client `i` finishes with outcome `o` (jobs of one round finish in any order) -/
def jobDone (p : Policy) (timeout : Nat) (st : State) (i : Nat) (o : Outcome) : State :=
  { st with rings := st.rings.modify i (fun r => put p st.count r (record p timeout o)) }

/-- small step: `wg.Wait()` returned: `probeCount++`, scan, publish -/
def finish (p : Policy) (timeout : Nat) (st : State) : State :=
  { st with count := countSucc st.count, sel := bestIndex p timeout (st.rings.map (score p)) }

/-- big step: one whole round with the outcomes in configuration order -/
def round (p : Policy) (timeout : Nat) (st : State) (os : List Outcome) : State :=
  finish p timeout { st with rings := List.zipWith (fun r o => put p st.count r (record p timeout o)) st.rings os }

def run (p : Policy) (timeout : Nat) (st : State) (hist : List (List Outcome)) : State :=
  hist.foldl (round p timeout) st

/-- the selections published after each round of a history -/
def selections (p : Policy) (timeout : Nat) (st : State) : List (List Outcome) → List Nat
  | [] => []
  | os :: rest => (round p timeout st os).sel :: selections p timeout (round p timeout st os) rest

/-! ## scheduling of the probes inside one round

`dispatchProgram` (Gen): an unbuffered job channel, `c = pc.concurrency` workers that each run one job at a time,
the dispatcher sends the jobs in configuration order; a job therefore starts when the worker that becomes free
first (or is free already) receives it. `availRunProgram` / `latRunProgram` (Gen): inside `Run`, i.e. once the job
has started, the deadline is derived (`availDeadlineBase`, `latDeadlineBase`) and, for latencies, the clock is read
(`latencyClockBase`). -/

/-- what a client's probe would do: answer `answerAfter` ns after it was started (`none`: never), with a usable
    answer or not (error status, closed connection, dial / session error). -/
structure Script where
  answerAfter : Option Nat
  ok : Bool
  deriving Repr, DecidableEq

/-- the probe function called with `left` ns until its deadline: (time it takes, success).
    An answer at the very instant of the deadline is a race in the code; the model counts it as too late. -/
def probeRun (left : Nat) (s : Script) : Nat × Bool :=
  match s.answerAfter with
  | some d => if d < left then (d, s.ok) else (left, false)
  | none => (left, false)

/-- the worker that is (or becomes) free first: its free-time and the free-times of the others -/
def popMin : List Nat → Option (Nat × List Nat)
  | [] => none
  | x :: xs =>
    match popMin xs with
    | none => some (x, [])
    | some (m, r) => if x ≤ m then some (x, xs) else some (m, x :: r)

structure JobTiming where
  start : Nat
  finish : Nat
  outcome : Outcome
  deriving Repr

def deadlineBaseOf : Policy → Base
  | .avail => availDeadlineBase
  | _ => latDeadlineBase

/-- the dispatcher's loop over the clients in configuration order; `free` = the instants at which the workers are
    free (round start `t0` for all of them at the beginning of a round). No worker: the send blocks for ever.
    `db` / `lb`: what the deadline / the latency clock are counted from. -/
def dispatchWith (db lb : Base) (timeout t0 : Nat) : List Script → List Nat → List JobTiming
  | [], _ => []
  | s :: rest, free =>
    match popMin free with
    | none => []
    | some (start, others) =>
      let left := match db with
        | .jobStart => timeout
        | .roundStart => t0 + timeout - start
      let r := probeRun left s
      let fin := start + r.1
      let measured := match lb with
        | .jobStart => r.1
        | .roundStart => fin - t0
      { start := start, finish := fin, outcome := if r.2 then some measured else none } ::
        dispatchWith db lb timeout t0 rest (fin :: others)

/-- the dispatch as the source has it (bases regenerated from the two `Run` bodies) -/
def dispatch (p : Policy) (timeout t0 : Nat) (scripts : List Script) (free : List Nat) : List JobTiming :=
  dispatchWith (deadlineBaseOf p) latencyClockBase timeout t0 scripts free

/-- `concurrency: min(c.Concurrency, len(clients))` after `applyDefaults` -/
def effConcurrency (cfg : Int) (n : Nat) : Nat :=
  min (if cfg ≤ 0 then defaultProbeConcurrency else cfg.toNat) n

/-- a whole round on the clock: dispatch with `c` workers from instant `t0`, then the scan -/
def timedRound (p : Policy) (timeout c t0 : Nat) (st : State) (scripts : List Script) : State :=
  round p timeout st ((dispatch p timeout t0 scripts (List.replicate c t0)).map (·.outcome))

end SSV.ClientGroups
