import Std.Data.HashSet
import SSV.Model.SaltPool
/-
A faster executable representation of the salt pool, used by the driver for long floods: the list split into a
front (oldest first) and a reversed back (newest first) — so that `insert` is O(1) — plus a hash set of the salts —
so that the lookup is O(1). This is the shape of the Go code itself (linked list + `nodeBySalt` map).
`SSV.Proofs.SaltPoolFast` proves that it computes exactly the list model's `add` (theorem `fadd_refines`).
-/
namespace SSV.SaltPool
open Std

structure FPool where
  front : List Node
  back : List Node
  set : HashSet Nat

def FPool.toPool (f : FPool) : Pool := f.front ++ f.back.reverse

def FPool.ofPool (p : Pool) : FPool :=
  { front := p, back := [], set := p.foldl (fun h n => h.insert n.salt) ∅ }

/-- `pruneExpired` on one segment, deleting the pruned salts from the set (`delete(p.nodeBySalt, node.salt)`) -/
def dropExpired (now : Nat) : List Node → HashSet Nat → List Node × HashSet Nat
  | [], h => ([], h)
  | n :: rest, h => if n.expiresAt > now then (n :: rest, h) else dropExpired now rest (h.erase n.salt)

def fprune (now : Nat) (f : FPool) : FPool :=
  match dropExpired now f.front f.set with
  | ([], h) =>
    let r := dropExpired now f.back.reverse h
    { front := r.1, back := [], set := r.2 }
  | (fr, h) => { front := fr, back := f.back, set := h }

def fadd (P : Params) (now : Nat) (s : Salt) (f : FPool) : FPool × Bool :=
  let f' := fprune now f
  if f'.set.contains s then (f', false)
  else ({ f' with back := { salt := s, expiresAt := now + P.window } :: f'.back, set := f'.set.insert s }, true)

def addStepL (P : Params) (acc : Pool × Nat) (c : ACall) : Pool × Nat :=
  ((add P c.now c.salt acc.1).1, acc.2 + (if (add P c.now c.salt acc.1).2 then 1 else 0))

def addStepF (P : Params) (acc : FPool × Nat) (c : ACall) : FPool × Nat :=
  let r := fadd P c.now c.salt acc.1
  (r.1, acc.2 + (if r.2 then 1 else 0))

/-- a batch of `Add` calls on the list model: final pool and number of `true` answers -/
def countAdds (P : Params) (p : Pool) (cs : List ACall) : Pool × Nat := cs.foldl (addStepL P) (p, 0)

/-- the same batch on the fast representation -/
def fcountAdds (P : Params) (f : FPool) (cs : List ACall) : FPool × Nat := cs.foldl (addStepF P) (f, 0)

/-- the calls of a flood: `k` consecutive salts from `s0`, instants `t, t+d, t+2d, …` -/
def floodCalls (t s0 k d : Nat) : List ACall := (List.range k).map (fun i => { now := t + i * d, salt := s0 + i })

end SSV.SaltPool
