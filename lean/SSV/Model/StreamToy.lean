import SSV.Model.Stream
/-
A transparent toy instance of `Stream.Crypto` (used by the drivers ssv_c01 / ssv_c02 and by the
non-vacuity examples): `enc k n p = p ++ tag(k,n,p)` with a 16-byte keyed FNV tag, same length law
as AES-GCM. The correspondence harness re-encodes the decrypted real wire with the same functions
(harness/internal/sstoy), so byte offsets agree between the real and the model wire.
-/
namespace SSV.Stream.Toy
open SSV.Stream

def fnv (init : UInt64) (bs : Bytes) : UInt64 :=
  bs.foldl (fun h b => (h ^^^ b.toUInt64) * 1099511628211) init

def tag (k : Bytes) (n : Nat) (p : Bytes) : Bytes :=
  let pre := k ++ be64 n
  be64 (fnv (fnv 14695981039346656037 pre) p).toNat ++ be64 (fnv (fnv 11160318154034397263 pre) p).toNat

def enc (k : Bytes) (n : Nat) (p : Bytes) : Bytes := p ++ tag k n p

def dec (k : Bytes) (n : Nat) (c : Bytes) : Option Bytes :=
  if c.length < 16 then none
  else
    let p := c.take (c.length - 16)
    if c.drop (c.length - 16) = tag k n p then some p else none

def xor (a b : Bytes) : Bytes := List.zipWith (· ^^^ ·) a b

def mask (ipsk salt : Bytes) : Bytes := tag ipsk 0 salt

def crypto : Crypto where
  enc := enc
  dec := dec
  kdf := fun psk salt => psk ++ salt
  eihEnc := fun ipsk salt b => xor b (mask ipsk salt)
  eihDec := fun ipsk salt b => xor b (mask ipsk salt)
  pskHash := fun psk => tag [] 1 psk

end SSV.Stream.Toy
