import SSV.Model.Packet
/-
The re-packing step of the UDP relays (service/udp_nat.go, service/udp_session.go):
uplink   `recvFromServerConn*`: `serverConnUnpacker.UnpackInPlace(buf, client, packetBufFrontHeadroom, n)`, then
         `relayServerConnToNatConn*`: `natConnPacker.PackInPlace(ctx, buf, targetAddr, start, length)`;
downlink `relayNatConnToServerConn*`: `natConnUnpacker.UnpackInPlace(buf, src, headroom.Front, n)`, then
         `serverConnPacker.PackInPlace(buf, payloadSourceAddrPort, payloadStart, payloadLength, maxClientPacketSize)`.
-/
namespace SSV.Packet
open SSV SSV.Gen.C05

/-- a server-side unpacker as configured -/
inductive ServerU
  | direct (target : Addr)
  | plain (hdr3 : Bool)
  | ss (c : Crypto) (block key : Bytes) (k : Nat) (lookup : Bool) (users : List (Bytes × Bytes)) (now : Int)

def ServerU.proto : ServerU → Proto
  | .direct _ => .direct
  | .plain false => .none
  | .plain true => .socks5
  | .ss _ _ _ k _ _ _ => .ss2022 k

def ServerU.run : ServerU → Bytes → Nat → Nat → Outcome (Unpacked Addr)
  | .direct target, b, q, n => directServerUnpack target b q n
  | .plain hdr3, b, q, n => plainServerUnpack hdr3 b q n
  | .ss c block key k lookup users now, b, q, n => ssServerUnpack c block key k lookup users now b q n

/-- a client-side packer as configured (`rand`, `ts`, `sid`, `pid`: what the packer draws for this packet) -/
inductive ClientP
  | direct (mtu : Int) (resolved : Option IP)
  | plain (hdr3 : Bool) (limit : Int)
  | ss (c : Crypto) (userBlock aeadKey : Bytes) (eih : List (Bytes × Bytes)) (mps : Int) (pol : Policy)
      (rand : Nat) (ts sid pid : Bytes)

def ClientP.proto : ClientP → Proto
  | .direct _ _ => .direct
  | .plain false _ => .none
  | .plain true _ => .socks5
  | .ss _ _ _ eih _ _ _ _ _ _ => .ss2022 eih.length

def ClientP.run : ClientP → Bytes → Addr → Nat → Nat → Outcome Packed
  | .direct mtu resolved, b, a, ps, pl => directClientPack mtu resolved b a ps pl
  | .plain hdr3 limit, b, a, ps, pl => plainClientPack hdr3 limit b a ps pl
  | .ss c userBlock aeadKey eih mps pol rand ts sid pid, b, a, ps, pl =>
      ssClientPack c userBlock aeadKey eih mps pol b a ps pl rand ts sid pid

/-- uplink: unpack at the receive offset, re-pack in place for the outgoing client -/
def relayUplink (s : ServerU) (cp : ClientP) (b : Bytes) (front n : Nat) : Outcome Packed :=
  match s.run b front n with
  | .ok u => cp.run u.buf u.addr u.payloadStart.toNat u.payloadLen.toNat
  | .err e => .err e
  | .panic => .panic
  | .noRoom => .noRoom

/-- a client-side unpacker as configured -/
inductive ClientU
  | direct
  | plain (hdr3 : Bool) (server : AddrPort)
  | ss (c : Crypto) (block key csid : Bytes) (now : Int)

def ClientU.proto : ClientU → Proto
  | .direct => .direct
  | .plain false _ => .none
  | .plain true _ => .socks5
  | .ss _ _ _ _ _ => .ss2022 0

def ClientU.run : ClientU → AddrPort → Bytes → Nat → Nat → Outcome (Unpacked AddrPort)
  | .direct, src, b, q, n => directClientUnpack src b q n
  | .plain hdr3 server, src, b, q, n => plainClientUnpack hdr3 server src b q n
  | .ss c block key csid now, _, b, q, n => ssClientUnpack c block key csid now b q n

/-- a server-side packer as configured -/
inductive ServerP
  | direct (target : Addr) (targetOnly : Bool)
  | plain (hdr3 : Bool)
  | ss (c : Crypto) (block key : Bytes) (pol : Policy) (rand : Nat) (ts ssid spid csid : Bytes)

def ServerP.proto : ServerP → Proto
  | .direct _ _ => .direct
  | .plain false => .none
  | .plain true => .socks5
  | .ss _ _ _ _ _ _ _ _ _ => .ss2022 0

def ServerP.run : ServerP → Bytes → AddrPort → Nat → Nat → Int → Outcome Packed
  | .direct target only, b, a, ps, pl, lim => directServerPack target only b a ps pl lim
  | .plain hdr3, b, a, ps, pl, lim => plainServerPack hdr3 b a ps pl lim
  | .ss c block key pol rand ts ssid spid csid, b, a, ps, pl, lim =>
      ssServerPack c block key pol b a ps pl lim rand ts ssid spid csid

/-- downlink: unpack at `headroom.Front`, re-pack in place for the downstream client -/
def relayDownlink (cu : ClientU) (sp : ServerP) (pktSrc : AddrPort) (b : Bytes) (front n : Nat) (maxClientPacketSize : Int) :
    Outcome Packed :=
  match cu.run pktSrc b front n with
  | .ok u => sp.run u.buf u.addr u.payloadStart.toNat u.payloadLen.toNat maxClientPacketSize
  | .err e => .err e
  | .panic => .panic
  | .noRoom => .noRoom

end SSV.Packet
