import SSV.Gen.C04
/-
Model of ss2022/slidingwindow.go (SlidingWindowFilter).

Words of the ring are `Nat`s (the code's `uint`, 64 bits); counters are `Nat`s below 2^64.
Every arithmetic step that can wrap in the code (`size+swfBlockBits-1`, `1 << n`,
`ringBlocks - 1`, `f.last-counter`) is written with the wrap made explicit, so the model
says what the code does also outside the window sizes the property quantifies over.
-/
namespace SSV.SWF

def W : Nat := 2 ^ 64
def blockBits : Nat := SSV.Gen.C04.swfBlockBits

/-- `bits.Len64` -/
def len64 (x : Nat) : Nat := if x = 0 then 0 else Nat.log2 x + 1

structure Filter where
  size : Nat
  last : Nat
  ring : List Nat
  mask : Nat
deriving Repr, DecidableEq

/-- `NewSlidingWindowFilter(size)`; `size < 2^64`. -/
def new (size : Nat) : Filter :=
  let ringBits := (1 <<< len64 ((size + blockBits - 1) % W)) % W
  let ringBlocks := ringBits / blockBits
  { size := size, last := 0, ring := List.replicate ringBlocks 0, mask := (ringBlocks + W - 1) % W }

def unmaskedBlockIndex (c : Nat) : Nat := c / blockBits
def blockIndex (f : Filter) (c : Nat) : Nat := (c / blockBits) &&& f.mask
def bitIndex (c : Nat) : Nat := c % blockBits

def word (f : Filter) (i : Nat) : Nat := f.ring.getD i 0

/-- `IsOk` -/
def isOk (f : Filter) (c : Nat) : Bool :=
  if c > f.last then true
  else if f.last - c ≥ f.size then false
  else (word f (blockIndex f c) &&& (1 <<< bitIndex c)) == 0

/-- the clearing loop: `for range n { i = (i+1) & mask; ring[i] = 0 }` -/
def clearLoop (mask : Nat) : Nat → Nat → List Nat → List Nat
  | 0, _, ring => ring
  | n + 1, i, ring =>
    let i' := (i + 1) &&& mask
    clearLoop mask n i' (ring.set i' 0)

def advance (f : Filter) (c : Nat) : Filter :=
  let lastBlock := unmaskedBlockIndex f.last
  let cnt := min (unmaskedBlockIndex c - lastBlock) f.ring.length
  { f with ring := clearLoop f.mask cnt lastBlock f.ring, last := c }

def setBit (f : Filter) (c : Nat) : Filter :=
  let bi := blockIndex f c
  { f with ring := f.ring.set bi (word f bi ||| (1 <<< bitIndex c)) }

/-- `MustAdd` -/
def mustAdd (f : Filter) (c : Nat) : Filter :=
  setBit (if c > f.last then advance f c else f) c

/-- `Add` -/
def add (f : Filter) (c : Nat) : Filter × Bool :=
  if c > f.last then (setBit (advance f c) c, true)
  else if f.last - c ≥ f.size then (f, false)
  else if (word f (blockIndex f c) &&& (1 <<< bitIndex c)) != 0 then (f, false)
  else (setBit f c, true)

/-- `Reset` -/
def reset (f : Filter) : Filter := { f with last := 0, ring := f.ring.set 0 0 }

end SSV.SWF
