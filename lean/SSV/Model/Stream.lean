import SSV.Base.Util
import SSV.Gen.C01
/-
Executable model of the Shadowsocks 2022 TCP tunnel (ss2022/stream.go, tcp.go, header.go,
socks5/addr.go), shared by C01 and C02.

Layer 1: chunk codec over an abstract AEAD (`Crypto`), writer (`Write`, `ReadFrom`), reader with
         left-over buffer (`Read`, `WriteTo`, tunnel copy).
Layer 2: handshake: `StreamClient.DialStream`, `StreamServer.HandleStream`, the server's first write
         (`prepareInitWriteBufs` / `initWrite`) and the client's `initRead` / first payload chunk.

Nonces are `Nat` counters (the code's 12-byte little-endian `increment`, modelled as `incrementLE`
below, is successor mod 2^96: `SSV.Proofs.StreamCodec`). Random choices of the code (salt, padding,
timestamp, buffer capacity chosen by the Go allocator) are explicit arguments.

The copy paths consult three facts regenerated from the source (`SSV.Gen.C01`): whether `WriteTo`
and `writeToShadowStreamConn` flush the left-over of earlier `Read`s before their loop, and whether
`writeToServerConn` guards a server conn without write cipher. With a fact `false` the model
mirrors the unrepaired code (left-over skipped / nil dereference).
-/
namespace SSV.Stream
open SSV.Gen.C01

/-- The cryptographic primitives, as functions (parameters of every theorem). -/
structure Crypto where
  /-- AEAD seal: key, nonce counter, plaintext -/
  enc : Bytes → Nat → Bytes → Bytes
  /-- AEAD open -/
  dec : Bytes → Nat → Bytes → Option Bytes
  /-- session subkey from (PSK, salt) -/
  kdf : Bytes → Bytes → Bytes
  /-- identity-header block cipher keyed by (iPSK, salt) -/
  eihEnc : Bytes → Bytes → Bytes → Bytes
  eihDec : Bytes → Bytes → Bytes → Bytes
  /-- truncated PSK hash -/
  pskHash : Bytes → Bytes

inductive Err
  | eof | unexpectedEOF | auth | zeroLenChunk | firstRead | prefixMismatch | typeMismatch
  | badTimestamp | saltMismatch | zeroRespLen | userNotFound | addr | incompleteHeader
  | paddingExceeds | fuel | nilDeref | timeout | srcErr | sinkErr
  deriving DecidableEq, Repr, Inhabited

def Err.name : Err → String
  | .eof => "eof" | .unexpectedEOF => "unexpected-eof" | .auth => "auth" | .zeroLenChunk => "zero-length-chunk"
  | .firstRead => "first-read" | .prefixMismatch => "prefix-mismatch" | .typeMismatch => "type-mismatch"
  | .badTimestamp => "bad-timestamp" | .saltMismatch => "salt-mismatch" | .zeroRespLen => "zero-response-length"
  | .userNotFound => "user-not-found" | .addr => "addr" | .incompleteHeader => "incomplete-header"
  | .paddingExceeds => "padding-exceeds" | .fuel => "fuel" | .nilDeref => "panic-nil-deref" | .timeout => "timeout"
  | .srcErr => "source-error" | .sinkErr => "sink-error"

/-! ### big-endian integers -/

def be16 (n : Nat) : Bytes := [UInt8.ofNat (n / 256), UInt8.ofNat (n % 256)]

/-- `binary.BigEndian.Uint16` on the first two bytes. -/
def unbe16 : Bytes → Nat
  | a :: b :: _ => a.toNat * 256 + b.toNat
  | _ => 0

def beN : Nat → Nat → Bytes
  | 0, _ => []
  | k + 1, n => beN k (n / 256) ++ [UInt8.ofNat (n % 256)]

def unbeN (bs : Bytes) : Nat := bs.foldl (fun acc b => acc * 256 + b.toNat) 0

def be64 (n : Nat) : Bytes := beN 8 n

/-- `increment` of stream.go on a little-endian byte string. -/
def incrementLE : Bytes → Bytes
  | [] => []
  | b :: rest => if b + 1 ≠ 0 then (b + 1) :: rest else (b + 1) :: incrementLE rest

def leVal : Bytes → Nat
  | [] => 0
  | b :: rest => b.toNat + 256 * leVal rest

/-! ### transport -/

/-- `io.ReadFull` on the concatenation of everything the peer will ever send (followed by EOF). -/
def readFull (n : Nat) (w : Bytes) : Except Err (Bytes × Bytes) :=
  if n = 0 then .ok ([], w)
  else if w.length = 0 then .error .eof
  else if w.length < n then .error .unexpectedEOF
  else .ok (w.take n, w.drop n)

/-- `io.ReadFull` on a transport that delivers one (non-empty) segment, or a part of it, per `Read`. -/
def readFullSeg : Nat → Nat → List Bytes → Except Err (Bytes × List Bytes)
  | 0, _, segs => .ok ([], segs)
  | _ + 1, got, [] => if got = 0 then .error .eof else .error .unexpectedEOF
  | n + 1, got, s :: rest =>
    if s.length = 0 then readFullSeg (n + 1) got rest
    else if n + 1 ≤ s.length then .ok (s.take (n + 1), s.drop (n + 1) :: rest)
    else match readFullSeg (n + 1 - s.length) (got + s.length) rest with
      | .ok (bs, r) => .ok (s ++ bs, r)
      | .error e => .error e
termination_by n _ segs => (segs.length, n)
decreasing_by all_goals simp_wf <;> first | (apply Prod.Lex.left; omega) | (apply Prod.Lex.left; simp)

/-- result of the first read of a handshake: the bytes, the rest of the transport (flattened), and,
on failure, the bytes that had been read (the fallback payload) -/
inductive FirstRead
  | ok (bs : Bytes) (rest : Bytes)
  | fail (e : Err) (got : Bytes) (rest : List Bytes)

/-- `readOnceOrFull`: `readOnceExpectFull` (one `Read`, must fill the buffer) or `io.ReadFull`. -/
def firstRead (allowSeg : Bool) (n : Nat) (segs : List Bytes) : FirstRead :=
  let segs := segs.filter (fun s => s.length ≠ 0)
  if allowSeg then
    let w := segs.flatten
    match readFull n w with
    | .ok (bs, r) => .ok bs r
    | .error e => .fail e w []
  else match segs with
    | [] => .fail .eof [] []
    | s :: rest =>
      if n ≤ s.length then .ok (s.take n) (s.drop n ++ rest.flatten)
      else .fail .firstRead s rest

/-! ### layer 1: chunks -/

def sealChunk (C : Crypto) (k : Bytes) (n : Nat) (p : Bytes) : Bytes :=
  C.enc k n (be16 p.length) ++ C.enc k (n + 1) p

/-- wire image of a list of payload chunks starting at nonce `n` -/
def encodeChunks (C : Crypto) (k : Bytes) : Nat → List Bytes → Bytes
  | _, [] => []
  | n, p :: ps => sealChunk C k n p ++ encodeChunks C k (n + 2) ps

/-- the `for len(b) > 0` loop of `ShadowStreamConn.Write`: pieces of at most `maxp` bytes -/
def splitChunks (maxp : Nat) : Nat → Bytes → List Bytes
  | 0, _ => []
  | fuel + 1, d => if d.length = 0 then [] else d.take maxp :: splitChunks maxp fuel (d.drop maxp)

/-- chunks produced by `Write(b)` -/
def writeChunks (b : Bytes) : List Bytes := splitChunks streamMaxPayloadSize b.length b

/-- chunks produced by `ReadFrom(r)` when `r.Read(buf)` returns `min (len buf) (rest of piece)`
bytes of the current piece, `(0, nil)` for an empty piece and `(0, EOF)` at the end; `cap0` is the
buffer length of the first call (the server's first write uses a shorter buffer), later calls use
`streamMaxPayloadSize`. -/
def readFromChunks (cap0 : Nat) : List Bytes → List Bytes
  | [] => []
  | p :: ps =>
    if p.length = 0 then readFromChunks cap0 ps
    else p.take cap0 :: (splitChunks streamMaxPayloadSize p.length (p.drop cap0) ++ readFromChunks streamMaxPayloadSize ps)

/-! ### `io.Reader` sources handed to `ReadFrom` -/

/-- one result the source wants to return: these bytes and, together with the last of them, this
error (`none`: nil; `some .eof`: `io.EOF`, the `iotest.DataErrReader` style; `some .srcErr`: another
error). An item without bytes and without error is a `(0, nil)` read. -/
structure SrcItem where
  data : Bytes
  err : Option Err
  deriving Repr

abbrev Src := List SrcItem

/-- one `r.Read(buf)` with `len(buf) = cap`: a result longer than the buffer is returned in several
reads (short reads), the error comes with the last part; an exhausted script returns `(0, io.EOF)` -/
def Src.read (cap : Nat) : Src → (Bytes × Option Err) × Src
  | [] => (([], some .eof), [])
  | it :: rest =>
    if it.data.length ≤ cap then ((it.data, it.err), rest)
    else ((it.data.take cap, none), { it with data := it.data.drop cap } :: rest)

def Src.size : Src → Nat
  | [] => 0
  | it :: rest => it.data.length + 1 + Src.size rest

/-- the loop of `ShadowStreamConn.ReadFrom`: the chunks written, the error returned (`none`: nil) and
what is left of the source. The regenerated fact `readFromHandlesDataFirst` says the loop body handles
`nr > 0` before it looks at `err`; with the fact `false` the model mirrors a loop that drops data
returned together with an error. -/
def readFromLoop (cap : Nat) : Nat → Src → List Bytes → List Bytes × Option Err × Src
  | 0, s, acc => (acc.reverse, some .fuel, s)
  | f + 1, s, acc =>
    let ((d, e), s') := s.read cap
    let acc' := if d.length > 0 && (readFromHandlesDataFirst || e.isNone) then d :: acc else acc
    match e with
    | some .eof => (acc'.reverse, none, s')
    | some e => (acc'.reverse, some e, s')
    | none => readFromLoop cap f s' acc'

/-- `ShadowStreamConn.ReadFrom(r)` -/
def connReadFrom (src : Src) : List Bytes × Option Err × Src :=
  readFromLoop streamMaxPayloadSize (src.size + 1) src []

/-- the first loop of `ShadowStreamServerConn.readFromGeneric`: read until the source hands over
bytes; these travel with the response header (an error returned together with them is dropped, the
conn's `ReadFrom` then reads on). `serverFirstReadHandlesDataFirst`: regenerated fact on the order of
the `nr` / `err` checks in that loop. -/
def firstData (cap : Nat) : Nat → Src → Option Bytes × Option Err × Src
  | 0, s => (none, some .fuel, s)
  | f + 1, s =>
    let ((d, e), s') := s.read cap
    if d.length > 0 && (serverFirstReadHandlesDataFirst || e.isNone) then (some d, none, s')
    else match e with
      | some .eof => (none, none, s')
      | some e => (none, some e, s')
      | none => firstData cap f s'

structure Writer where
  key : Bytes
  nonce : Nat
  deriving Repr

/-- `ShadowStreamConn.write` for each chunk: one `Conn.Write` (segment) per chunk -/
def Writer.emit (C : Crypto) (w : Writer) : List Bytes → List Bytes × Writer
  | [] => ([], w)
  | p :: ps =>
    let (segs, w') := Writer.emit C { w with nonce := w.nonce + 2 } ps
    (sealChunk C w.key w.nonce p :: segs, w')

/-- result of `ShadowStreamConn.read`, with the state it leaves behind -/
structure ChunkRes where
  res : Except Err Bytes
  nonce : Nat
  wire : Bytes

/-- the nonce after an AEAD open that FAILED under nonce `n` (`DecryptInPlace` / `DecryptTo`
increment only on success; the regenerated fact says whether the source still does) -/
def failNonce (n : Nat) : Nat := if decryptAdvancesOnlyOnSuccess then n else n + 1

/-- `ShadowStreamConn.readChunk` (the body of `read` behind the sticky-error guard) -/
def readChunk (C : Crypto) (k : Bytes) (n : Nat) (w : Bytes) : ChunkRes :=
  match readFull (2 + tagSize) w with
  | .error e => ⟨.error e, n, []⟩
  | .ok (c1, w1) =>
    match C.dec k n c1 with
    | none => ⟨.error .auth, failNonce n, w1⟩
    | some lp =>
      let len := unbe16 lp
      if len = 0 then ⟨.error .zeroLenChunk, n + 1, w1⟩
      else match readFull (len + tagSize) w1 with
        | .error e => ⟨.error e, n + 1, []⟩
        | .ok (c2, w2) =>
          match C.dec k (n + 1) c2 with
          | none => ⟨.error .auth, failNonce (n + 1), w2⟩
          | some p => ⟨.ok p, n + 2, w2⟩

/-- reading side of a `ShadowStreamConn`: cipher key and nonce, `readBuf[readStart:]`, and the bytes
still to come from the transport -/
structure Reader where
  key : Bytes
  nonce : Nat
  left : Bytes
  wire : Bytes
  deriving Repr

/-- outcome of one reader call -/
inductive ROut
  /-- `Read` returned these bytes and a nil error -/
  | data (bs : Bytes)
  /-- `Read` returned `0, err` -/
  | fail (e : Err)
  /-- `WriteTo` / tunnel copy: the pieces handed to the destination (one per `Write` / chunk), and
  the error returned (`none`: nil, i.e. clean end of stream) -/
  | copied (pieces : List Bytes) (e : Option Err)
  deriving Repr

/-- `ShadowStreamConn.Read(b)` with `len(b) = bufLen` -/
def Reader.read (C : Crypto) (r : Reader) (bufLen : Nat) : ROut × Reader :=
  if r.left.length = 0 then
    let cr := readChunk C r.key r.nonce r.wire
    match cr.res with
    | .error e => (.fail e, { r with nonce := cr.nonce, wire := cr.wire })
    | .ok p =>
      if bufLen ≥ streamReadMinBufferSize then
        (.data p, { r with nonce := cr.nonce, wire := cr.wire })
      else
        (.data (p.take bufLen), { r with nonce := cr.nonce, wire := cr.wire, left := p.drop bufLen })
  else
    (.data (r.left.take bufLen), { r with left := r.left.drop bufLen })

/-- the read loop shared by `WriteTo` and `writeToShadowStreamConn` (fuel: one unit per chunk) -/
def copyLoop (C : Crypto) : Nat → Reader → List Bytes → ROut × Reader
  | 0, r, acc => (.copied acc.reverse (some .fuel), r)
  | fuel + 1, r, acc =>
    let cr := readChunk C r.key r.nonce r.wire
    let r' := { r with nonce := cr.nonce, wire := cr.wire }
    match cr.res with
    | .error .eof => (.copied acc.reverse none, r')
    | .error e => (.copied acc.reverse (some e), r')
    | .ok p => copyLoop C fuel r' (p :: acc)

/-- `ShadowStreamConn.WriteTo(w)` for a destination whose `Write` accepts everything -/
def Reader.writeTo (C : Crypto) (r : Reader) : ROut × Reader :=
  if writeToFlushesLeftover then
    if r.left.length = 0 then copyLoop C (r.wire.length + 1) r []
    else copyLoop C (r.wire.length + 1) { r with left := [] } [r.left]
  else copyLoop C (r.wire.length + 1) r []

/-! ### `io.Writer` sinks handed to `WriteTo` -/

/-- one result of the sink's `Write(p)`: it takes `min accept (len p)` bytes and returns an error or
not. The model covers sinks that keep the `io.Writer` contract (fewer bytes than offered only together
with an error); an exhausted script takes everything. -/
structure SinkRes where
  accept : Nat
  err : Bool
  deriving Repr

def sinkWrite (sink : List SinkRes) (p : Bytes) : Bytes × Bool × List SinkRes :=
  match sink with
  | [] => (p, false, [])
  | r :: rest => (p.take r.accept, r.err, rest)

/-- the read loop of `WriteTo` against a scripted sink: `nw, err := w.Write(b[:nr]); n += nw;
if err != nil { return }` — what the sink did not take of the current chunk is gone -/
def copyLoopSink (C : Crypto) : Nat → Reader → List SinkRes → List Bytes → ROut × Reader × List SinkRes
  | 0, r, sink, acc => (.copied acc.reverse (some .fuel), r, sink)
  | fuel + 1, r, sink, acc =>
    let cr := readChunk C r.key r.nonce r.wire
    let r' := { r with nonce := cr.nonce, wire := cr.wire }
    match cr.res with
    | .error .eof => (.copied acc.reverse none, r', sink)
    | .error e => (.copied acc.reverse (some e), r', sink)
    | .ok p =>
      let (a, e, sink') := sinkWrite sink p
      if e then (.copied (a :: acc).reverse (some .sinkErr), r', sink')
      else copyLoopSink C fuel r' sink' (a :: acc)

/-- `ShadowStreamConn.WriteTo(w)` for a scripted sink: the left-over is flushed first
(`nw, err := w.Write(leftover); c.readStart += nw`: what the sink did not take stays buffered) -/
def Reader.writeToSink (C : Crypto) (r : Reader) (sink : List SinkRes) : ROut × Reader × List SinkRes :=
  if writeToFlushesLeftover && r.left.length != 0 then
    let (a, e, sink') := sinkWrite sink r.left
    let r1 := { r with left := r.left.drop a.length }
    if e then (.copied [a] (some .sinkErr), r1, sink')
    else copyLoopSink C (r.wire.length + 1) r1 sink' [a]
  else copyLoopSink C (r.wire.length + 1) r sink []

/-- `writeToShadowStreamConn(w)`: the pieces are re-encrypted one chunk each by `w.write` -/
def Reader.tunnel (C : Crypto) (r : Reader) : ROut × Reader :=
  if tunnelFlushesLeftover then
    if r.left.length = 0 then copyLoop C (r.wire.length + 1) r []
    else copyLoop C (r.wire.length + 1) { r with left := [] } [r.left]
  else copyLoop C (r.wire.length + 1) r []

inductive ROp
  | read (bufLen : Nat)
  | writeTo
  | tunnel
  deriving Repr, DecidableEq

def Reader.step (C : Crypto) (r : Reader) : ROp → ROut × Reader
  | .read n => r.read C n
  | .writeTo => r.writeTo C
  | .tunnel => r.tunnel C

/-- bytes an outcome delivered to the application -/
def ROut.bytes : ROut → Bytes
  | .data bs => bs
  | .fail _ => []
  | .copied ps _ => ps.flatten

/-- the error an outcome reported (`eof` for a `Read` at end of stream; a copy that ends cleanly
reports none) -/
def ROut.err : ROut → Option Err
  | .data _ => none
  | .fail e => some e
  | .copied _ e => e

/-- a copy call that returned nil has seen the end of the stream -/
def ROut.sawEnd : ROut → Bool
  | .fail .eof => true
  | .copied _ none => true
  | _ => false

/-- run a schedule; stops after the first outcome that reports an error other than end of stream -/
def Reader.run (C : Crypto) : Reader → List ROp → List ROut
  | _, [] => []
  | r, op :: ops =>
    let (o, r') := r.step C op
    match o.err with
    | some .eof => o :: Reader.run C r' ops
    | some _ => [o]
    | none => o :: Reader.run C r' ops

/-! ### sticky read errors (`ShadowStreamConn.readErr`) -/

/-- the error an outcome reported, other than end of stream -/
def ROut.hardErr (o : ROut) : Option Err :=
  match o.err with
  | some .eof => none
  | e => e

/-- what a call returns once `read` refuses to run: `Read` returns `0, err`, the copies `0, err`
(the left-over is empty whenever `read` has failed: `Read` only calls it with an empty left-over and
the copies flush the left-over first) -/
def failedOut (op : ROp) (e : Err) : ROut :=
  match op with
  | .read _ => .fail e
  | _ => .copied [] (some e)

/-- the call ran into the end of the current stretch of the transport -/
def ROut.hitEnd : ROut → Bool
  | .fail .eof => true
  | .fail .unexpectedEOF => true
  | .copied _ none => true
  | .copied _ (some .unexpectedEOF) => true
  | _ => false

/-- the same outcome when the stretch ended in a read deadline, not in the end of the stream -/
def ROut.asTimeout : ROut → ROut
  | .fail _ => .fail .timeout
  | .copied ps _ => .copied ps (some .timeout)
  | o => o

/-- a `ShadowStreamConn` reading side with its sticky error (`readErr`) on a transport with read
deadlines: the transport delivers `r.wire`, then a `Read` call of the transport returns a timeout
error with 0 bytes, then it delivers the first stretch of `later`, and so on; after the last
stretch comes the end of the stream.

Regenerated facts: `readErrorsSticky` — `read` starts with the `readErr` guard and records failures;
`boundaryTimeoutRetryable` — a failure of the first `io.ReadFull` of `read` that consumed nothing
(end of stream, deadline at a chunk boundary) is not recorded, every other failure is (except
`io.EOF`). With `readErrorsSticky = false` the model mirrors the unguarded code: later calls go on
with whatever cipher/transport state the failed call left behind. -/
structure SReader where
  r : Reader
  err : Option Err := none
  later : List Bytes := []
  deriving Repr

def SReader.step (C : Crypto) (s : SReader) (op : ROp) : ROut × SReader :=
  match (if readErrorsSticky then s.err else none) with
  | some e => (failedOut op e, s)
  | none =>
    let (o, r') := s.r.step C op
    match s.later with
    | [] => (o, { r := r', err := if readErrorsSticky then o.hardErr else none, later := [] })
    | nx :: rest =>
      if o.hitEnd then
        -- bytes of an unfinished chunk were consumed: part of a chunk (`io.ErrUnexpectedEOF` on the
        -- stretch), or a whole length chunk whose payload chunk has not arrived (odd nonce advance)
        let mid := o.err == some .unexpectedEOF || r'.nonce % 2 != s.r.nonce % 2
        let stick := readErrorsSticky && (mid || !boundaryTimeoutRetryable)
        (o.asTimeout, { r := { r' with wire := r'.wire ++ nx }, err := if stick then some .timeout else none, later := rest })
      else (o, { r := r', err := if readErrorsSticky then o.hardErr else none, later := s.later })

/-- `WriteTo` into a scripted sink on the conn with its sticky error (no read deadlines pending): an
error of the sink is not a read error and is not recorded -/
def SReader.writeToSink (C : Crypto) (s : SReader) (sink : List SinkRes) : ROut × SReader :=
  match (if readErrorsSticky then s.err else none) with
  | some e => (failedOut .writeTo e, s)
  | none =>
    let (o, r', _) := s.r.writeToSink C sink
    (o, { s with r := r', err := if readErrorsSticky && o.err != some .sinkErr then o.hardErr else none })

/-- cut a wire at offsets (ascending, relative to `pos`) into the stretches between read deadlines -/
def cutAt : List Nat → Nat → Bytes → List Bytes
  | [], _, w => [w]
  | t :: ts, pos, w => w.take (t - pos) :: cutAt ts (max t pos) (w.drop (t - pos))

/-- a reader whose transport will report read deadlines at the absolute stream offsets `touts`,
`consumed` bytes of the stream having been read before `r.wire` -/
def installTimeouts (r : Reader) (touts : List Nat) (consumed : Nat) : SReader :=
  match cutAt (touts.map (· - consumed)) 0 r.wire with
  | [] => { r := r }
  | w0 :: rest => { r := { r with wire := w0 }, later := rest }

/-- run a whole schedule, going on after errors (a caller that reads again after a failed read) -/
def SReader.run (C : Crypto) : SReader → List ROp → List ROut
  | _, [] => []
  | s, op :: ops => (s.step C op).1 :: SReader.run C (s.step C op).2 ops

/-! ### SOCKS addresses (socks5/addr.go) -/

inductive Addr
  | v4 (ip : Bytes) (port : Nat)
  | v6 (ip : Bytes) (port : Nat)
  | domain (name : Bytes) (port : Nat)
  deriving DecidableEq, Repr

def Addr.Valid : Addr → Bool
  | .v4 ip p => ip.length == 4 && p < 65536
  | .v6 ip p => ip.length == 16 && p < 65536
  | .domain d p => 1 ≤ d.length && d.length ≤ 255 && p < 65536

/-- `netip.Addr.Is4In6` on a 16-byte address -/
def is4in6 (ip : Bytes) : Bool := ip.take 12 == [0, 0, 0, 0, 0, 0, 0, 0, 0, 0, 0xff, 0xff]

/-- what the peer sees: IPv4-mapped IPv6 becomes IPv4 -/
def Addr.norm : Addr → Addr
  | .v6 ip p => if is4in6 ip then .v4 (ip.drop 12) p else .v6 ip p
  | a => a

/-- what the holder of a `ConnRequest` sees when it looks at the target address again after the
server conn has written: `HandleStream` parses the request inside the conn's write buffer, so the
address stays what it was only if `socks5.ConnAddrFromSlice` copies the domain name out of the
slice (regenerated fact); `overwritten` stands for the bytes now at that place -/
def addrSeenLater (a : Addr) (overwritten : Bytes) : Addr :=
  match a with
  | .domain d p => if connAddrFromSliceCopies then .domain d p else .domain (overwritten.take d.length) p
  | a => a

/-- `WriteAddrFromConnAddr` -/
def encodeAddr (a : Addr) : Bytes :=
  match a.norm with
  | .v4 ip p => UInt8.ofNat AtypIPv4 :: ip ++ be16 p
  | .v6 ip p => UInt8.ofNat AtypIPv6 :: ip ++ be16 p
  | .domain d p => UInt8.ofNat AtypDomainName :: UInt8.ofNat d.length :: d ++ be16 p

/-- `ConnAddrFromSlice`: the address and the number of bytes it occupies -/
def parseAddr (b : Bytes) : Except Err (Addr × Nat) :=
  if b.length < 2 then .error .addr else
  match b with
  | [] => .error .addr
  | t :: rest =>
    if t.toNat = AtypDomainName then
      let dl := (rest.headD 0).toNat
      if b.length < 2 + dl + 2 then .error .addr
      else if dl = 0 then .error .addr
      else .ok (.domain ((rest.drop 1).take dl) (unbe16 (rest.drop (1 + dl))), 2 + dl + 2)
    else if t.toNat = AtypIPv4 then
      if b.length < IPv4AddrLen then .error .addr
      else .ok (.v4 (rest.take 4) (unbe16 (rest.drop 4)), IPv4AddrLen)
    else if t.toNat = AtypIPv6 then
      if b.length < IPv6AddrLen then .error .addr
      else .ok (.v6 (rest.take 16) (unbe16 (rest.drop 16)), IPv6AddrLen)
    else .error .addr

/-! ### layer 2: request -/

structure ClientCfg where
  psk : Bytes
  ipsks : List Bytes
  reqPrefix : Bytes
  respPrefix : Bytes
  allowSeg : Bool
  deriving Repr

/-- what `DialStream` draws from `crypto/rand`, `math/rand` and the clock -/
structure DialChoice where
  salt : Bytes
  /-- the value returned by `mrand.IntN` (unused when the payload is ≥ `MaxPaddingLength`) -/
  rnd : Nat
  /-- `uint64(time.Now().Unix())` -/
  ts : Nat
  deriving Repr

def roomForPayload (target : Addr) : Nat := streamMaxPayloadSize - (encodeAddr target).length - 2

/-- `paddingPayloadLen` of `DialStream` -/
def paddingPayloadLen (room payloadLen rnd : Nat) : Nat :=
  if payloadLen > room then room
  else if payloadLen ≥ MaxPaddingLength then payloadLen
  else if payloadLen > 0 then payloadLen + rnd
  else 1 + rnd

/-- the range `mrand.IntN` draws from -/
def RndOk (payloadLen rnd : Nat) : Bool :=
  if payloadLen ≥ MaxPaddingLength then true
  else if payloadLen > 0 then rnd < MaxPaddingLength - payloadLen + 1
  else rnd < MaxPaddingLength

/-- `clientPSKHashes` -/
def eihHashes (C : Crypto) (cfg : ClientCfg) : List Bytes :=
  if cfg.ipsks.length = 0 then [] else (cfg.ipsks.drop 1).map C.pskHash ++ [C.pskHash cfg.psk]

def identityHeaders (C : Crypto) (cfg : ClientCfg) (salt : Bytes) : List Bytes :=
  List.zipWith (fun ipsk h => C.eihEnc ipsk salt h) cfg.ipsks (eihHashes C cfg)

def zeros (n : Nat) : Bytes := List.replicate n 0

/-- `PutTCPRequestVariableLengthHeader` -/
def varHeader (target : Addr) (padLen : Nat) (payload : Bytes) : Bytes :=
  encodeAddr target ++ be16 padLen ++ zeros padLen ++ payload

/-- `PutTCPRequestFixedLengthHeader` -/
def fixedHeader (ts vhlen : Nat) : Bytes :=
  UInt8.ofNat HeaderTypeClientStream :: be64 ts ++ be16 vhlen

structure DialResult where
  /-- segments handed to the transport: the request, then one per chunk of excess payload -/
  segs : List Bytes
  writer : Writer
  /-- the part of the payload carried inside the request -/
  inReq : Bytes
  /-- the part written after the request -/
  excess : Bytes
  reqSalt : Bytes
  /-- an interruptor (`context.AfterFunc` setting the conn's write deadline to the distant past) is still
  registered on the DIAL context when `DialStream` returns: only the excess-payload branch registers one
  (`netio.ConnWriteContext`), and `ConnWriteContextFunc` detaches it before returning iff the regenerated
  fact `connWriteContextAlwaysStops` holds. While it is registered, the end of the dial context makes
  every later `Write` of the client conn fail. -/
  ctxArmed : Bool := false
  deriving Repr

/-- `StreamClient.DialStream` -/
def dial (C : Crypto) (cfg : ClientCfg) (ch : DialChoice) (target : Addr) (payload : Bytes) : DialResult :=
  let room := roomForPayload target
  let inReq := if payload.length > room then payload.take room else payload
  let excess := if payload.length > room then payload.drop room else []
  let ppl := paddingPayloadLen room payload.length ch.rnd
  let vh := varHeader target (ppl - inReq.length) inReq
  let k := C.kdf cfg.psk ch.salt
  let req := cfg.reqPrefix ++ ch.salt ++ (identityHeaders C cfg ch.salt).flatten
    ++ C.enc k 0 (fixedHeader ch.ts vh.length) ++ C.enc k 1 vh
  let (segs, w) := Writer.emit C ⟨k, 2⟩ (writeChunks excess)
  { segs := req :: segs, writer := w, inReq := inReq, excess := excess, reqSalt := ch.salt,
    ctxArmed := excess.length != 0 && !connWriteContextAlwaysStops }

/-- what an SIP023 relay does to the request: check and strip the first identity header. Returns
`none` when the header does not name the next hop's key. -/
def relayStrip (C : Crypto) (prefixLen saltLen : Nat) (ipsk nextPsk : Bytes) (wire : Bytes) : Option Bytes :=
  let salt := (wire.drop prefixLen).take saltLen
  let hdr := (wire.drop (prefixLen + saltLen)).take IdentityHeaderLength
  if C.eihDec ipsk salt hdr = C.pskHash nextPsk then
    some (wire.take (prefixLen + saltLen) ++ wire.drop (prefixLen + saltLen + IdentityHeaderLength))
  else none

/-- the chain of SIP023 relays in front of the server: hop `j` holds `ipsks[j]`, expects the first
identity header to name `ipsks[j+1]`, strips it and forwards; the holder of the last iPSK is the
server itself. `none` if some hop does not find the next hop's key hash. -/
def relayAll (C : Crypto) (prefixLen saltLen : Nat) : List Bytes → Bytes → Option Bytes
  | i0 :: i1 :: rest, w =>
    match relayStrip C prefixLen saltLen i0 i1 w with
    | some w' => relayAll C prefixLen saltLen (i1 :: rest) w'
    | none => none
  | _, w => some w

structure User where
  name : String
  psk : Bytes
  deriving Repr

structure ServerCfg where
  /-- `UserCipherConfig.PSK` (empty when the server identifies users by identity header) -/
  psk : Bytes
  /-- `IdentityCipherConfig.IPSK` -/
  ipsk : Bytes
  users : List User
  reqPrefix : Bytes
  respPrefix : Bytes
  allowSeg : Bool
  fallback : Bool
  deriving Repr

structure Request where
  addr : Addr
  payload : Bytes
  user : String
  deriving Repr

inductive HandleRes
  | request (req : Request) (r : Reader) (reqSalt : Bytes) (userPsk : Bytes)
  /-- unauthenticated connection handed to the fallback address with the bytes read so far -/
  | fallback (payload : Bytes)
  | error (e : Err)
  deriving Repr

/-- `int64(binary.BigEndian.Uint64(b))` -/
def toInt64 (n : Nat) : Int := if n < 2 ^ 63 then n else (n : Int) - 2 ^ 64

/-- `ValidateUnixEpochTimestamp` -/
def tsOk (ts : Nat) (now : Int) : Bool :=
  let diff := toInt64 ts - now
  !(diff < -(MaxEpochDiff : Int) || diff > (MaxEpochDiff : Int))

/-- `ParseTCPRequestVariableLengthHeader` -/
def parseVarHeader (b : Bytes) : Except Err (Addr × Bytes) :=
  match parseAddr b with
  | .error e => .error e
  | .ok (a, n) =>
    let b := b.drop n
    if b.length ≤ 2 then .error .incompleteHeader
    else
      let padLen := unbe16 b
      if 2 + padLen > b.length then .error .paddingExceeds
      else .ok (a, b.drop (2 + padLen))

def lookupUser (C : Crypto) (users : List User) (h : Bytes) : Option User :=
  users.find? (fun u => C.pskHash u.psk == h)

/-- `StreamServer.HandleStream` on a fresh salt pool (`now`: `time.Now().Unix()`) -/
def handle (C : Crypto) (cfg : ServerCfg) (now : Int) (segs : List Bytes) : HandleRes :=
  let eih := cfg.psk.length = 0
  let saltLen := if eih then cfg.ipsk.length else cfg.psk.length
  let idLen := if eih then IdentityHeaderLength else 0
  let urspLen := cfg.reqPrefix.length
  let firstLen := urspLen + saltLen + idLen + TCPRequestFixedLengthHeaderLength + tagSize
  match firstRead cfg.allowSeg firstLen segs with
  | .fail e got _ => if got.length > 0 && cfg.fallback then .fallback got else .error e
  | .ok b rest =>
    let unauth (e : Err) : HandleRes := if cfg.fallback then .fallback b else .error e
    let salt := (b.drop urspLen).take saltLen
    let ct := b.drop (urspLen + saltLen + idLen)
    if b.take urspLen ≠ cfg.reqPrefix then unauth .prefixMismatch else
    let user? : Option User :=
      if eih then lookupUser C cfg.users (C.eihDec cfg.ipsk salt ((b.drop (urspLen + saltLen)).take idLen))
      else some ⟨"", cfg.psk⟩
    match user? with
    | none => unauth .userNotFound
    | some u =>
      let k := C.kdf u.psk salt
      match C.dec k 0 ct with
      | none => unauth .auth
      | some fh =>
        if (fh.headD 0).toNat ≠ HeaderTypeClientStream then unauth .typeMismatch
        else if !tsOk (unbeN ((fh.drop 1).take 8)) now then unauth .badTimestamp
        else
          let vhlen := unbe16 (fh.drop 9)
          -- authenticated: no fallback from here on
          match readFull (vhlen + tagSize) rest with
          | .error e => .error e
          | .ok (c2, rest2) =>
            match C.dec k 1 c2 with
            | none => .error .auth
            | some vh =>
              match parseVarHeader vh with
              | .error e => .error e
              | .ok (a, payload) =>
                .request ⟨a, payload, u.name⟩ ⟨k, 2, [], rest2⟩ salt u.psk

/-! ### layer 2: response -/

/-- what the server's first write draws: salt, clock, and the capacities the Go allocator gave to
`getWriteBuf()` (`capW ≥ streamWriteBufferSize`) and to the enlarged buffer (`capBig`, used when the
response prefix is so long that `minBufferLen > capW`) -/
structure RespChoice where
  salt : Bytes
  ts : Nat
  capW : Nat
  capBig : Nat
  deriving Repr

/-- length of `payloadBuf` returned by `prepareInitWriteBufs` -/
def firstCap (respPrefixLen saltLen : Nat) (ch : RespChoice) : Nat :=
  let start := respPrefixLen + saltLen + TCPRequestFixedLengthHeaderLength + saltLen + tagSize
  let minBufferLen := start + 4096 + tagSize
  let capHb := if minBufferLen ≤ ch.capW then ch.capW else ch.capBig
  min (start + streamMaxPayloadSize) (capHb - tagSize) - start

def CapsOk (respPrefixLen saltLen : Nat) (ch : RespChoice) : Bool :=
  let start := respPrefixLen + saltLen + TCPRequestFixedLengthHeaderLength + saltLen + tagSize
  streamWriteBufferSize ≤ ch.capW && (start + 4096 + tagSize ≤ ch.capW || start + 4096 + tagSize ≤ ch.capBig)

/-- `AppendTCPResponseHeader` -/
def respHeader (ts : Nat) (reqSalt : Bytes) (len : Nat) : Bytes :=
  UInt8.ofNat HeaderTypeServerStream :: be64 ts ++ reqSalt ++ be16 len

/-- writing side of a `ShadowStreamServerConn` -/
structure SWriter where
  psk : Bytes
  respPrefix : Bytes
  reqSalt : Bytes
  /-- `none` until the first non-empty write (`writeCipher == nil`) -/
  w : Option Writer
  deriving Repr

/-- `initWrite(hb, p0)`: prefix, salt, sealed response header, sealed first payload chunk: one segment -/
def initWrite (C : Crypto) (s : SWriter) (ch : RespChoice) (p0 : Bytes) : Bytes × Writer :=
  let k := C.kdf s.psk ch.salt
  (s.respPrefix ++ ch.salt ++ C.enc k 0 (respHeader ch.ts s.reqSalt p0.length) ++ C.enc k 1 p0, ⟨k, 2⟩)

/-- `ShadowStreamServerConn.Write(b)` -/
def SWriter.write (C : Crypto) (s : SWriter) (ch : RespChoice) (b : Bytes) : List Bytes × SWriter :=
  if b.length = 0 then ([], s) else
  match s.w with
  | some w => let (segs, w') := w.emit C (writeChunks b); (segs, { s with w := some w' })
  | none =>
    let cap := firstCap s.respPrefix.length s.psk.length ch
    let (seg0, w) := initWrite C s ch (b.take cap)
    let (segs, w') := w.emit C (writeChunks (b.drop cap))
    (seg0 :: segs, { s with w := some w' })

/-- `ShadowStreamServerConn.readFromGeneric(r)`: segments written, the writer, the error returned and
the rest of the source -/
def SWriter.readFrom (C : Crypto) (s : SWriter) (ch : RespChoice) (src : Src) : List Bytes × SWriter × Option Err × Src :=
  match s.w with
  | some w =>
    let (cs, e, rest) := connReadFrom src
    let (segs, w') := w.emit C cs
    (segs, { s with w := some w' }, e, rest)
  | none =>
    let cap := firstCap s.respPrefix.length s.psk.length ch
    match firstData cap (src.size + 1) src with
    | (none, e, rest) => ([], s, e, rest)
    | (some p0, _, rest) =>
      let (seg0, w) := initWrite C s ch p0
      let (cs, e, rest') := connReadFrom rest
      let (segs, w') := w.emit C cs
      (seg0 :: segs, { s with w := some w' }, e, rest')

/-- reading side of a `ShadowStreamClientConn` -/
structure CReader where
  psk : Bytes
  respPrefix : Bytes
  reqSalt : Bytes
  allowSeg : Bool
  /-- transport segments not yet touched (only before the first read) -/
  segs : List Bytes
  /-- `none` until `initRead` ran (`readCipher == nil`) -/
  r : Option Reader
  /-- `readErr` -/
  err : Option Err := none
  /-- absolute offsets (ascending) in the server→client stream at which the transport reports a
  read deadline, until the first call has set up the reader; `total`: length of that stream -/
  touts : List Nat := []
  total : Nat := 0
  /-- stretches still to come, once the reader exists (cf. `SReader.later`) -/
  later : List Bytes := []
  deriving Repr

/-- `ParseTCPResponseHeader` -/
def parseRespHeader (h : Bytes) (now : Int) (reqSalt : Bytes) : Except Err Nat :=
  if (h.headD 0).toNat ≠ HeaderTypeServerStream then .error .typeMismatch
  else if !tsOk (unbeN ((h.drop 1).take 8)) now then .error .badTimestamp
  else if (h.drop 9).take reqSalt.length ≠ reqSalt then .error .saltMismatch
  else
    let n := unbe16 (h.drop (9 + reqSalt.length))
    if n = 0 then .error .zeroRespLen else .ok n

/-- `initRead`: the length of the first payload chunk and the reader state. On failure the state is
the one the code leaves behind (`readCipher` is set before the header is opened). -/
def initRead (C : Crypto) (c : CReader) (now : Int) : Except Err Nat × CReader :=
  let saltLen := c.psk.length
  let urspLen := c.respPrefix.length
  let n := urspLen + saltLen + TCPRequestFixedLengthHeaderLength + saltLen + tagSize
  match firstRead c.allowSeg n c.segs with
  | .fail e _ rest => (.error e, { c with segs := rest })
  | .ok b rest =>
    if b.take urspLen ≠ c.respPrefix then (.error .prefixMismatch, { c with segs := [rest] }) else
    let salt := (b.drop urspLen).take saltLen
    let k := C.kdf c.psk salt
    match C.dec k 0 (b.drop (urspLen + saltLen)) with
    | none => (.error .auth, { c with segs := [], r := some ⟨k, failNonce 0, [], rest⟩ })
    | some h =>
      match parseRespHeader h now c.reqSalt with
      | .error e => (.error e, { c with segs := [], r := some ⟨k, 1, [], rest⟩ })
      | .ok len => (.ok len, { c with segs := [], r := some ⟨k, 1, [], rest⟩ })

/-- `readFirstPayloadChunk` on the state left by a successful `initRead` -/
def firstPayload (C : Crypto) (c : CReader) (len : Nat) : Except Err Bytes × CReader :=
  match c.r with
  | none => (.error .fuel, c)
  | some r =>
    match readFull (len + tagSize) r.wire with
    | .error e => (.error e, { c with r := some { r with wire := [] } })
    | .ok (c2, rest2) =>
      match C.dec r.key r.nonce c2 with
      | none => (.error .auth, { c with r := some { r with nonce := failNonce r.nonce, wire := rest2 } })
      | some p => (.ok p, { c with r := some { r with nonce := r.nonce + 1, wire := rest2 } })

/-- `ShadowStreamClientConn.Read(b)` -/
def CReader.read (C : Crypto) (c : CReader) (now : Int) (bufLen : Nat) : ROut × CReader :=
  match c.r with
  | some r => let (o, r') := r.read C bufLen; (o, { c with r := some r' })
  | none =>
    match initRead C c now with
    | (.error e, c') => (.fail e, c')
    | (.ok len, c') =>
      match firstPayload C c' len with
      | (.error e, c'') => (.fail e, c'')
      | (.ok p, c'') =>
        if len + tagSize ≤ bufLen then (.data p, c'')
        else (.data (p.take bufLen), { c'' with r := c''.r.map (fun r => { r with left := p.drop bufLen }) })

/-- prepend the first payload to the outcome of the copy loop that follows it -/
def ROut.prepend (p : Bytes) : ROut → ROut
  | .copied ps e => .copied (p :: ps) e
  | o => o

/-- the first-read part shared by `writeToGeneric` and `writeToServerConn`: end of stream before
any response byte is a clean end (`return 0, nil`); every other failure, including end of stream
right after the response header, is returned. `k` continues with the copy loop. -/
def CReader.firstCopy (C : Crypto) (c : CReader) (now : Int) (k : Reader → ROut × Reader) : ROut × CReader :=
  match initRead C c now with
  | (.error .eof, c') => (.copied [] none, c')
  | (.error e, c') => (.copied [] (some e), c')
  | (.ok len, c') =>
    match firstPayload C c' len with
    | (.error e, c'') => (.copied [] (some e), c'')
    | (.ok p, c'') =>
      match c''.r with
      | none => (.copied [p] (some .fuel), c'')
      | some r => let (o, r') := k r; (o.prepend p, { c'' with r := some r' })

/-- `ShadowStreamClientConn.writeToGeneric(w)` -/
def CReader.writeTo (C : Crypto) (c : CReader) (now : Int) : ROut × CReader :=
  match c.r with
  | some r => let (o, r') := r.writeTo C; (o, { c with r := some r' })
  | none => c.firstCopy C now (fun r => r.writeTo C)

/-- `ShadowStreamClientConn.writeToServerConn(w)`; `started`: `w.writeCipher != nil`. The pieces go
through `w.Write` (first piece of an unstarted `w`, or every piece on the guarded generic path) or
`w.write`. -/
def CReader.tunnel (C : Crypto) (c : CReader) (now : Int) (started : Bool) : ROut × CReader :=
  match c.r with
  | some r =>
    if started then let (o, r') := r.tunnel C; (o, { c with r := some r' })
    else if tunnelGuardsUnstartedServer then let (o, r') := r.writeTo C; (o, { c with r := some r' })
    else (.copied [] (some .nilDeref), c)
  | none => c.firstCopy C now (fun r => r.tunnel C)

/-- the client conn with its sticky error, on a transport with read deadlines. Before the first
read succeeded a deadline is only modelled at offset 0 (nothing of the response consumed: the call
fails, nothing changes); afterwards the conn is a plain `ShadowStreamConn` (`SReader`).
A failure of the first call is recorded once the read cipher exists; with
`boundaryTimeoutRetryable` (the narrower repair) also when bytes of the header were consumed. -/
def CReader.stepT (C : Crypto) (c : CReader) (now : Int) (started : Bool) (op : ROp) : ROut × CReader :=
  match (if readErrorsSticky then c.err else none) with
  | some e => (failedOut op e, c)
  | none =>
    match c.r with
    | some r =>
      if op = .tunnel && !started && !tunnelGuardsUnstartedServer then (.copied [] (some .nilDeref), c)
      else
        let op' := if op = .tunnel && !started then .writeTo else op
        let (o, s') := SReader.step C { r := r, later := c.later } op'
        (o, { c with r := some s'.r, err := s'.err, later := s'.later })
    | none =>
      match c.touts with
      | 0 :: ts => (failedOut op .timeout, { c with touts := ts })
      | _ =>
        let record (o : ROut) (c' : CReader) : CReader :=
          let consumed := c'.r.isSome || decide (c'.segs.flatten.length < c.segs.flatten.length)
          if readErrorsSticky && (if boundaryTimeoutRetryable then consumed else c'.r.isSome) then { c' with err := o.hardErr } else c'
        match op with
        | .read n =>
          let (o, c') := c.read C now n
          match c'.r with
          | some r' =>
            let s0 := installTimeouts r' c.touts (c.total - r'.wire.length)
            (o, record o { c' with r := some s0.r, later := s0.later, touts := [] })
          | none => (o, record o c')
        | _ =>
          match initRead C c now with
          | (.error .eof, c') => (.copied [] none, c')
          | (.error e, c') => (.copied [] (some e), record (.copied [] (some e)) c')
          | (.ok len, c') =>
            match firstPayload C c' len with
            | (.error e, c'') => (.copied [] (some e), record (.copied [] (some e)) c'')
            | (.ok p, c'') =>
              match c''.r with
              | none => (.copied [p] (some .fuel), c'')
              | some r =>
                let s0 := installTimeouts r c.touts (c.total - r.wire.length)
                let (o, s') := SReader.step C s0 (if op = .tunnel then .tunnel else .writeTo)
                ((o.prepend p), { c'' with r := some s'.r, err := s'.err, later := s'.later, touts := [] })

/-- `ShadowStreamClientConn.WriteTo(w)` (generic path) into a scripted sink, no read deadlines: on the
first call the first payload chunk goes to the sink in one `Write` (`nw, err := w.Write(…); if err != nil
{ return }`), then the conn's `WriteTo` -/
def CReader.writeToSinkS (C : Crypto) (c : CReader) (now : Int) (sink : List SinkRes) : ROut × CReader :=
  match (if readErrorsSticky then c.err else none) with
  | some e => (failedOut .writeTo e, c)
  | none =>
    match c.r with
    | some r =>
      let (o, s') := SReader.writeToSink C { r := r } sink
      (o, { c with r := some s'.r, err := s'.err })
    | none =>
      let (o0, c0) := c.stepT C now true (.read 0)
      -- reuse the first-call logic of `Read(0 bytes)` for the failures; on success redo it for the copy
      match initRead C c now with
      | (.error .eof, c') => (.copied [] none, c')
      | (.error _, _) => (match o0 with | .fail e => .copied [] (some e) | o => o, c0)
      | (.ok len, c') =>
        match firstPayload C c' len with
        | (.error _, _) => (match o0 with | .fail e => .copied [] (some e) | o => o, c0)
        | (.ok p, c'') =>
          match c''.r with
          | none => (.copied [p] (some .fuel), c'')
          | some r =>
            let (a, e, sink') := sinkWrite sink p
            if e then (.copied [a] (some .sinkErr), { c'' with segs := [], r := some r })
            else
              let (o, s') := SReader.writeToSink C { r := r } sink'
              (o.prepend a, { c'' with r := some s'.r, err := s'.err })

def CReader.readS (C : Crypto) (c : CReader) (now : Int) (n : Nat) : ROut × CReader :=
  c.stepT C now true (.read n)

def CReader.writeToS (C : Crypto) (c : CReader) (now : Int) : ROut × CReader :=
  c.stepT C now true .writeTo

def CReader.tunnelS (C : Crypto) (c : CReader) (now : Int) (started : Bool) : ROut × CReader :=
  c.stepT C now started .tunnel

end SSV.Stream
