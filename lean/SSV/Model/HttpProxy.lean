import SSV.Gen.C16
/-
Model of httpproxy/server.go (plain-HTTP proxying): the hop-by-hop filter, ServerHandle's 407 loop,
hostHeaderToAddr's case split, serverForwardRequests and serverForwardResponses.

Strings are `List Char` (header names/values after net/http's parsing). A header is the list of its
(canonical name, value) fields in arrival order: Go's `map[string][]string` keeps, per name, the values
in arrival order, and loses the order between different names; `delete(h, k)` removes every field named `k`.

net/http's own parsing and serialisation are parameters (trusted): a message arrives as a record
(method, host, close flag, fields, announced trailer names, trailer fields) and leaves as one.
The numbers, names and the order of the steps come from `SSV.Gen.C16`, regenerated from the source.
-/
namespace SSV.HttpProxy
open SSV.Gen.C16

abbrev Str := List Char
abbrev Field := Str × Str
abbrev Header := List Field

/-! ### strings: textproto.CanonicalMIMEHeaderKey, strings.TrimSpace, strings.Cut on "," -/

/-- `textproto.validHeaderFieldByte`: RFC 9110 token characters -/
def isTokenChar (c : Char) : Bool :=
  ('a' ≤ c && c ≤ 'z') || ('A' ≤ c && c ≤ 'Z') || ('0' ≤ c && c ≤ '9') ||
  "!#$%&'*+-.^_`|~".toList.contains c

def upperC (c : Char) : Char := if 'a' ≤ c && c ≤ 'z' then Char.ofNat (c.toNat - 32) else c
def lowerC (c : Char) : Char := if 'A' ≤ c && c ≤ 'Z' then Char.ofNat (c.toNat + 32) else c

/-- upper-case the first letter and every letter after a dash, lower-case the others -/
def capitalize : Bool → Str → Str
  | _, [] => []
  | up, c :: cs => (if up then upperC c else lowerC c) :: capitalize (c == '-') cs

/-- `http.CanonicalHeaderKey`: a name with a byte outside the token alphabet is returned unchanged -/
def canonKey (s : Str) : Str := if s.all isTokenChar then capitalize true s else s

/-- `unicode.IsSpace` -/
def isGoSpace (c : Char) : Bool :=
  let n := c.toNat
  n == 0x20 || (0x09 ≤ n && n ≤ 0x0d) || n == 0x85 || n == 0xA0 || n == 0x1680 || (0x2000 ≤ n && n ≤ 0x200a) ||
  n == 0x2028 || n == 0x2029 || n == 0x202f || n == 0x205f || n == 0x3000

/-- `strings.TrimSpace` -/
def trimSpace (s : Str) : Str := ((s.dropWhile isGoSpace).reverse.dropWhile isGoSpace).reverse

/-- the `strings.Cut(opts, ",")` loop: the comma-separated elements (always at least one) -/
def splitComma : Str → List Str
  | [] => [[]]
  | c :: cs =>
    if c = ',' then [] :: splitComma cs
    else match splitComma cs with
      | [] => [[c]]
      | x :: xs => (c :: x) :: xs

/-! ### header maps -/

/-- `delete(h, k)` -/
def del (h : Header) (k : Str) : Header := h.filter (fun f => f.1 != k)

/-- `h[k]` -/
def values (h : Header) (k : Str) : List Str := (h.filter (fun f => f.1 == k)).map (·.2)

def has (h : Header) (k : Str) : Bool := h.any (fun f => f.1 == k)

/-- the connection options of the `Connection` values: trimmed and canonicalised, in order -/
def options (conn : List Str) : List Str :=
  conn.flatMap (fun v => (splitComma v).map (fun o => canonKey (trimSpace o)))

/-- the loop over the options: `switch canOpt { case <kept>: default: delete(h, canOpt) }` -/
def delOptions (h : Header) (opts : List Str) : Header :=
  opts.foldl (fun h o => if keptOptions.contains o then h else del h o) h

/-- the hop-by-hop removal applied to one map: the nominated names, then the listed names -/
def removeHopByHop (h : Header) (conn : List Str) : Header :=
  deletedFields.foldl del (delOptions h (options conn))

def connLit : Str := ['C', 'o', 'n', 'n', 'e', 'c', 't', 'i', 'o', 'n']
def uaLit : Str := ['U', 's', 'e', 'r', '-', 'A', 'g', 'e', 'n', 't']
def locLit : Str := ['L', 'o', 'c', 'a', 't', 'i', 'o', 'n']
def proxyAuthLit : Str := "Proxy-Authorization".toList
def connectLit : Str := ['C', 'O', 'N', 'N', 'E', 'C', 'T']
/-- net/http's default `User-Agent` (Request.Write adds it when the map has no such key) -/
def defaultUA : Str := "Go-http-client/1.1".toList

/-! ### messages -/

structure Req where
  method : Str
  host : Str
  close : Bool            -- net/http's `req.Close`
  header : Header         -- `req.Header` (canonical names, without Host / Transfer-Encoding / Trailer)
  announced : List Str    -- keys of `req.Trailer` after parsing the head (names announced in `Trailer`)
  trailer : Header        -- trailer fields received after the body
deriving DecidableEq, Repr, Inhabited

structure Resp where
  status : Nat
  connClose : Bool        -- a Connection field carries `close` (net/http then deletes the Connection field)
  bodyEOF : Bool          -- body delimited by close (net/http sets `resp.Close`)
  header : Header
  announced : List Str
  trailer : Header
  locHost : Option Str    -- host of `url.Parse(Location[0])`, `none` if it does not parse
deriving DecidableEq, Repr, Inhabited

/-- the trailer that `Write` emits: net/http drops received trailer fields unless at least one was announced;
    the code filters them at end of body only if `trailerFilteredAtEOF` -/
def fwdTrailer (announced : List Str) (trailer : Header) (conn : List Str) : Header :=
  if announced.isEmpty then []
  else if trailerFilteredAtEOF then removeHopByHop trailer conn else trailer

/-- what serverForwardRequests does to a request before `req.Write` (and what `Write` adds) -/
def filterReq (r : Req) : Req :=
  let conn := values r.header connLit
  let h := reqExtraDeleted.foldl del (removeHopByHop r.header conn)
  let h := if !suppressDefaultUserAgent && !has h uaLit then h ++ [(uaLit, defaultUA)] else h
  { r with header := h, trailer := fwdTrailer r.announced r.trailer conn }

/-- net/http's ReadResponse: `Connection` is deleted from the header when it carries `close` -/
def ingestResp (p : Resp) : Resp := if p.connClose then { p with header := del p.header connLit } else p

def respClose (p : Resp) : Bool := p.connClose || p.bodyEOF

/-- the 3xx rule: Connection: close is added if Location points to another host -/
def redirectClose (p : Resp) (reqHost : Str) : Bool :=
  if redirectCodes.contains p.status then
    match values p.header locLit with
    | [_] => match p.locHost with
      | some h => !(h == reqHost || h == [])
      | none => false
    | _ => false
  else false

/-- position of a step in the inner loop of serverForwardResponses -/
def stepIdx (name : String) : Nat := respSteps.idxOf name

/-- does the `req.Close || resp.Close` test come before the test for a final response (so that it also
    applies to interim responses)? -/
def closeTestFirst : Bool := stepIdx "closeTest" < stepIdx "finalTest"

def isFinal (status : Nat) : Bool := decide (status ≥ finalStatus)

/-- what serverForwardResponses does to a response paired with request `q`; returns the response written
    and whether the connection ends after it -/
def filterResp (p0 : Resp) (q : Req) : Resp × Bool :=
  let p := ingestResp p0
  let close := respClose p || redirectClose p q.host
  let conn := values p.header connLit
  ({ p with header := removeHopByHop p.header conn, trailer := fwdTrailer p.announced p.trailer conn },
   (q.close || close) && (closeTestFirst || isFinal p.status))

/-! ### ServerHandle: the 407 loop -/

def lowerEq (a b : Str) : Bool := a.map lowerC == b.map lowerC

/-- `serverHandleBasicAuth`: the first value longer than "Basic " that starts with it (case-insensitively) decides -/
def basicAuth (tokens : List Str) (h : Header) : Bool :=
  match (values h proxyAuthLit).find? (fun v => v.length > 6 && lowerEq (v.take 5) "basic".toList && v.getD 5 'x' == ' ') with
  | some v => tokens.contains (v.drop 6)
  | none => false

/-- what arrives from the client: a request net/http parsed (with the verdict of the address parser on its
    host / CONNECT target), or bytes that `http.ReadRequest` refuses -/
inductive ClientMsg
  | req (r : Req) (addrOk : Bool)
  | garbage
deriving Repr, Inhabited, DecidableEq

inductive Handled
  | readErr (n407 : Nat)                 -- EOF or malformed request
  | authClosed (n407 : Nat)              -- failed attempt with `Connection: close`
  | connect (n407 : Nat) (r : Req)       -- tunnel
  | bad400 (n407 : Nat)                  -- bad CONNECT target / Host
  | forward (n407 : Nat) (first : Req) (rest : List ClientMsg)
deriving Repr, Inhabited, DecidableEq

/-- `usernameByToken == nil`, or `serverHandleBasicAuth` succeeds -/
def authOk (auth : Option (List Str)) (h : Header) : Bool :=
  match auth with
  | none => true
  | some toks => basicAuth toks h

/-- `ServerHandle` on the sequence of client messages; `auth = none`: no authentication -/
def serverHandle (auth : Option (List Str)) : List ClientMsg → Nat → Handled
  | [], n => .readErr n
  | .garbage :: _, n => .readErr n
  | .req r ok :: rest, n =>
    if !authOk auth r.header then
      if r.close then .authClosed (n + 1) else serverHandle auth rest (n + 1)
    else if r.method == connectLit then (if ok then .connect n r else .bad400 n)
    else if ok then .forward n r rest else .bad400 n

/-- `hostHeaderToAddr`'s case split (the address parsers themselves are library code) -/
inductive HostClass
  | empty
  | hostPort80 (host : Str)   -- AddrFromHostPort(host, 80)
  | parse (s : Str)           -- conn.ParseAddr(s)
deriving Repr, DecidableEq

def hostClass (host : Str) : HostClass :=
  if host.length == 0 then .empty
  else if !host.contains ':' then .hostPort80 host
  else if host.head? == some '[' && host.getLast? == some ']' then .hostPort80 ((host.drop 1).dropLast)
  else .parse host

/-! ### the forwarding goroutines as a transition system (all interleavings) -/

inductive FPhase | announce | write | read | done
deriving DecidableEq, Repr
inductive RPhase | peek | take | read | done
deriving DecidableEq, Repr

structure St where
  fixedHost : Str
  clientIn : List ClientMsg       -- what the client still sends
  sent : List Req                 -- ghost: requests accepted by the request forwarder so far (filtered), in order
  fphase : FPhase
  queue : List Req                -- contents of reqCh
  announced : List Req            -- ghost: everything ever put into reqCh
  originIn : List Req             -- trace: requests written to the origin
  originOut : List Resp           -- responses produced by the origin and not yet read
  taken : List Req                -- ghost: everything ever received from reqCh
  rcur : Option Req               -- request the response forwarder pairs responses with (final response not yet written)
  rphase : RPhase
  /-- trace: responses written to the client, each with the request it was paired with and the position of
      that request in the sequence of announcements -/
  clientOut : List (Resp × Req × Nat)
  respDone : Bool
  chClosed : Bool                 -- reqCh closed (request forwarder returned)

def accepts (fixedHost : Str) (m : ClientMsg) : Option Req :=
  match m with
  | .garbage => none
  | .req r _ => if r.method == connectLit then none else if r.host != fixedHost then none else some (filterReq r)

/-- `Proceed()` right after ServerHandle returned `forward _ first rest` -/
def St.init (first : Req) (rest : List ClientMsg) : St :=
  { fixedHost := first.host, clientIn := rest, sent := [filterReq first], fphase := .announce, queue := [], announced := [],
    originIn := [], originOut := [], taken := [], rcur := none, rphase := .peek, clientOut := [], respDone := false, chClosed := false }

inductive Step : St → St → Prop
  /-- `case reqCh <- req` (needs room in the channel) -/
  | fAnnounce (s : St) (pre : List Req) (r : Req) : s.fphase = .announce → s.sent = pre ++ [r] → s.queue.length < queueCap →
      Step s { s with queue := s.queue ++ [r], announced := s.announced ++ [r], fphase := .write }
  /-- `case <-respDone` -/
  | fSkip (s : St) : s.fphase = .announce → s.respDone = true → Step s { s with fphase := .write }
  /-- `req.Write` + `Flush` succeed -/
  | fWrite (s : St) (pre : List Req) (r : Req) : s.fphase = .write → s.sent = pre ++ [r] →
      Step s { s with originIn := s.originIn ++ [r], fphase := .read }
  /-- `req.Write` fails (the origin went away, the client stopped in the middle of the body) -/
  | fWriteErr (s : St) : s.fphase = .write → Step s { s with fphase := .done, chClosed := true }
  /-- `http.ReadRequest` returns a request for the fixed host that is not CONNECT -/
  | fReadOk (s : St) (m : ClientMsg) (rest : List ClientMsg) (r : Req) : s.fphase = .read → s.clientIn = m :: rest →
      accepts s.fixedHost m = some r → Step s { s with clientIn := rest, sent := s.sent ++ [r], fphase := .announce }
  /-- EOF, a malformed request, CONNECT or another host: the forwarder returns -/
  | fReadEnd (s : St) : s.fphase = .read → (s.clientIn = [] ∨ ∃ m rest, s.clientIn = m :: rest ∧ accepts s.fixedHost m = none) →
      Step s { s with fphase := .done, chClosed := true }
  /-- the origin produces a response (at any time, solicited or not) -/
  | origin (s : St) (p : Resp) : Step s { s with originOut := s.originOut ++ [p] }
  /-- `Peek(1)` sees a byte -/
  | rPeek (s : St) : s.rphase = .peek → s.originOut ≠ [] → Step s { s with rphase := .take }
  /-- `Peek(1)` sees EOF / an error -/
  | rPeekEnd (s : St) : s.rphase = .peek → Step s { s with rphase := .done, respDone := true }
  /-- `req, ok := <-reqCh` -/
  | rTake (s : St) (r : Req) (rest : List Req) : s.rphase = .take → s.queue = r :: rest →
      Step s { s with queue := rest, taken := s.taken ++ [r], rcur := some r, rphase := .read }
  | rTakeClosed (s : St) : s.rphase = .take → s.queue = [] → s.chClosed = true → Step s { s with rphase := .done, respDone := true }
  /-- ReadResponse + filter + Write + Flush, then the close / final tests -/
  | rRead (s : St) (p : Resp) (rest : List Resp) (q : Req) : s.rphase = .read → s.rcur = some q → s.originOut = p :: rest →
      Step s { s with originOut := rest, clientOut := s.clientOut ++ [((filterResp p q).1, q, s.taken.length - 1)],
                      rcur := if isFinal p.status then none else some q,
                      rphase := if (filterResp p q).2 then .done else if isFinal p.status then .peek else .read,
                      respDone := (filterResp p q).2 }
  /-- ReadResponse / Write fails -/
  | rErr (s : St) : s.rphase = .read → Step s { s with rphase := .done, respDone := true }

inductive Reachable (first : Req) (rest : List ClientMsg) : St → Prop
  | init : Reachable first rest (St.init first rest)
  | step {s t : St} : Reachable first rest s → Step s t → Reachable first rest t

/-! ### the deterministic reading used by the correspondence check -/

/-- the requests that reach the origin if no side ends the connection early, in order -/
def forwardList (fixedHost : Str) : List ClientMsg → List Req
  | [] => []
  | m :: rest => match accepts fixedHost m with
    | some r => r :: forwardList fixedHost rest
    | none => []

/-- serverForwardResponses on the stream of responses of the origin, given the requests announced:
    the responses written to the client with their pairing -/
def respond : List Req → List Resp → List (Resp × Req)
  | [], _ => []
  | _, [] => []
  | q :: qs, p :: ps =>
    let (p', close) := filterResp p q
    if close then [(p', q)]
    else if isFinal p.status then (p', q) :: respond qs ps
    else (p', q) :: respond (q :: qs) ps
termination_by _ ps => ps.length

end SSV.HttpProxy
