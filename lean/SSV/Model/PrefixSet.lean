import SSV.Model.DomainSet
/-
Model of prefixset/prefixset.go text I/O over an abstract prefix type `P`:
`parse` is `netip.ParsePrefix` followed by the normalisation of `bart.Lite.Insert`, `print` is `netip.Prefix.AppendTo`.
The set itself (bart.Lite) is a list of prefixes; membership is tied by Corr only.
-/
namespace SSV.PrefixSet
open SSV.DomainSet

/-- the lines `PrefixSetFromText` hands to `netip.ParsePrefix`: non-empty lines (`bytestrings.NonEmptyLines`) not starting with '#' -/
def prefixLines (text : Str) : List Str := (nonEmptyLines text).filter (fun l => l.head? != some hash)

/-- `PrefixSetFromText`: `none` = the first parse error -/
def prefixSetFromText {P : Type} (parse : Str → Option P) (text : Str) : Option (List P) :=
  (prefixLines text).mapM parse

/-- `PrefixSetToText` / `PrefixSetWriteText` -/
def prefixSetToText {P : Type} (print : P → Str) (ps : List P) : Str :=
  ps.flatMap (fun p => print p ++ [LF])

end SSV.PrefixSet
