import SSV.Base.Util
import SSV.Gen.C13
/-
Model of service/tcp.go `(*TCPRelay).handleConn` and netio/stream.go `BidirectionalCopy`.

`handleConn` is NOT written out by hand here: it is the interpretation (`exec`) of the step program that
`gen_c13` extracts from the current source (`SSV.Gen.C13.handleConnProgram`, `waitProgram`, `waitCond`,
`readContinues`, the Abort guards, the counter plumbing), so that a reordered call, a dropped guard or a
changed condition in the source changes the function the theorems are about.

Everything the environment decides is an explicit input (`Env`): what the server handshake returned, the router's
answer, whether Proceed / the deadline calls succeed, what the wait read returned (kind and byte count: this is where
kernel timing enters), the dial result, the bytes both peers will send, and the schedule of the two copy loops.
-/
namespace SSV.TcpRelay
open SSV.Gen.C13

/-- `conn.DialResultCode` -/
abbrev Code := Nat

/-- what `HandleStream` hands to the relay -/
structure Req where
  addr : String
  payload : Bytes
  user : String
deriving DecidableEq, Repr

inductive Action where
  | handshake
  | routed
  | proceed
  | abort (code : Code)
  | setDeadline
  | waitRead (buf : Nat)
  | clearDeadline
  | dial (addr : String) (payload : Bytes)
  | copied (toRight toLeft : Bytes)
  | closeWrite (s : Side)
  | blocked
  | collect (user : String) (down up : Nat)
  | closeRemote
  | closeClient
deriving DecidableEq, Repr

/-! ## The two copy loops -/

/-- label of one atomic step of a copy loop, named by the side the loop READS from -/
inductive Label where
  | chunk (s : Side) (k : Nat)   -- a Read of k bytes followed by the Write of those bytes
  | eof (s : Side)               -- Read returns EOF: io.Copy returns, CloseWrite is issued
  | fail (s : Side)              -- Read or Write fails: io.Copy returns, CloseWrite is issued
deriving DecidableEq, Repr

def Label.side : Label → Side
  | .chunk s _ => s
  | .eof s => s
  | .fail s => s

/-- static description of the loop that reads from `s` (the default is a loop onto itself, which no theorem accepts) -/
def loopOf (s : Side) : CopyLoop :=
  (copyLoops.find? (fun l => l.src == s)).getD { counter := .none, dst := s, src := s, closeOn := s }

structure CopySt where
  todoL : Bytes          -- what `left` will still deliver to a Read before EOF
  todoR : Bytes
  rxL : Bytes            -- bytes written to `left` by a copy loop
  rxR : Bytes
  cwL : Bool             -- CloseWrite issued on `left`
  cwR : Bool
  doneL : Bool           -- the loop reading from `left` has returned
  doneR : Bool
  failL : Bool           -- … with an error
  failR : Bool
  nL : Nat               -- io.Copy's count of the loop reading from `left`
  nR : Nat
deriving DecidableEq, Repr

def CopySt.init (fromLeft fromRight : Bytes) : CopySt :=
  { todoL := fromLeft, todoR := fromRight, rxL := [], rxR := [], cwL := false, cwR := false,
    doneL := false, doneR := false, failL := false, failR := false, nL := 0, nR := 0 }

def CopySt.todo (c : CopySt) : Side → Bytes
  | .left => c.todoL
  | .right => c.todoR
def CopySt.rx (c : CopySt) : Side → Bytes
  | .left => c.rxL
  | .right => c.rxR
def CopySt.cw (c : CopySt) : Side → Bool
  | .left => c.cwL
  | .right => c.cwR
def CopySt.done (c : CopySt) : Side → Bool
  | .left => c.doneL
  | .right => c.doneR
def CopySt.failed (c : CopySt) : Side → Bool
  | .left => c.failL
  | .right => c.failR
def CopySt.n (c : CopySt) : Side → Nat
  | .left => c.nL
  | .right => c.nR

def CopySt.deliver (c : CopySt) (dst : Side) (bs : Bytes) : CopySt :=
  match dst with
  | .left => { c with rxL := c.rxL ++ bs }
  | .right => { c with rxR := c.rxR ++ bs }

def CopySt.consume (c : CopySt) (src : Side) (k : Nat) : CopySt :=
  match src with
  | .left => { c with todoL := c.todoL.drop k, nL := c.nL + k }
  | .right => { c with todoR := c.todoR.drop k, nR := c.nR + k }

def CopySt.closeWrite (c : CopySt) : Side → CopySt
  | .left => { c with cwL := true }
  | .right => { c with cwR := true }

def CopySt.finish (c : CopySt) (src : Side) (failed : Bool) : CopySt :=
  match src with
  | .left => { c with doneL := true, failL := failed }
  | .right => { c with doneR := true, failR := failed }

/-- is the label enabled? -/
def enabled (c : CopySt) : Label → Bool
  | .chunk s k => !c.done s && Nat.blt 0 k && Nat.ble k (c.todo s).length
  | .eof s => !c.done s && (c.todo s).isEmpty
  | .fail s => !c.done s

/-- one step (a label that is not enabled leaves the state unchanged) -/
def stepCopy (c : CopySt) (l : Label) : CopySt :=
  if enabled c l then
    match l with
    | .chunk s k => (c.deliver (loopOf s).dst ((c.todo s).take k)).consume s k
    | .eof s => (c.finish s false).closeWrite (loopOf s).closeOn
    | .fail s => (c.finish s true).closeWrite (loopOf s).closeOn
  else c

def runSched (c : CopySt) (sched : List Label) : CopySt := sched.foldl stepCopy c

/-- value of a named counter once both loops have returned -/
def CopySt.counter (c : CopySt) (k : Counter) : Nat :=
  (if (loopOf .left).counter = k then c.nL else 0) + (if (loopOf .right).counter = k then c.nR else 0)

/-! ## handleConn -/

structure Env where
  serverNative : Bool            -- server.StreamServerInfo().NativeInitialPayload
  waitDisabled : Bool            -- TCPListenerConfig.DisableInitialPayloadWait
  bufSize : Nat                  -- lnc.initialPayloadWaitBufferSize
  req : Option Req               -- `none`: HandleStream returned an error (or handled the stream itself)
  routeErr : Option Code         -- `some c`: the router failed with dial result code c
  clientNative : Bool            -- clientInfo.NativeInitialPayload of the routed client
  proceedOk : Bool
  setDeadlineOk : Bool
  clientStream : Bytes           -- everything the client sends after its request (req.payload not included)
  waitKind : ReadKind            -- outcome of the wait read …
  waitN : Nat                    -- … and its byte count
  clearDeadlineOk : Bool
  dialErr : Option Code          -- `some c`: DialStream failed with dial result code c
  targetStream : Bytes           -- everything the remote side sends
  sched : List Label             -- interleaving of the two copy loops
deriving Repr

/-- the two copy loops on what is left of the client's stream after `consumed` bytes were read by the handler itself -/
def copyRun (e : Env) (consumed : Nat) : CopySt :=
  runSched (CopySt.init (e.clientStream.drop consumed) e.targetStream) e.sched

/-- evaluation of a condition atom -/
def evalAtom (e : Env) (payload : Bytes) (listenerWait : Bool) : Atom → Bool
  | .payloadEmpty => payload.isEmpty
  | .payloadNonEmpty => !payload.isEmpty
  | .clientNative => e.clientNative
  | .clientNotNative => !e.clientNative
  | .listenerWait => listenerWait
  | .listenerNoWait => !listenerWait
  | .serverNotNative => !e.serverNative
  | .serverNative => e.serverNative
  | .waitNotDisabled => !e.waitDisabled
  | .waitDisabled => e.waitDisabled

/-- `tcpRelayListener.waitForInitialPayload` as computed by `Configure` -/
def listenerWait (e : Env) : Bool := listenerWaitCond.all (evalAtom e [] false)

structure St where
  req : Req
  proceeded : Bool := false       -- clientConn != nil
  remoteOpen : Bool := false
  consumed : Nat := 0             -- bytes of clientStream read by handleConn itself
  readN : Nat := 0                -- payloadLength
  nl2r : Nat := 0
  nr2l : Nat := 0
  returned : Bool := false
  hung : Bool := false            -- BidirectionalCopy has not returned under this schedule
  copyErr : Bool := false         -- BidirectionalCopy returned a non-nil error (errors.Join of the two loops' errors)
  trace : List Action := []
deriving Repr

def St.emit (s : St) (a : Action) : St := { s with trace := s.trace ++ [a] }
def St.ret (s : St) : St := { s with returned := true }

def abortIf (g : AbortGuard) (s : St) (code : Code) : St :=
  match g with
  | .never => s
  | .always => s.emit (.abort code)
  | .pendingOnly => if s.proceeded then s else s.emit (.abort code)

/-- the number of bytes the wait read hands over: bounded by the buffer and by what the client sent -/
def waitBytes (e : Env) : Nat := min e.waitN (min e.bufSize e.clientStream.length)

def execW (e : Env) (s : St) : WStep → St
  | .proceed =>
    let s := s.emit .proceed
    if e.proceedOk then { s with proceeded := true } else s.ret
  | .allocBuf => { s with req := { s.req with payload := List.replicate e.bufSize 0 } }
  | .setDeadline =>
    let s := s.emit .setDeadline
    if e.setDeadlineOk then s else s.ret
  | .read =>
    let n := waitBytes e
    -- the bytes land in the buffer; the rest of the buffer stays zero
    { (s.emit (.waitRead s.req.payload.length)) with
      readN := n, consumed := s.consumed + n,
      req := { s.req with payload := ((e.clientStream.drop s.consumed).take n) ++ s.req.payload.drop n } }
  | .classify => if readContinues.contains e.waitKind then s else s.ret
  | .truncate => { s with req := { s.req with payload := s.req.payload.take s.readN } }
  | .clearDeadline =>
    let s := s.emit .clearDeadline
    if e.clearDeadlineOk then s else s.ret

def runW (e : Env) : List WStep → St → St
  | [], s => s
  | w :: ws, s => if s.returned then s else runW e ws (execW e s w)

def setCounter (s : St) (k : Counter) (f : Nat → Nat) : St :=
  match k with
  | .nl2r => { s with nl2r := f s.nl2r }
  | .nr2l => { s with nr2l := f s.nr2l }
  | .none => s

def getCounter (s : St) : Counter → Nat
  | .nl2r => s.nl2r
  | .nr2l => s.nr2l
  | .none => 0

def execStep (e : Env) (s : St) : Step → St
  | .deferCloseClient => s
  | .handleStream => s.emit .handshake     -- (a failed handshake is handled in `handleConn`)
  | .route =>
    match e.routeErr with
    | some c => (abortIf routeAbort s c).ret
    | none => s.emit .routed
  | .newDialer => s
  | .waitBlock =>
    if waitCond.all (evalAtom e s.req.payload (listenerWait e)) then runW e waitProgram s else s
  | .dial =>
    let s := s.emit (.dial s.req.addr s.req.payload)
    match e.dialErr with
    | some c => (abortIf dialAbort s c).ret
    | none => { s with remoteOpen := true }
  | .deferCloseRemote => s
  | .proceedIfPending =>
    if s.proceeded then s else
      let s := s.emit .proceed
      if e.proceedOk then { s with proceeded := true } else s.ret
  | .proceedAlways =>
    let s := s.emit .proceed
    if e.proceedOk then { s with proceeded := true } else s.ret
  | .copy =>
    -- BidirectionalCopy(clientConn = left, remoteConn = right)
    let c := copyRun e s.consumed
    let acts : List Action := [.copied c.rxR c.rxL] ++ (if c.cwR then [.closeWrite .right] else []) ++
      (if c.cwL then [.closeWrite .left] else [])
    if c.doneL && c.doneR then
      { s with nl2r := c.counter .nl2r, nr2l := c.counter .nr2l, copyErr := c.failL || c.failR, trace := s.trace ++ acts }
    else { s with returned := true, hung := true, trace := s.trace ++ acts ++ [.blocked] }
  | .addPayloadLen => setCounter s payloadAddedTo (· + s.req.payload.length)
  | .collect => s.emit (.collect s.req.user (getCounter s collectDown) (getCounter s collectUp))
  | .returnIfCopyErr => if s.copyErr then s.ret else s    -- `if err != nil { log; return }` after the copy

def runSteps (e : Env) : List Step → St → St
  | [], s => s
  | p :: ps, s => if s.returned then s else runSteps e ps (execStep e s p)

/-- the deferred closes (remote first: it was deferred last); a handler blocked in the copy has not run them -/
def finish (s : St) : List Action :=
  if s.hung then s.trace
  else s.trace ++ (if s.remoteOpen then [.closeRemote] else []) ++ [.closeClient]

/-- the whole handler: the action list of one accepted connection -/
def handleConn (e : Env) : List Action :=
  match e.req with
  | none => [.handshake, .closeClient]
  | some r => finish (runSteps e handleConnProgram { req := r })

/-- final interpreter state (for the theorems that speak about more than the trace) -/
def finalSt (e : Env) (r : Req) : St := runSteps e handleConnProgram { req := r }


/-! ## Observables of an action list -/

def otherSide : Side → Side
  | .left => .right
  | .right => .left

/-- the part of the copy state owned by the loop that reads from `s`: its input, its flags, its counter, and what it
has written / closed on the other side -/
def loopView (c : CopySt) : Side → (Bytes × Bool × Bool × Nat × Bytes × Bool)
  | .left => (c.todoL, c.doneL, c.failL, c.nL, c.rxR, c.cwR)
  | .right => (c.todoR, c.doneR, c.failR, c.nR, c.rxL, c.cwL)

/-- bytes handed to the remote side: DialStream's payload, then what the copy wrote -/
def targetReceived : List Action → Bytes
  | [] => []
  | .dial _ p :: t => p ++ targetReceived t
  | .copied r _ :: t => r ++ targetReceived t
  | _ :: t => targetReceived t

/-- bytes written to the client by the copy -/
def clientReceived : List Action → Bytes
  | [] => []
  | .copied _ l :: t => l ++ clientReceived t
  | _ :: t => clientReceived t

def dialCount : List Action → Nat
  | [] => 0
  | .dial _ _ :: t => dialCount t + 1
  | _ :: t => dialCount t

/-- the wait decision in closed form -/
def waits (e : Env) (r : Req) : Bool :=
  r.payload.isEmpty && e.clientNative && (!e.serverNative && !e.waitDisabled)

/-! ## Rendering for the line protocol -/

def sideName : Side → String
  | .left => "left"
  | .right => "right"

def Action.render : Action → String
  | .handshake => "handshake"
  | .routed => "routed"
  | .proceed => "proceed"
  | .abort c => s!"abort:{c}"
  | .setDeadline => "setdl"
  | .waitRead b => s!"waitread:{b}"
  | .clearDeadline => "cleardl"
  | .dial a p => s!"dial:{a}:{toHexField p}"
  | .copied r l => s!"copied:{toHexField r}:{toHexField l}"
  | .closeWrite s => s!"cw:{sideName s}"
  | .blocked => "blocked"
  | .collect u d up => s!"collect:{if u.isEmpty then "-" else u}:{d}:{up}"
  | .closeRemote => "closeremote"
  | .closeClient => "closeclient"

def renderTrace (t : List Action) : String := " ".intercalate (t.map Action.render)

end SSV.TcpRelay
