import SSV.Gen.C10
import SSV.Base.Split
/-
Model of portset/portset.go and portset/range.go.

A `PortSet` is the code's `[65536/blockBits]uint`: a list of `numBlocks` words, each below `2^64`
(`Words`). Every function below mirrors the word-level algorithm of the Go code (masks, shifts,
`bits.TrailingZeros`, the run scanning of `RangeCount`/`RangeSet`, the binary search of
`PortRangeSet.Contains`), with `uint`/`uint16` wrap-around written out (`usub`, `u16`).
The abstract view used by the theorems is `bitAt ws p` (SSV/Proofs/PortSet*.lean relate the two).
-/
namespace SSV.PortSet

abbrev Str := List UInt8

/-- `bits.UintSize` on the platform the harness runs on (regenerated). -/
abbrev blockBits : Nat := SSV.Gen.C10.portsetBlockBits
/-- `len(PortSet.blocks)` (regenerated). -/
abbrev numBlocks : Nat := SSV.Gen.C10.portsetBlocks

def W : Nat := 2 ^ 64
def allOnes : Nat := 2 ^ 64 - 1

/-- `uint` subtraction (wraps). -/
def usub (x y : Nat) : Nat := (x + W - y % W) % W
/-- conversion to `uint16`. -/
def u16 (x : Nat) : Nat := x % 65536
/-- `x << k` on `uint`. -/
def shl64 (x k : Nat) : Nat := (x <<< k) % W
/-- `^x` on `uint`. -/
def not64 (x : Nat) : Nat := allOnes - x % W

/-- `bits.TrailingZeros(x)` for a 64-bit word is `trailingZeros 64 x` (64 for `x = 0`). -/
def trailingZeros : Nat → Nat → Nat
  | 0, _ => 0
  | f + 1, x => if x % 2 = 1 then 0 else 1 + trailingZeros f (x / 2)

/-- `bits.OnesCount(x)` for a 64-bit word is `onesCount 64 x`. -/
def onesCount : Nat → Nat → Nat
  | 0, _ => 0
  | f + 1, x => x % 2 + onesCount f (x / 2)

abbrev Words := List Nat

/-- the zero value `var portSet portset.PortSet` -/
def empty : Words := List.replicate numBlocks 0

def word (ws : Words) (i : Nat) : Nat := ws.getD i 0

def blockIndex (p : Nat) : Nat := p / blockBits
def bitIndex (p : Nat) : Nat := p % blockBits

/-- the test of `Contains` without the zero-port panic: `blocks[blockIndex(p)] & (1 << bitIndex(p)) != 0` -/
def bitAt (ws : Words) (p : Nat) : Bool :=
  (word ws (blockIndex p) &&& shl64 1 (bitIndex p)) != 0

/-- `Contains(port)`: `none` is the `panic(ErrZeroPort)`. `port < 65536`. -/
def contains (ws : Words) (p : Nat) : Option Bool :=
  if p = 0 then none else some (bitAt ws p)

/-- `add(port)` (unexported; `0 < port < 65536` at every call site) -/
def add (ws : Words) (p : Nat) : Words :=
  ws.set (blockIndex p) (word ws (blockIndex p) ||| shl64 1 (bitIndex p))

/-- `Add(port)`: `none` is the panic on port 0. -/
def addPort (ws : Words) (p : Nat) : Option Words :=
  if p = 0 then none else some (add ws p)

/-- `for i := lo; i < hi; i++ { blocks[i] = ^uint(0) }` -/
def fillOnes (ws : Words) (lo : Nat) : Nat → Words
  | 0 => ws
  | n + 1 => fillOnes (ws.set lo allOnes) (lo + 1) n

/-- `addRange(fromInclusive, toExclusive)` -/
def addRange (ws : Words) (fromI toE : Nat) : Words :=
  let fromBlock := blockIndex fromI
  let fromBit := bitIndex fromI
  let toBlock := blockIndex toE
  let toBit := bitIndex toE
  let fromMask := shl64 allOnes fromBit
  let toMask := not64 (shl64 allOnes toBit)
  if fromBlock = toBlock then
    ws.set fromBlock (word ws fromBlock ||| (fromMask &&& toMask))
  else
    let ws1 := ws.set fromBlock (word ws fromBlock ||| fromMask)
    let ws2 := fillOnes ws1 (fromBlock + 1) (toBlock - (fromBlock + 1))
    if toBlock < ws2.length then ws2.set toBlock (word ws2 toBlock ||| toMask) else ws2

/-- `Count()` -/
def count (ws : Words) : Nat := ws.foldl (fun c w => c + onesCount 64 w) 0

/-- `First()` -/
def firstFrom : Nat → Words → Nat
  | _, [] => 0
  | i, w :: rest => if w = 0 then firstFrom (i + 1) rest else u16 (i * blockBits + trailingZeros 64 w)

def first (ws : Words) : Nat := firstFrom 0 ws

structure Range where
  lo : Nat
  hi : Nat
deriving Repr, DecidableEq, Inhabited

/-- scanning state of `RangeSet`: `inRange`, `from`, and the ranges found so far (most recent first) -/
structure Scan where
  inRange : Bool
  start : Nat
  acc : List Range
deriving Repr, DecidableEq

/-- the inner `for { ... }` of `RangeSet` for block `i`; `fuel` bounds the iterations (each consumes a bit). -/
def scanWord (i : Nat) : Nat → Scan → Nat → Nat → Scan
  | 0, st, _, _ => st
  | fuel + 1, st, block, rem =>
    let tz := trailingZeros 64 block
    let st1 : Scan :=
      if tz ≠ 0 ∧ st.inRange then
        { inRange := false, start := st.start,
          acc := ⟨st.start, u16 (usub (usub ((i + 1) * blockBits) rem) 1)⟩ :: st.acc }
      else st
    if tz ≠ 0 ∧ tz ≥ rem then st1
    else
      let block1 := if tz ≠ 0 then block >>> tz else block
      let rem1 := if tz ≠ 0 then rem - tz else rem
      let ones := trailingZeros 64 (not64 block1)
      let st2 : Scan :=
        if st1.inRange then st1
        else { st1 with inRange := true, start := u16 (usub ((i + 1) * blockBits) rem1) }
      if ones = rem1 then st2
      else scanWord i fuel st2 (block1 >>> ones) (rem1 - ones)

def scanBlocks : Nat → Scan → Words → Scan
  | _, st, [] => st
  | i, st, w :: rest => scanBlocks (i + 1) (scanWord i (blockBits + 1) st w blockBits) rest

/-- `RangeSet()` (ranges in ascending order) -/
def rangeSet (ws : Words) : List Range :=
  let st := scanBlocks 0 ⟨false, 0, []⟩ ws
  (if st.inRange then ⟨st.start, 65535⟩ :: st.acc else st.acc).reverse

/-- the inner loop of `RangeCount` (state: `inRange`, `count`) -/
def countWord : Nat → Bool × Nat → Nat → Nat → Bool × Nat
  | 0, st, _, _ => st
  | fuel + 1, st, block, rem =>
    let tz := trailingZeros 64 block
    let st1 : Bool × Nat := if tz ≠ 0 ∧ st.1 then (false, st.2) else st
    if tz ≠ 0 ∧ tz ≥ rem then st1
    else
      let block1 := if tz ≠ 0 then block >>> tz else block
      let rem1 := if tz ≠ 0 then rem - tz else rem
      let ones := trailingZeros 64 (not64 block1)
      let st2 : Bool × Nat := if st1.1 then st1 else (true, st1.2 + 1)
      if ones = rem1 then st2
      else countWord fuel st2 (block1 >>> ones) (rem1 - ones)

def countBlocks : Bool × Nat → Words → Bool × Nat
  | st, [] => st
  | st, w :: rest => countBlocks (countWord (blockBits + 1) st w blockBits) rest

/-- `RangeCount()` -/
def rangeCount (ws : Words) : Nat := (countBlocks (false, 0) ws).2

/-- `PortRange.Contains` -/
def Range.contains (r : Range) (p : Nat) : Bool := r.lo ≤ p && p ≤ r.hi

/-- the loop of `PortRangeSet.Contains`: binary search in `[i, j)`; `fuel` bounds the halvings. -/
def bsearch (rs : List Range) (p : Nat) : Nat → Nat → Nat → Bool
  | 0, _, _ => false
  | fuel + 1, i, j =>
    if i < j then
      let h := (i + j) / 2
      match rs[h]? with
      | none => false -- not reachable: i ≤ h < j ≤ len
      | some r =>
        if p > r.hi then bsearch rs p fuel (h + 1) j
        else if p < r.lo then bsearch rs p fuel i h
        else true
    else false

/-- `PortRangeSet.Contains(port)` -/
def rangesContain (rs : List Range) (p : Nat) : Bool := bsearch rs p (rs.length + 1) 0 rs.length

/-! ### `Parse` -/

/-- the pieces the loop of `Parse` visits: cut at commas; a trailing empty piece is never visited
(`for len(portSetString) > 0`). -/
def items (s : Str) : List Str :=
  let parts := splitOn 44 s
  if parts.getLast? = some [] then parts.dropLast else parts

def parseDigits : Nat → Str → Option Nat
  | n, [] => some n
  | n, c :: cs =>
    if 48 ≤ c.toNat ∧ c.toNat ≤ 57 then
      let n1 := n * 10 + (c.toNat - 48)
      if n1 > 65535 then none else parseDigits n1 cs
    else none

/-- `strconv.ParseUint(s, 10, 16)`: `none` = any error -/
def parseUint16 (s : Str) : Option Nat :=
  if s = [] then none else parseDigits 0 s

inductive Item where
  | port (p : Nat)
  | range (a b : Nat)   -- inclusive
deriving Repr, DecidableEq

/-- one comma-separated piece: `none` = the error return -/
def parseItem (s : Str) : Option Item :=
  match cutAt 45 s with
  | (_, none) =>
    match parseUint16 s with
    | none => none
    | some p => if p = 0 then none else some (.port p)
  | (a, some b) =>
    match parseUint16 a with
    | none => none
    | some f =>
      if f = 0 then none else
      match parseUint16 b with
      | none => none
      | some t => if f ≥ t then none else some (.range f t)

def applyItem (ws : Words) : Item → Words
  | .port p => add ws p
  | .range a b => addRange ws a (b + 1)

/-- the loop of `Parse`: pieces are applied until the first bad piece; the set keeps what was added before it. -/
def parseItems (ws : Words) : List Str → Words × Bool
  | [] => (ws, true)
  | s :: rest =>
    match parseItem s with
    | none => (ws, false)
    | some it => parseItems (applyItem ws it) rest

/-- `Parse(portSetString)`: the updated set and whether `nil` was returned -/
def parse (ws : Words) (s : Str) : Words × Bool := parseItems ws (items s)

/-- what the router does with `FromPorts`/`FromPortRanges` (route.go): `Add` each port (0 is refused before), then `Parse`. -/
def build (ports : List Nat) (s : Str) : Words × Bool :=
  if ports.any (· = 0) then (empty, false)
  else parse (ports.foldl add empty) s

/-- the representation the router picks (route.go `switch portCount`) -/
inductive Repr where
  | unreachable | single (p : Nat) | pointless | ranges (rs : List Range) | bits (ws : Words)

def choose (ws : Words) : Repr :=
  let c := count ws
  if c = 0 then .unreachable
  else if c = 1 then .single (first ws)
  else if c = 65535 then .pointless
  else if rangeCount ws ≤ SSV.Gen.C10.routerMaxPortRanges then .ranges (rangeSet ws)
  else .bits ws

/-- `Meet` of the chosen criterion on a port (`none`: not a criterion / panic) -/
def Repr.meet : Repr → Nat → Option Bool
  | .single q, p => some (p == q)
  | .ranges rs, p => some (rangesContain rs p)
  | .bits ws, p => contains ws p
  | _, _ => none

end SSV.PortSet
