import SSV.Model.Pipe
/-
C15 — the shape of netio/pipe.go that the model `SSV.Model.Pipe` mirrors, written as the source texts the
translator (`gen_c15`) is expected to extract.  `SSV/Props/C15.lean` proves `Gen = expected` by `decide`;
a select that loses / gains an alternative, a reordered `Store; close`, a dropped lock, a changed wiring,
a re-armed deadline that no longer re-makes its channel … re-open that obligation.
-/
namespace SSV.Pipe.Shape

def Alt.readSrc : Alt → String
  | .data => "<-p.rdRx"
  | .done => "<-p.localDone"
  | .deadline => "<-p.readDeadline.wait()"

def Alt.writeSrc : Alt → String
  | .data => "p.wrTx <- b"
  | .done => "<-p.remoteDone"
  | .deadline => "<-p.writeDeadline.wait()"

/-- the pre-check switch tests `done` first, then the deadline (model: `rChk1`/`rChk2`, `wChk1`/`wChk2`) -/
def readPrecheck : List String := ["isClosedChan(p.localDone)", "isClosedChan(p.readDeadline.wait())"]
def writePrecheck : List String := ["isClosedChan(p.remoteDone)", "isClosedChan(p.writeDeadline.wait())"]
def readPrecheckRet : List String := ["return 0, p.readError.Load()", "return 0, os.ErrDeadlineExceeded"]
def writeToPrecheckRet : List String := ["return n, p.writeToReadCloseError()", "return n, os.ErrDeadlineExceeded"]
def writePrecheckRet : List String := ["return 0, p.writeCloseError()", "return 0, os.ErrDeadlineExceeded"]

/-- clause bodies: data clause = copy ; count-back send ; return   (model: `data` then `count`) -/
def readSelectBodies : List (List String) :=
  [["nr := copy(b, bw)", "p.rdTx <- nr", "return nr, nil"], ["return 0, p.readError.Load()"], ["return 0, os.ErrDeadlineExceeded"]]
def writeToSelectBodies : List (List String) :=
  [["nw, err := w.Write(bw)", "n += int64(nw)", "p.rdTx <- nw", "if err != nil { return n, err }"],
   ["return n, p.writeToReadCloseError()"], ["return n, os.ErrDeadlineExceeded"]]
def writeSelectBodies : List (List String) :=
  [["nw := <-p.wrRx", "b = b[nw:]", "n += nw"], ["return n, p.writeCloseError()"], ["return n, os.ErrDeadlineExceeded"]]

def writePrologue : List String := ["p.wrMu.Lock()", "defer p.wrMu.Unlock()"]
def writeEpilogue : List String := ["return n, nil"]
def writeLoop : List String := ["once := true", "once || len(b) > 0", "once = false"]
def writeToLoop : List String := ["", "", ""]

/-- model: `cStore e` then `cClose` -/
def closeReadSteps : List String := ["if err == nil { err = io.ErrClosedPipe }", "p.readError.Store(err)", "p.closeLocalDone()"]
def closeWriteSteps : List String := ["if err == nil { err = io.EOF }", "p.writeError.Store(err)", "p.closeRemoteDone()"]
def closeWithErrorSteps : List String := ["p.CloseReadWithError(err)", "p.CloseWriteWithError(err)"]
def closeReadBody : List String := ["p.CloseReadWithError(nil)", "return nil"]
def closeWriteBody : List String := ["p.CloseWriteWithError(nil)", "return nil"]
def closeBody : List String := ["p.CloseWithError(nil)", "return nil"]

/-- model: `dChk w k` then `dSet w k` -/
def setReadDeadlineSteps : List String :=
  ["if isClosedChan(p.localDone) && p.readError.Load() == io.ErrClosedPipe { return io.ErrClosedPipe }", "p.readDeadline.set(t)", "return nil"]
def setWriteDeadlineSteps : List String :=
  ["if isClosedChan(p.remoteDone) && p.writeError.Load() == io.EOF { return io.ErrClosedPipe }", "p.writeDeadline.set(t)", "return nil"]
def setDeadlineSteps : List String :=
  ["rerr := p.SetReadDeadline(t)", "werr := p.SetWriteDeadline(t)", "if rerr != nil { return rerr }", "return werr"]

def writeCloseErrorBody : List String := ["if werr := p.writeError.Load(); werr != io.EOF { return werr }", "return io.ErrClosedPipe"]
def writeToReadCloseErrorBody : List String := ["if rerr := p.readError.Load(); rerr != io.EOF { return rerr }", "return nil"]
def readWrapper : List String :=
  ["n, err := p.read(b)", "if err != nil && err != io.EOF && err != io.ErrClosedPipe { err = &net.OpError{Op: \"read\", Net: \"pipe\", Err: err} }", "return n, err"]
def writeWrapper : List String :=
  ["n, err := p.write(b)", "if err != nil && err != io.ErrClosedPipe { err = &net.OpError{Op: \"write\", Net: \"pipe\", Err: err} }", "return n, err"]
def writeToWrapper : List String :=
  ["n, err := p.writeTo(w)", "if err != nil && err != io.ErrClosedPipe { err = &net.OpError{Op: \"writeto\", Net: \"pipe\", Err: err} }", "return n, err"]
def onceStoreBody : List String := ["_ = a.err.CompareAndSwap(nil, &err)"]
def onceLoadBody : List String := ["return *a.err.Load()"]
def isClosedChanBody : List String := ["select { case <-c: return true default: return false }"]
def deadlineWaitBody : List String := ["d.mu.Lock()", "defer d.mu.Unlock()", "return d.cancel"]
/-- model: `DL.set` -/
def deadlineSetBody : List String :=
  ["d.mu.Lock()", "defer d.mu.Unlock()", "if d.timer != nil && !d.timer.Stop() { <-d.cancel }", "d.timer = nil",
   "closed := isClosedChan(d.cancel)", "if t.IsZero() { if closed { d.cancel = make(chan struct{}) } return }",
   "if dur := time.Until(t); dur > 0 { if closed { d.cancel = make(chan struct{}) } d.timer = time.AfterFunc(dur, func() { close(d.cancel) }) return }",
   "if !closed { close(d.cancel) }"]
def makeDeadlineBody : List String := ["return pipeDeadline{cancel: make(chan struct{})}"]
/-- the data and count-back channels are never closed; all channels are unbuffered -/
def closeCalls : List String := ["close(d.cancel)", "close(d.cancel)", "close(done1)", "close(done2)"]
def makeChans : List String :=
  ["cancel=make(chan struct{})", "d.cancel=make(chan struct{})", "d.cancel=make(chan struct{})", "cb1=make(chan []byte)",
   "cb2=make(chan []byte)", "cn1=make(chan int)", "cn2=make(chan int)", "done1=make(chan struct{})", "done2=make(chan struct{})"]
/-- two directions sharing nothing: (cb1, cn1, done1, oe1) and (cb2, cn2, done2, oe2) -/
def pipeLeft : List String :=
  ["rdRx=cb1", "rdTx=cn1", "wrTx=cb2", "wrRx=cn2", "localDone=done1", "remoteDone=done2", "closeLocalDone=closeDone1",
   "closeRemoteDone=closeDone2", "readError=oe1", "writeError=oe2", "readDeadline=makePipeDeadline()", "writeDeadline=makePipeDeadline()"]
def pipeRight : List String :=
  ["rdRx=cb2", "rdTx=cn2", "wrTx=cb1", "wrRx=cn1", "localDone=done2", "remoteDone=done1", "closeLocalDone=closeDone2",
   "closeRemoteDone=closeDone1", "readError=oe2", "writeError=oe1", "readDeadline=makePipeDeadline()", "writeDeadline=makePipeDeadline()"]
def onceFuncs : List String :=
  ["closeDone1 := sync.OnceFunc(func() { close(done1) })", "closeDone2 := sync.OnceFunc(func() { close(done2) })"]

end SSV.Pipe.Shape
