import SSV.Base.Util
/-
C15 — model of ONE DIRECTION of `netio.NewPipe` (netio/pipe.go).

A pipe is two such directions that share no state (NewPipe wires cb1/cn1/done1/oe1 to one
direction and cb2/cn2/done2/oe2 to the other; `Close` = CloseRead of one ; CloseWrite of the other,
`SetDeadline` = SetReadDeadline ; SetWriteDeadline).  A direction consists of

  * the unbuffered data channel (`wrTx`/`rdRx`) and the unbuffered count-back channel (`rdTx`/`wrRx`):
    a channel operation is a JOINT step of ANY thread blocked sending with ANY thread blocked receiving
    (`data`, `count` below take both thread ids; nothing in the step relation pairs them up);
  * `done` (localDone of the reader end = remoteDone of the writer end), closed at most once (sync.OnceFunc);
  * `err : Option Err` — the `onceError` (`none` = nil pointer; `Store` is a CAS from nil; `Load` of nil panics);
  * `mu : Option Nat` — `wrMu` of the writer end (holder thread id);
  * `rdl`, `wdl` — the reader end's `readDeadline` and the writer end's `writeDeadline` (`pipeDeadline`):
    `gen` names the current `cancel` channel (re-made = `gen+1`), `closed` says whether it is closed, `armed`
    whether a timer is pending.  A `cancel` channel is only ever replaced when it is closed, hence the channel
    named `g` is closed iff `g < gen ∨ (g = gen ∧ closed)` (`DL.chanClosed`).
    The mutex-protected bodies of `pipeDeadline.set` / `wait` and the timer callback are atomic steps here.
  * threads: `thr : Nat → PC` (any number of threads; all but finitely many idle), each executing one call at
    a time: read / writeTo (reader end), write (writer end), CloseRead / CloseWrite, Set{Read,Write}Deadline.
    `select` = nondeterministic choice among the enabled alternatives listed in `readSelect`/`writeToSelect`/
    `writeSelect` (these lists are compared with the source's comm clauses by a Gen side condition).
  * ghost history: `wlog` (one entry `(buffer, count)` per write call in LOCK ORDER, count kept equal to the
    writer's local `n`), `rret` (concatenation of the chunks of the reads that completed their hand-shake, in
    completion order), `hs` (who is in the committed hand-shake; only written, never read by the steps).

Core Lean only.
-/
namespace SSV.Pipe

/-- value stored in the `onceError` -/
inductive Err where
  | eof | closedPipe | custom (k : Nat)
deriving DecidableEq, Repr

/-- error result of a call (`nil` = no error) -/
inductive RErr where
  | nil | eof | closedPipe | timeout | sink | custom (k : Nat)
deriving DecidableEq, Repr

def Err.toR : Err → RErr
  | .eof => .eof
  | .closedPipe => .closedPipe
  | .custom k => .custom k

/-- `writeToReadCloseError`: EOF is not an error for WriteTo -/
def writeToCloseErr (e : Err) : RErr := if e = .eof then .nil else e.toR
/-- `writeCloseError`: EOF (peer's CloseWrite… i.e. our own CloseWrite) shows as ErrClosedPipe -/
def writeCloseErr (e : Err) : RErr := if e = .eof then .closedPipe else e.toR

/-! ### pipeDeadline -/

structure DL where
  gen : Nat
  closed : Bool
  armed : Bool
deriving DecidableEq, Repr

inductive DKind where
  | zero | future | past
deriving DecidableEq, Repr

def DL.init : DL := { gen := 0, closed := false, armed := false }

/-- `(*pipeDeadline).set` (atomic: the body runs under `d.mu`; a fired timer has already closed `cancel`). -/
def DL.set (d : DL) : DKind → DL
  | .zero => if d.closed then { gen := d.gen + 1, closed := false, armed := false } else { d with armed := false }
  | .future => if d.closed then { gen := d.gen + 1, closed := false, armed := true } else { d with armed := true }
  | .past => { d with closed := true, armed := false }

/-- is the `cancel` channel that was current at generation `g` closed now? -/
def DL.chanClosed (d : DL) (g : Nat) : Bool := g < d.gen || (g == d.gen && d.closed)

/-! ### select shapes -/

inductive Alt where
  | data | done | deadline
deriving DecidableEq, Repr

def readSelect : List Alt := [.data, .done, .deadline]
def writeToSelect : List Alt := [.data, .done, .deadline]
def writeSelect : List Alt := [.data, .done, .deadline]

/-! ### threads -/

/-- the two receiving calls: `Read(b)` with `len b = cap`; `WriteTo(w)` where the i-th `w.Write(p)` accepts
`min plan[i] (len p)` bytes (past the plan: everything) and fails iff it was short or (`ff` and it is the last
planned one). Any `io.Writer` obeying `0 ≤ n ≤ len p` is such a plan on every finite run. -/
inductive RKind where
  | read (cap : Nat)
  | wt (plan : List Nat) (ff : Bool)
deriving DecidableEq, Repr

/-- what the receiving side does with a slice of `len` bytes: (bytes taken, stop with sink error, rest) -/
def RKind.consume : RKind → Nat → Nat × Bool × RKind
  | .read cap, len => (min cap len, false, .read cap)
  | .wt [] ff, len => (len, false, .wt [] ff)
  | .wt (c :: rest) ff, len => (min c len, (decide (min c len < len)) || (ff && rest.isEmpty), .wt rest ff)

def RKind.sel : RKind → List Alt
  | .read _ => readSelect
  | .wt _ _ => writeToSelect

/-- the error a receiving call returns when it sees `done` closed -/
def RKind.closeErr : RKind → Err → RErr
  | .read _, e => e.toR
  | .wt _ _, e => writeToCloseErr e

-- (PC is declared below; `RKind.after` follows it)
inductive PC where
  | idle
  -- read / writeTo  (acc = WriteTo's running total; 0 for Read)
  | rChk1 (k : RKind) (acc : Nat)            -- `case isClosedChan(p.localDone)`
  | rChk2 (k : RKind) (acc : Nat)            -- `case isClosedChan(p.readDeadline.wait())`
  | rEnter (k : RKind) (acc : Nat)           -- evaluating the select's channel operands
  | rSel (k : RKind) (acc : Nat) (g : Nat)   -- blocked in the select; `g` = cancel channel it waits on
  | rAck (k : RKind) (acc : Nat) (nr : Nat) (fail : Bool) (chunk : Bytes)  -- committed: `p.rdTx <- nr`
  | rRet (n : Nat) (e : RErr)
  -- write
  | wChk1 (b : Bytes)
  | wChk2 (b : Bytes)
  | wLock (b : Bytes)                        -- `p.wrMu.Lock()`
  | wEnter (b : Bytes) (n ci : Nat)          -- loop head (holds wrMu); `ci` = ghost index into `wlog`
  | wSel (b : Bytes) (n ci g : Nat)          -- blocked in the select offering `b`
  | wAwait (b : Bytes) (n ci : Nat)          -- committed: `nw := <-p.wrRx`
  | wRet (n : Nat) (e : RErr) (ci : Option Nat)
  -- Close{Read,Write}WithError
  | cStore (e : Err)                         -- `Store(err)`
  | cClose                                   -- `close{Local,Remote}Done()`
  -- Set{Read,Write}Deadline (`w` = write deadline)
  | dChk (w : Bool) (k : DKind)
  | dSet (w : Bool) (k : DKind)
  | uRet (e : RErr)
deriving DecidableEq, Repr

/-- where the receiving call continues after its count was taken: Read returns; WriteTo returns the sink's
error or goes round its loop -/
def RKind.after (k : RKind) (acc nr : Nat) (fail : Bool) : PC :=
  match k with
  | .read _ => .rRet nr .nil
  | .wt .. => if fail then .rRet (acc + nr) .sink else .rChk1 k (acc + nr)

/-- pcs at which a thread holds `wrMu` -/
def PC.holds : PC → Bool
  | .wEnter .. | .wSel .. | .wAwait .. => true
  | _ => false

structure State where
  thr : Nat → PC
  done : Bool
  err : Option Err
  mu : Option Nat
  rdl : DL
  wdl : DL
  panicked : Bool
  -- ghost
  hs : Option (Nat × Nat)
  wlog : List (Bytes × Nat)
  rret : Bytes

def init : State :=
  { thr := fun _ => .idle, done := false, err := none, mu := none, rdl := DL.init, wdl := DL.init,
    panicked := false, hs := none, wlog := [], rret := [] }

def State.setT (s : State) (i : Nat) (p : PC) : State :=
  { s with thr := fun k => if k = i then p else s.thr k }

def State.panic (s : State) : State := { s with panicked := true }

/-- ghost: set the count of `wlog[ci]` -/
def setCount : List (Bytes × Nat) → Nat → Nat → List (Bytes × Nat)
  | [], _, _ => []
  | (o, _) :: rest, 0, n => (o, n) :: rest
  | x :: rest, ci + 1, n => x :: setCount rest ci n

/-- the consumed prefixes of all writes, in lock order -/
def consumed (wlog : List (Bytes × Nat)) : Bytes :=
  (wlog.map (fun w => w.1.take w.2)).flatten

/-! ### calls -/

inductive Op where
  | read (cap : Nat)
  | writeTo (plan : List Nat) (ff : Bool)
  | write (b : Bytes)
  | closeRead (e : Option Nat)     -- CloseReadWithError(nil | custom)
  | closeWrite (e : Option Nat)    -- CloseWriteWithError(nil | custom)
  | setRD (k : DKind)
  | setWD (k : DKind)
deriving DecidableEq, Repr

def Op.entry : Op → PC
  | .read cap => .rChk1 (.read cap) 0
  | .writeTo plan ff => .rChk1 (.wt plan ff) 0
  | .write b => .wChk1 b
  | .closeRead none => .cStore .closedPipe
  | .closeRead (some k) => .cStore (.custom k)
  | .closeWrite none => .cStore .eof
  | .closeWrite (some k) => .cStore (.custom k)
  | .setRD k => .dChk false k
  | .setWD k => .dChk true k

/-- an idle thread starts a call -/
def start (s : State) (i : Nat) (op : Op) : Option State :=
  if s.thr i = .idle then some (s.setT i op.entry) else none

/-- a returned call is collected; the thread is idle again -/
def finish (s : State) (i : Nat) : Option State :=
  match s.thr i with
  | .rRet .. | .wRet .. | .uRet .. => some (s.setT i .idle)
  | _ => none

/-- timer callback `close(d.cancel)` (closing a closed channel panics) -/
def fire (s : State) (w : Bool) : Option State :=
  let d := if w then s.wdl else s.rdl
  if d.armed then
    if d.closed then some s.panic
    else
      let d' : DL := { d with closed := true, armed := false }
      some (if w then { s with wdl := d' } else { s with rdl := d' })
  else none

/-- `x.Load()` after `done` was seen closed: dereferences the stored pointer -/
def withErr (s : State) (f : Err → State) : State :=
  match s.err with
  | some e => f e
  | none => s.panic

/-- the thread-local alternatives of a select with comm clauses `alts`: the `done` clause leads to `d`, the
deadline clause to `t` (`none` = that channel is not closed); the data clause is a joint step (`data`). -/
def selSteps (alts : List Alt) (d t : Option State) : List State :=
  alts.filterMap fun a => match a with
    | .data => none
    | .done => d
    | .deadline => t

/-- steps of thread `i` alone (the list = the enabled alternatives) -/
def localSteps (s : State) (i : Nat) : List State :=
  match s.thr i with
  | .rChk1 k acc =>
      if s.done then [withErr s fun e => s.setT i (.rRet acc (k.closeErr e))] else [s.setT i (.rChk2 k acc)]
  | .rChk2 k acc =>
      if s.rdl.closed then [s.setT i (.rRet acc .timeout)] else [s.setT i (.rEnter k acc)]
  | .rEnter k acc => [s.setT i (.rSel k acc s.rdl.gen)]
  | .rSel k acc g =>
      selSteps k.sel
        (if s.done then some (withErr s fun e => s.setT i (.rRet acc (k.closeErr e))) else none)
        (if s.rdl.chanClosed g then some (s.setT i (.rRet acc .timeout)) else none)
  | .wChk1 b =>
      if s.done then [withErr s fun e => s.setT i (.wRet 0 (writeCloseErr e) none)] else [s.setT i (.wChk2 b)]
  | .wChk2 b =>
      if s.wdl.closed then [s.setT i (.wRet 0 .timeout none)] else [s.setT i (.wLock b)]
  | .wLock b =>
      if s.mu = none then
        [{ s with mu := some i, wlog := s.wlog ++ [(b, 0)] }.setT i (.wEnter b 0 s.wlog.length)]
      else []
  | .wEnter b n ci => [s.setT i (.wSel b n ci s.wdl.gen)]
  | .wSel _ n ci g =>
      selSteps writeSelect
        (if s.done then
          some (withErr s fun e => { s with mu := none }.setT i (.wRet n (writeCloseErr e) (some ci)))
         else none)
        (if s.wdl.chanClosed g then some ({ s with mu := none }.setT i (.wRet n .timeout (some ci))) else none)
  | .cStore e => [{ s with err := s.err.orElse fun _ => some e }.setT i .cClose]
  | .cClose => [{ s with done := true }.setT i (.uRet .nil)]
  | .dChk w k =>
      if s.done then
        [withErr s fun e =>
          if e = (if w then Err.eof else Err.closedPipe) then s.setT i (.uRet .closedPipe) else s.setT i (.dSet w k)]
      else [s.setT i (.dSet w k)]
  | .dSet w k =>
      [(if w then { s with wdl := s.wdl.set k } else { s with rdl := s.rdl.set k }).setT i (.uRet .nil)]
  | _ => []

/-- data channel: thread `i` (in a read/writeTo select) receives what thread `j` (in the write select) sends -/
def data (s : State) (i j : Nat) : Option State :=
  match s.thr i, s.thr j with
  | .rSel k acc _, .wSel b n ci _ =>
      if Alt.data ∈ k.sel ∧ Alt.data ∈ writeSelect then
        let r := k.consume b.length
        some (({ s with hs := some (i, j) }.setT i (.rAck r.2.2 acc r.1 r.2.1 (b.take r.1))).setT j (.wAwait b n ci))
      else none
  | _, _ => none

/-- count-back channel: thread `i` sends its count, thread `j` receives it (`b = b[nw:]; n += nw`, loop test,
deferred Unlock on exit; the reader returns or, for WriteTo, goes round its loop). -/
def count (s : State) (i j : Nat) : Option State :=
  match s.thr i, s.thr j with
  | .rAck k acc nr fail chunk, .wAwait b n ci =>
      if nr > b.length then some s.panic
      else
        let rpc : PC := k.after acc nr fail
        let s1 : State := { s with hs := none, rret := s.rret ++ chunk, wlog := setCount s.wlog ci (n + nr) }
        let s2 : State :=
          if (b.drop nr).length > 0 then s1.setT j (.wEnter (b.drop nr) (n + nr) ci)
          else { s1 with mu := none }.setT j (.wRet (n + nr) .nil (some ci))
        some (s2.setT i rpc)
  | _, _ => none

/-- one step of the direction -/
inductive Step (s : State) : State → Prop where
  | start (i : Nat) (op : Op) {s'} : start s i op = some s' → Step s s'
  | finish (i : Nat) {s'} : finish s i = some s' → Step s s'
  | fire (w : Bool) {s'} : fire s w = some s' → Step s s'
  | loc (i : Nat) {s'} : s' ∈ localSteps s i → Step s s'
  | data (i j : Nat) {s'} : data s i j = some s' → Step s s'
  | count (i j : Nat) {s'} : count s i j = some s' → Step s s'

inductive Reachable : State → Prop where
  | init : Reachable init
  | step {s s'} : Reachable s → Step s s' → Reachable s'

/-- all internal successors (no new calls, no timer) among threads `< n`: what the driver explores -/
def succs (n : Nat) (s : State) : List State :=
  (List.range n).flatMap (fun i => localSteps s i)
  ++ (List.range n).flatMap (fun i => (List.range n).filterMap (fun j => data s i j))
  ++ (List.range n).flatMap (fun i => (List.range n).filterMap (fun j => count s i j))

end SSV.Pipe
