import SSV.Model.Handshake
/-
Model of the HTTP CONNECT handshake of httpproxy (server.go ServerHandle / serverHandleBasicAuth /
serverConnectPendingConn, client.go ClientConnect / readBufferedNetioConn, stream.go NewProxyServer /
NewProxyClient) and of conn.Addr.String / conn.ParseAddr.

Level: a request/response head is a sequence of lines read through a `bufio.Reader` (default size 4096,
one transport `Read` per fill, so the reader may hold bytes past the head: the read-ahead). net/http's head
parser is a trusted library; the model covers the grammar
   request-line  = METHOD SP target SP ("HTTP/1.1" | "HTTP/1.0")       METHOD = 1*UPALPHA
   status-line   = ("HTTP/1.1" | "HTTP/1.0") SP 3DIGIT [SP reason]
   header-line   = 1*(ALPHA | DIGIT | "-") ":" *(VCHAR | SP | HTAB)
and answers `Err.oom` for anything else (such inputs are run against the code and judged by the oracle
only). Lines may end in CRLF or LF.
-/
namespace SSV.HS
open SSV
open SSV.Gen

def bufSize : Nat := 4096
def LF : UInt8 := 10
def CR : UInt8 := 13
def SP : UInt8 := 32
def COLON : UInt8 := 58

/-! ### bufio line reader -/

/-- split at the first `\n` -/
def splitNl : Bytes → Option (Bytes × Bytes)
  | [] => none
  | x :: xs =>
    if x = LF then some ([], xs)
    else match splitNl xs with
      | some (l, r) => some (x :: l, r)
      | none => none

/-- `bufio.Reader.ReadSlice('\n')` as driven by textproto: returns (line without `\n`, unread buffered
bytes, remaining transport). Each fill is ONE transport read of at most `bufSize - buffered` bytes. -/
def readLineC : Bytes → Chunks → Except Err (Bytes × Bytes × Chunks)
  | buf, [] =>
    match splitNl buf with
    | some (l, r) => .ok (l, r, [])
    | none => .error .httpRead
  | buf, c :: cs =>
    match splitNl buf with
    | some (l, r) => .ok (l, r, c :: cs)
    | none =>
      if bufSize ≤ buf.length then .error .oom
      else
        let k := bufSize - buf.length
        if c.length ≤ k then readLineC (buf ++ c) cs
        else match splitNl (buf ++ c.take k) with
          | some (l, r) => .ok (l, r, c.drop k :: cs)
          | none => .error .oom

def stripCR (l : Bytes) : Bytes :=
  if l.getLast? = some CR then l.dropLast else l

/-- the lines of a head: up to and excluding the first empty line -/
def readLinesC : Nat → Bytes → Chunks → Except Err (List Bytes × Bytes × Chunks)
  | 0, _, _ => .error .oom
  | fuel + 1, buf, cs =>
    match readLineC buf cs with
    | .error e => .error e
    | .ok (l, buf', cs') =>
      let l := stripCR l
      if l.isEmpty then .ok ([], buf', cs')
      else match readLinesC fuel buf' cs' with
        | .error e => .error e
        | .ok (ls, b, c) => .ok (l :: ls, b, c)

def readHeadM : M (List Bytes) := fun s =>
  match readLinesC (s.buf.length + s.inp.flatten.length + 1) s.buf s.inp with
  | .ok (ls, b, c) => (.ok ls, { s with buf := b, inp := c })
  | .error e => (.error e, { s with buf := [], inp := [] })

/-! ### characters -/

def isDigit (c : UInt8) : Bool := 48 ≤ c && c ≤ 57
def isUpper (c : UInt8) : Bool := 65 ≤ c && c ≤ 90
def isLower (c : UInt8) : Bool := 97 ≤ c && c ≤ 122
def isAlnum (c : UInt8) : Bool := isDigit c || isUpper c || isLower c
def lowerC (c : UInt8) : UInt8 := if isUpper c then c + 32 else c
def lower (b : Bytes) : Bytes := b.map lowerC
def isNameCh (c : UInt8) : Bool := isAlnum c || c == 45
def isValueCh (c : UInt8) : Bool := (32 ≤ c && c ≤ 126) || c == 9
/-- characters of a CONNECT target the model covers: unreserved, sub-delims, and the structure characters `:[]` -/
def isTargetCh (c : UInt8) : Bool :=
  isAlnum c || [45, 46, 95, 126, 33, 36, 38, 39, 40, 41, 42, 43, 44, 59, 61, 58, 91, 93].contains c
def ows (c : UInt8) : Bool := c == 32 || c == 9
def trimOWS (b : Bytes) : Bytes := ((b.dropWhile ows).reverse.dropWhile ows).reverse

def str (s : String) : Bytes := s.toUTF8.toList

/-- split at the first occurrence of `c` -/
def cut (c : UInt8) : Bytes → Option (Bytes × Bytes)
  | [] => none
  | x :: xs =>
    if x = c then some ([], xs)
    else match cut c xs with
      | some (l, r) => some (x :: l, r)
      | none => none

def splitOn (c : UInt8) (b : Bytes) : List Bytes :=
  (b.foldr (fun x acc => if x = c then [] :: acc else match acc with
    | [] => [[x]]
    | h :: t => (x :: h) :: t) [[]])

/-! ### decimal and address text (conn.Addr.String / conn.ParseAddr) -/

def natDecAux : Nat → Nat → Bytes → Bytes
  | 0, _, acc => acc
  | fuel + 1, n, acc =>
    let acc := u8 (48 + n % 10) :: acc
    if n < 10 then acc else natDecAux fuel (n / 10) acc

def natDec (n : Nat) : Bytes := natDecAux (n + 1) n []

def decVal (b : Bytes) : Nat := b.foldl (fun acc c => acc * 10 + (c.toNat - 48)) 0

/-- strconv.ParseUint(s, 10, 16) -/
def parsePort (p : Bytes) : Option Nat :=
  if p.isEmpty || !p.all isDigit then none
  else if decVal p ≤ 65535 then some (decVal p) else none

/-- netip.Addr.String of an IPv4 address -/
def fmtV4 (ip : Bytes) : Bytes :=
  match ip.map (fun b => natDec b.toNat) with
  | [] => []
  | f :: fs => fs.foldl (fun acc x => acc ++ [46] ++ x) f

/-- one field of netip.parseIPv4Fields: digits, no leading zero, value ≤ 255 -/
def parseV4Field (f : Bytes) : Option UInt8 :=
  if f.isEmpty || !f.all isDigit then none
  else if f.length > 1 && f.head? = some 48 then none
  else if f.length > 3 then none
  else if decVal f ≤ 255 then some (u8 (decVal f)) else none

def parseV4 (s : Bytes) : Option Bytes :=
  match splitOn 46 s with
  | [a, b, c, d] => do
    let a ← parseV4Field a
    let b ← parseV4Field b
    let c ← parseV4Field c
    let d ← parseV4Field d
    pure [a, b, c, d]
  | _ => none

def hexDigitB (n : Nat) : UInt8 := if n < 10 then u8 (48 + n) else u8 (87 + n)

/-- lower-case hex without leading zeros -/
def hex16 (v : Nat) : Bytes :=
  if v < 16 then [hexDigitB v]
  else if v < 256 then [hexDigitB (v / 16), hexDigitB (v % 16)]
  else if v < 4096 then [hexDigitB (v / 256), hexDigitB (v / 16 % 16), hexDigitB (v % 16)]
  else [hexDigitB (v / 4096 % 16), hexDigitB (v / 256 % 16), hexDigitB (v / 16 % 16), hexDigitB (v % 16)]

def groups : Bytes → List Nat
  | hi :: lo :: rest => (hi.toNat * 256 + lo.toNat) :: groups rest
  | _ => []

/-- length of the run of zeros at the front -/
def zeroRun : List Nat → Nat
  | 0 :: t => zeroRun t + 1
  | _ => 0

/-- netip.Addr.string6: the first longest run (≥ 2) of zero groups, as (start, end) -/
def bestRun : Nat → List Nat → Option (Nat × Nat) → Option (Nat × Nat)
  | _, [], best => best
  | i, g :: t, best =>
    let l := zeroRun (g :: t)
    let best' := if l ≥ 2 && (match best with | some (s, e) => l > e - s | none => true) then some (i, i + l) else best
    bestRun (i + 1) t best'

def fmtGroups : Nat → List Nat → Option (Nat × Nat) → Bytes
  | _, [], _ => []
  | i, g :: t, best =>
    match best with
    | some (s, e) =>
      if i = s then [58, 58] ++ fmtGroups e (t.drop (e - s - 1)) best
      else (if i > 0 && i ≠ e then [58] else []) ++ hex16 g ++ fmtGroups (i + 1) t best
    | none => (if i > 0 then [58] else []) ++ hex16 g ++ fmtGroups (i + 1) t none
termination_by _ l _ => l.length
decreasing_by all_goals (simp_wf; try omega)

/-- netip.Addr.String of a 16-byte address without zone -/
def fmtV6 (ip : Bytes) : Bytes :=
  if is4in6 ip then str "::ffff:" ++ fmtV4 (ip.drop 12)
  else
    let g := groups ip
    fmtGroups 0 g (bestRun 0 g none)

def hexVal (c : UInt8) : Option Nat :=
  if isDigit c then some (c.toNat - 48)
  else if 97 ≤ c && c ≤ 102 then some (c.toNat - 87)
  else if 65 ≤ c && c ≤ 70 then some (c.toNat - 55)
  else none

/-- leading hex digits of `s` (at most the whole string): (value, count, rest) -/
def takeHex : Bytes → Nat → Nat → Nat × Nat × Bytes
  | [], acc, n => (acc, n, [])
  | c :: t, acc, n =>
    match hexVal c with
    | some v => takeHex t (acc * 16 + v) (n + 1)
    | none => (acc, n, c :: t)

/-- the loop of netip.parseIPv6 (no zone): fields so far (as bytes), position of the ellipsis -/
def parseV6Loop : Nat → Bytes → Bytes → Option Nat → Option (Bytes × Option Nat)
  | 0, _, _, _ => none
  | fuel + 1, s, acc, ell =>
    if acc.length ≥ 16 then (if s.isEmpty then some (acc, ell) else none)
    else
      let (v, n, rest) := takeHex s 0 0
      if n = 0 then none
      else if n > 4 then none
      else if rest.head? = some 46 then
        -- embedded IPv4 in the last 4 bytes
        if ell.isNone && acc.length ≠ 12 then none
        else if acc.length + 4 > 16 then none
        else match parseV4 s with
          | some ip4 => some (acc ++ ip4, ell)
          | none => none
      else
        let acc := acc ++ [u8 (v / 256), u8 (v % 256)]
        match rest with
        | [] => some (acc, ell)
        | c :: rest1 =>
          if c ≠ COLON then none
          else match rest1 with
            | [] => none
            | c2 :: rest2 =>
              if c2 = COLON then
                if ell.isSome then none
                else if rest2.isEmpty then some (acc, some acc.length)
                else parseV6Loop fuel rest2 acc (some acc.length)
              else parseV6Loop fuel rest1 acc ell

/-- netip.parseIPv6 without zone -/
def parseV6 (s : Bytes) : Option Bytes :=
  if s.contains 37 then none else
  let (s, ell0) : Bytes × Option Nat := match s with
    | 58 :: 58 :: t => (t, some 0)
    | _ => (s, none)
  if ell0.isSome && s.isEmpty then some (List.replicate 16 0) else
  match parseV6Loop 20 s [] ell0 with
  | none => none
  | some (acc, ell) =>
    if acc.length > 16 then none
    else if acc.length = 16 then (if ell.isSome then none else some acc)
    else match ell with
      | none => none
      | some e => some (acc.take e ++ List.replicate (16 - acc.length) 0 ++ acc.drop e)

/-- netip.ParseAddr: the first of `.`, `:`, `%` decides -/
def parseIP (h : Bytes) : Option (Bool × Bytes) :=
  match h.find? (fun c => c == 46 || c == 58 || c == 37) with
  | some 46 => (parseV4 h).map (fun ip => (false, ip))
  | some 58 => (parseV6 h).map (fun ip => (true, ip))
  | _ => none

/-- bytes.LastIndexByte -/
def lastIndexOf (c : UInt8) : Bytes → Option Nat
  | [] => none
  | x :: xs =>
    match lastIndexOf c xs with
    | some i => some (i + 1)
    | none => if x = c then some 0 else none

/-- bytes.IndexByte -/
def indexOfB (c : UInt8) : Bytes → Option Nat
  | [] => none
  | x :: xs => if x = c then some 0 else (indexOfB c xs).map (· + 1)

/-- net.SplitHostPort -/
def splitHostPort (s : Bytes) : Option (Bytes × Bytes) :=
  match lastIndexOf COLON s with
  | none => none
  | some i =>
    let port := s.drop (i + 1)
    if s.head? = some 91 then
      match indexOfB 93 s with
      | none => none
      | some e =>
        if e + 1 = i then
          let host := (s.take e).drop 1
          if (s.drop 1).contains 91 then none
          else if (s.drop (e + 1)).contains 93 then none
          else some (host, port)
        else none
    else
      let host := s.take i
      if host.contains COLON then none
      else if s.contains 91 || s.contains 93 then none
      else some (host, port)

/-- conn.ParseAddr -/
def parseAddr (s : Bytes) : Option Addr :=
  match splitHostPort s with
  | none => none
  | some (h, p) =>
    match parsePort p with
    | none => none
    | some port =>
      match parseIP h with
      | some (false, ip) => some (.v4 ip port)
      | some (true, ip) => some (.v6 ip port)
      | none => if 1 ≤ h.length && h.length ≤ 255 then some (.dom h port) else none

/-- conn.Addr.String -/
def addrString : Addr → Bytes
  | .v4 ip p => fmtV4 ip ++ [COLON] ++ natDec p
  | .v6 ip p => [91] ++ fmtV6 ip ++ [93, COLON] ++ natDec p
  | .dom n p => n ++ [COLON] ++ natDec p
  | .zero => []

/-! ### base64 (encoding/base64.StdEncoding) and the Basic token map -/

def b64char (n : Nat) : UInt8 :=
  if n < 26 then u8 (65 + n) else if n < 52 then u8 (71 + n) else if n < 62 then u8 (n - 4)
  else if n = 62 then 43 else 47

def b64 : Bytes → Bytes
  | a :: b :: c :: rest =>
    let n := a.toNat * 65536 + b.toNat * 256 + c.toNat
    b64char (n / 262144) :: b64char (n / 4096 % 64) :: b64char (n / 64 % 64) :: b64char (n % 64) :: b64 rest
  | [a, b] =>
    let n := a.toNat * 65536 + b.toNat * 256
    [b64char (n / 262144), b64char (n / 4096 % 64), b64char (n / 64 % 64), 61]
  | [a] =>
    let n := a.toNat * 65536
    [b64char (n / 262144), b64char (n / 4096 % 64), 61, 61]
  | [] => []

/-- NewProxyServer: token = base64(username ":" password) ↦ username -/
def tokenMap (enc : Bytes → Bytes) (users : List (Bytes × Bytes)) : List (Bytes × Bytes) :=
  users.map (fun u => (enc (u.1 ++ [COLON] ++ u.2), u.1))

/-- map lookup: a later entry with the same token replaces an earlier one -/
def lookupToken (tk : List (Bytes × Bytes)) (t : Bytes) : Option Bytes :=
  (tk.reverse.find? (fun e => e.1 == t)).map (·.2)

/-- NewProxyClient: proxyAuthHeader -/
def clientAuthHeader (enc : Bytes → Bytes) (user pass : Bytes) : Bytes :=
  C07.proxyAuthHeaderPrefix ++ enc (user ++ [COLON] ++ pass)

/-! ### heads -/

structure Head where
  method : Bytes
  target : Bytes
  minor : Nat
  headers : List (Bytes × Bytes)   -- (lower-cased name, value trimmed of optional whitespace), in order
deriving Repr, DecidableEq

def parseProto (p : Bytes) : Option Nat :=
  if p = str "HTTP/1.1" then some 1 else if p = str "HTTP/1.0" then some 0 else none

def parseHeaderLine (l : Bytes) : Except Err (Bytes × Bytes) :=
  match cut COLON l with
  | none => .error .oom
  | some (n, v) =>
    if n.isEmpty || !n.all isNameCh || !v.all isValueCh then .error .oom
    else .ok (lower n, trimOWS v)

def unmodelledHeaders : List Bytes :=
  [str "content-length", str "transfer-encoding", str "trailer"]

def parseHeaders (ls : List Bytes) : Except Err (List (Bytes × Bytes)) := do
  let hs ← ls.mapM parseHeaderLine
  if hs.any (fun h => unmodelledHeaders.contains h.1) then .error .oom
  else if (hs.filter (fun h => h.1 == str "host")).length > 1 then .error .oom
  else pure hs

/-- httpguts.HeaderValuesContainsToken -/
def hasToken (hs : List (Bytes × Bytes)) (name tok : Bytes) : Bool :=
  (hs.filter (fun h => h.1 == name)).any (fun h => (splitOn 44 h.2).any (fun t => lower (trimOWS t) == tok))

/-- http.Request.Close as computed by ReadRequest -/
def Head.close (h : Head) : Bool :=
  let c := hasToken h.headers (str "connection") (str "close")
  if h.minor = 0 then c || !hasToken h.headers (str "connection") (str "keep-alive") else c

/-- What `url.ParseRequestURI("http://" + target)` does to the targets the model covers:
`some true` = accepted, `some false` = rejected (ReadRequest fails), `none` = outside the model. -/
def targetURLOk (t : Bytes) : Option Bool :=
  if t.isEmpty || !t.all isTargetCh then none
  else if t.head? = some 91 then
    match t.findIdx? (· == 93) with
    | none => none
    | some e =>
      let inner := (t.take e).drop 1
      let after := t.drop (e + 1)
      if (parseV6 inner).isNone then none
      else if after.isEmpty then some true
      else if after.head? = some COLON && (after.drop 1).all isDigit then some true
      else none
  else if t.contains 91 || t.contains 93 then none
  else match t.findIdx? (· == COLON) with
    | none => some true
    -- net/url (Go 1.26, urlstrictcolons): everything after the FIRST colon must be a port
    | some i => some ((t.drop (i + 1)).all isDigit)

def parseRequestHead (ls : List Bytes) : Except Err Head :=
  match ls with
  | [] => .error .httpRead
  | rl :: hl =>
    match cut SP rl with
    | none => .error .httpRead
    | some (m, rest) =>
      match cut SP rest with
      | none => .error .httpRead
      | some (t, p) =>
        if m.isEmpty || !m.all isUpper then .error .oom
        else match parseProto p with
          | none => .error .oom
          | some minor =>
            match parseHeaders hl with
            | .error e => .error e
            | .ok hs =>
              if m ≠ str "CONNECT" then .error .oom
              else match targetURLOk t with
                | none => .error .oom
                | some false => .error .httpRead
                | some true => .ok { method := m, target := t, minor := minor, headers := hs }

/-- serverHandleBasicAuth -/
def basicAuth (hs : List (Bytes × Bytes)) (tk : List (Bytes × Bytes)) : Option Bytes :=
  match ((hs.filter (fun h => h.1 == str "proxy-authorization")).map (·.2)).find?
      (fun v => v.length > 6 && lower (v.take 6) == str "basic ") with
  | none => none
  | some v => lookupToken tk (v.drop 6)

/-! ### server -/

/-- the request loop of ServerHandle: returns (username, head) of the first request that passes the gate -/
def serverLoopH (tk : Option (List (Bytes × Bytes))) : Nat → M (Bytes × Head)
  | 0 => fail .oom
  | fuel + 1 => do
    let ls ← readHeadM
    let h ← liftE (parseRequestHead ls)
    match tk with
    | none => pure ([], h)
    | some tk =>
      match basicAuth h.headers tk with
      | some u => pure (u, h)
      | none => do
        write C07.status407
        if h.close then fail .authFailed else serverLoopH (some tk) fuel

/-- ServerHandle for CONNECT. `keep` = the CONNECT branch wraps the connection so that the
bufio read-ahead is delivered first (`Gen.C07.connectKeepsReadAhead`). -/
def getFuel : M Nat := fun s => (.ok (s.inp.flatten.length + 1), s)
/-- the pending conn is built on the raw connection unless wrapped: the bufio read-ahead is dropped -/
def keepReadAhead (keep : Bool) : M Unit := fun s => (.ok (), if keep then s else { s with buf := [] })

def serverHandleH (keep : Bool) (tk : Option (List (Bytes × Bytes))) : M (Bytes × Addr) := do
  let fuel ← getFuel
  let (u, h) ← serverLoopH tk fuel
  match parseAddr h.target with
  | none => do
    write C07.status400
    fail .badTarget
  | some a => do
    keepReadAhead keep
    pure (u, a)

def proceedH : M Unit := write C07.status200
/-- serverConnectPendingConn.Abort(_): 502 whatever the dial result -/
def abortH (_dr : DialResult) : M Unit := write C07.status502

/-! ### client -/

def parseStatusLine (l : Bytes) : Except Err Nat :=
  match cut SP l with
  | none => .error .httpRead
  | some (p, st) =>
    match parseProto p with
    | none => .error .oom
    | some _ =>
      let st := st.dropWhile (· == SP)
      let code := match cut SP st with
        | some (c, _) => c
        | none => st
      if code.length ≠ 3 then .error .httpRead
      else if !code.all isDigit then .error .oom
      else .ok (decVal code)

/-- ClientConnect: writes the CONNECT head, reads the response head; on 2xx the returned connection
delivers the bufio read-ahead first (readBufferedNetioConn). -/
def clientConnectH (target : Addr) (authHeader : Bytes) : M Unit := do
  let t := addrString target
  match C07.connectParts with
  | [p0, p1, p2, p3] => write (p0 ++ t ++ p1 ++ t ++ p2 ++ authHeader ++ p3)
  | _ => fail .panic
  let ls ← readHeadM
  match ls with
  | [] => fail .httpRead
  | sl :: hl =>
    let code ← liftE (parseStatusLine sl)
    let _ ← liftE (parseHeaders hl)
    if code < 200 || code ≥ 300 then fail (.connectStatus code) else pure ()

/-! ### well-formedness of addresses carried in a CONNECT target -/

/-- The domain names whose textual form survives the request line, `url.ParseRequestURI` and
`net.SplitHostPort`, and is not re-read as an IP literal. -/
def httpCarriable : Addr → Bool
  | .dom n _ => n.all (fun c => isTargetCh c && c != COLON && c != 91 && c != 93) && (parseIP n).isNone
  | .v4 _ _ => true
  | .v6 ip _ => parseIP (fmtV6 ip) == some (true, ip) && (fmtV6 ip).all (fun c => c != 91 && c != 93)
  | .zero => false

end SSV.HS
