import SSV.Model.Router
/-
C09 — the declarative specification `specMatch`, written from the field comments of `RouteConfig`
(router/route.go), NOT from the criterion code. The comments, verbatim:

  Network   "Apply this route to "tcp" or "udp" only. If empty, match all requests."
  Client    "Route matched requests to this client. Must not be empty."
  Resolver  "When matching a domain target to IP prefixes, use this resolver to resolve the domain name.
             If unspecified, use all resolvers by order."
  FromServers "Match requests from these servers. If empty, match all requests."
  FromUsers   "Match requests from these users. If empty, match all requests."
  FromPorts   "Match requests from these ports. If empty, match all requests."
  FromPortRanges "Match requests from these ports and port ranges. If empty, match all requests."
  FromPrefixes   "Match requests from IP addresses in these prefixes. If empty, match all requests."
  FromPrefixSets "Match requests from IP addresses in these prefix sets. If empty, match all requests."
  FromGeoIPCountries "Match requests from IP addresses in these countries. If empty, match all requests."
  ToPorts / ToPortRanges "Match requests to these ports (and port ranges). If empty, match all requests."
  ToDomains    "Match requests to these domain targets. If empty, match all requests."
  ToDomainSets "Match requests to domains in these domain sets. If empty, match all requests."
  ToMatchedDomainExpectedPrefixes    "Require the matched domain target to resolve to IP addresses in these prefixes."
  ToMatchedDomainExpectedPrefixSets  "Require the matched domain target to resolve to IP addresses in these prefix sets."
  ToMatchedDomainExpectedGeoIPCountries "Require the matched domain target to resolve to IP addresses in these countries."
  ToPrefixes / ToPrefixSets "Match requests to IP addresses in these prefixes / prefix sets. If empty, match all requests."
  ToGeoIPCountries "Match requests to IP addresses in these countries. If empty, match all requests."
  DisableNameResolutionForIPRules "Do not resolve destination domains to match IP rules."
  InvertFromServers "Invert source server matching logic. Match requests from all servers except those in FromServers."
  InvertFromUsers   "... Match requests from all users except those in FromUsers."
  InvertFromPrefixes "... Match requests from all IP prefixes except those in FromPrefixes or FromPrefixSets."
  InvertFromGeoIPCountries "... Match requests from all countries except those in FromGeoIPCountries."
  InvertFromPorts "... Match requests from all ports except those in FromPorts."
  InvertToDomains "... Match requests to all domains except those in ToDomains or ToDomainSets."
  InvertToMatchedDomainExpectedPrefixes "... Match requests to all domains except those whose resolved IP addresses are in
      ToMatchedDomainExpectedPrefixes or ToMatchedDomainExpectedPrefixSets."
  InvertToMatchedDomainExpectedGeoIPCountries "... except those whose resolved IP addresses are in ToMatchedDomainExpectedGeoIPCountries."
  InvertToPrefixes "... Match requests to all IP prefixes except those in ToPrefixes or ToPrefixSets."
  InvertToGeoIPCountries "... Match requests to all countries except those in ToGeoIPCountries."
  InvertToPorts "... Match requests to all ports except those in ToPorts."

and the C09 statement: kinds combine with AND; the source-address kinds (prefixes, GeoIP) and the destination kinds
(domains, prefixes, GeoIP) each combine with OR; each invert flag negates its own condition; a domain target is
checked against IP conditions through the configured resolver unless that is disabled; first route in
configuration order, otherwise the default client; reject ⇒ rejection; a resolver failure is an error, never a
silent match.

Readings adopted where the comments are silent or ambiguous (each is stated where it is used):
 (R1) A condition is three-valued: holds / does not hold / cannot be decided (error). Conditions are examined in the
      order in which the fields are documented (network, servers, users, source ports, source addresses, destination
      ports, destination addresses); the first one that does not hold makes the route a non-match, the first one that
      cannot be decided makes the request fail. So an error is never a match, and a route can only be passed over
      silently because a condition examined before the failing one is false. (`conds_*` theorems in Props give the
      order-free reading: match ⇒ every condition holds; non-match ⇒ some condition is false; error ⇒ some condition failed.)
 (R2) Inside an OR the kinds are examined in documented order; a kind that holds decides before later kinds are examined.
 (R3) An invert flag negates "holds"/"does not hold"; an undecidable condition stays an error.
 (R4) `invertToDomains` negates the whole domain kind, i.e. "the target is a listed domain (and its resolved
      address meets the expected-IP conditions)". An IP target is not a listed domain.
 (R5) With `disableNameResolutionForIPRules` a domain target is not "an IP address in the prefixes / countries".
 (R6) IPv4-mapped IPv6 addresses are compared as IPv4 addresses against prefixes (not for GeoIP).
 (R7) "use all resolvers by order": resolvers are asked in order; one that fails with the lookup-failure sentinel
      (`dns.ErrLookup`) is passed over; the first other result — an address or an error — is final; if none is left the
      error is "no available resolvers".
 (R8) No default client name: the only client of that network if there is exactly one, otherwise reject.
-/
namespace SSV.Router.Spec
open SSV.Router

/-- holds / does not hold / cannot be decided -/
inductive V where
  | t
  | f
  | e (x : Err)
deriving DecidableEq, Repr

def V.ofBool (b : Bool) : V := if b then .t else .f

/-- (R3) -/
def V.inv (i : Bool) : V → V
  | .t => if i then .f else .t
  | .f => if i then .t else .f
  | .e x => .e x

/-- sequential AND (R1) -/
def V.and : V → V → V
  | .t, w => w
  | .f, _ => .f
  | .e x, _ => .e x

/-- sequential OR (R2) -/
def V.or : V → V → V
  | .t, _ => .t
  | .f, w => w
  | .e x, _ => .e x

def allV : List V → V
  | [] => .t
  | v :: vs => v.and (allV vs)

def anyV : List V → V
  | [] => .f
  | v :: vs => v.or (anyV vs)

/-- OR over the kinds that are present; no kind present = no restriction ("If empty, match all requests"). -/
def orKinds : List V → V
  | [] => .t
  | vs => anyV vs

/-- the lookup-failure sentinel `dns.ErrLookup` -/
def isLookupFailure : LookupRes → Bool
  | .errLookup => true
  | _ => false

/-- (R7) -/
def resolveSpec (p : Params) (env : Env) (rc : RouteConfig) (d : String) : Except Err IP :=
  let rs := if rc.resolver = "" then env.resolvers else [rc.resolver]
  match rs.find? (fun r => !isLookupFailure (p.resolve r d)) with
  | none => .error .noAvailableResolvers
  | some r =>
    match p.resolve r d with
    | .addr a => .ok a
    | .fail t => .error (.resolver t)
    | .errLookup => .error .noAvailableResolvers

/-- what one comma-separated piece of a port-range string denotes -/
def itemCovers : SSV.PortSet.Item → Nat → Bool
  | .port p, q => p == q
  | .range a b, q => a ≤ q && q ≤ b

/-- the ports a port-range string, as written, denotes: "a comma-separated list of ports and port ranges" (portset.Parse);
the pieces and the piece syntax (decimal 1..65535, or lo-hi with 1 ≤ lo < hi ≤ 65535) are C10's `items` / `parseItem`,
characterised there by `parse_uint16_spec` / `parse_sound`. A malformed piece denotes nothing (and `build` refuses the
configuration: `malformed_port_ranges_rejected`). -/
def pieceCovers (pc : List UInt8) (q : Nat) : Bool :=
  match SSV.PortSet.parseItem pc with
  | some it => itemCovers it q
  | none => false

def rangesDenote (str : List UInt8) (q : Nat) : Bool :=
  (SSV.PortSet.items str).any (fun pc => pieceCovers pc q)

/-- the ports a `ports` list together with a `portRanges` string denote -/
def portsDenote (ports : List Nat) (str : List UInt8) (q : Nat) : Bool :=
  ports.contains q || rangesDenote str q

/-- (R6) -/
def inPrefixes (p : Params) (lits : List Prefix) (sets : List String) (a : IP) : Bool :=
  lits.any (fun x => p.pfx x a.unmap) || sets.any (fun n => p.pfxSet n a.unmap)

def inCountries (p : Params) (cs : List String) (a : IP) : V :=
  match p.country a with
  | none => .e .geoip
  | some c => .ofBool (cs.contains c)

/-- the address of a domain target as far as IP conditions are concerned -/
def resolvedV (p : Params) (env : Env) (rc : RouteConfig) (d : String) (k : IP → V) : V :=
  match resolveSpec p env rc d with
  | .error x => .e x
  | .ok a => k a

def cNetwork (rc : RouteConfig) (q : Req) : V :=
  if rc.network = "tcp" then .ofBool (q.net == .tcp)
  else if rc.network = "udp" then .ofBool (q.net == .udp)
  else .t

def cServers (env : Env) (rc : RouteConfig) (q : Req) : V :=
  if rc.fromServers.isEmpty then .t
  else (V.ofBool (match env.servers[q.server]? with
                  | some n => rc.fromServers.contains n
                  | none => false)).inv rc.invertFromServers

def cUsers (rc : RouteConfig) (q : Req) : V :=
  if rc.fromUsers.isEmpty then .t else (V.ofBool (rc.fromUsers.contains q.user)).inv rc.invertFromUsers

def cFromPorts (rc : RouteConfig) (q : Req) : V :=
  if rc.fromPorts.isEmpty && rc.fromPortRanges.isEmpty then .t
  else (V.ofBool (portsDenote rc.fromPorts rc.fromPortRanges q.srcPort)).inv rc.invertFromPorts

def cToPorts (rc : RouteConfig) (q : Req) : V :=
  if rc.toPorts.isEmpty && rc.toPortRanges.isEmpty then .t
  else (V.ofBool (portsDenote rc.toPorts rc.toPortRanges q.dstPort)).inv rc.invertToPorts

def kFromPrefixes (p : Params) (rc : RouteConfig) (q : Req) : List V :=
  if rc.fromPrefixes.isEmpty && rc.fromPrefixSets.isEmpty then []
  else [(V.ofBool (inPrefixes p rc.fromPrefixes rc.fromPrefixSets q.srcIP)).inv rc.invertFromPrefixes]

def kFromGeo (p : Params) (rc : RouteConfig) (q : Req) : List V :=
  if rc.fromGeoIPCountries.isEmpty then []
  else [(inCountries p rc.fromGeoIPCountries q.srcIP).inv rc.invertFromGeoIPCountries]

/-- source address kinds: OR -/
def cFromAddr (p : Params) (rc : RouteConfig) (q : Req) : V :=
  orKinds (kFromPrefixes p rc q ++ kFromGeo p rc q)

/-- "Require the matched domain target to resolve to IP addresses in these prefixes / prefix sets / countries":
the expected-IP kinds (prefixes, countries) combine with OR, each with its own invert flag. -/
def expectedKinds (p : Params) (env : Env) (rc : RouteConfig) (d : String) : List V :=
  (if rc.toMatchedDomainExpectedPrefixes.isEmpty && rc.toMatchedDomainExpectedPrefixSets.isEmpty then []
   else [(resolvedV p env rc d (fun a => .ofBool (inPrefixes p rc.toMatchedDomainExpectedPrefixes rc.toMatchedDomainExpectedPrefixSets a))).inv
          rc.invertToMatchedDomainExpectedPrefixes]) ++
  (if rc.toMatchedDomainExpectedGeoIPCountries.isEmpty then []
   else [(resolvedV p env rc d (fun a => inCountries p rc.toMatchedDomainExpectedGeoIPCountries a)).inv
          rc.invertToMatchedDomainExpectedGeoIPCountries])

/-- the domain kind, before `invertToDomains` (R4) -/
def domainHolds (p : Params) (env : Env) (rc : RouteConfig) (q : Req) : V :=
  match q.target with
  | .ip _ => .f
  | .domain d =>
    if rc.toDomains.contains d || rc.toDomainSets.any (fun n => p.domSet n d) then
      orKinds (expectedKinds p env rc d)
    else .f

def kToDomains (p : Params) (env : Env) (rc : RouteConfig) (q : Req) : List V :=
  if rc.toDomains.isEmpty && rc.toDomainSets.isEmpty then []
  else [(domainHolds p env rc q).inv rc.invertToDomains]

/-- an IP condition on the destination: an IP target directly; a domain target through the resolver unless disabled (R5) -/
def destIPCond (p : Params) (env : Env) (rc : RouteConfig) (q : Req) (k : IP → V) : V :=
  match q.target with
  | .ip a => k a
  | .domain d => if rc.disableNameResolutionForIPRules then .f else resolvedV p env rc d k

def kToPrefixes (p : Params) (env : Env) (rc : RouteConfig) (q : Req) : List V :=
  if rc.toPrefixes.isEmpty && rc.toPrefixSets.isEmpty then []
  else [(destIPCond p env rc q (fun a => .ofBool (inPrefixes p rc.toPrefixes rc.toPrefixSets a))).inv rc.invertToPrefixes]

def kToGeo (p : Params) (env : Env) (rc : RouteConfig) (q : Req) : List V :=
  if rc.toGeoIPCountries.isEmpty then []
  else [(destIPCond p env rc q (fun a => inCountries p rc.toGeoIPCountries a)).inv rc.invertToGeoIPCountries]

/-- destination kinds: OR -/
def cToAddr (p : Params) (env : Env) (rc : RouteConfig) (q : Req) : V :=
  orKinds (kToDomains p env rc q ++ kToPrefixes p env rc q ++ kToGeo p env rc q)

/-- the documented conditions of a route, in documented order -/
def conds (p : Params) (env : Env) (rc : RouteConfig) (q : Req) : List V :=
  [cNetwork rc q, cServers env rc q, cUsers rc q, cFromPorts rc q, cFromAddr p rc q, cToPorts rc q, cToAddr p env rc q]

/-- kinds combine with AND (R1) -/
def specRoute (p : Params) (env : Env) (rc : RouteConfig) (q : Req) : V := allV (conds p env rc q)

/-- "Route matched requests to this client"; a route set to reject yields a rejection -/
def specClient (name : String) : Res := if name = "reject" then .rejected else .client name

/-- (R8) -/
def specDefault (env : Env) (cfg : Config) (net : Net) : Res :=
  let name := match net with | .tcp => cfg.defaultTCPClientName | .udp => cfg.defaultUDPClientName
  let clients := match net with | .tcp => env.tcpClients | .udp => env.udpClients
  if name = "reject" then .rejected
  else if name = "" then
    match clients with
    | [c] => .client c
    | _ => .rejected
  else .client name

/-- first route in configuration order whose conditions all hold, otherwise the default client -/
def specRoutes (p : Params) (env : Env) (cfg : Config) (q : Req) : List RouteConfig → Res
  | [] => specDefault env cfg q.net
  | rc :: rest =>
    match specRoute p env rc q with
    | .t => specClient rc.client
    | .f => specRoutes p env cfg q rest
    | .e x => .error x

def specMatch (p : Params) (env : Env) (cfg : Config) (q : Req) : Res := specRoutes p env cfg q cfg.routes

/-- the name of the route that decides the request: the first route in configuration order whose conditions all hold,
"default" when none does; none at all when the request fails on an undecidable condition -/
def specRouteNames (p : Params) (env : Env) (q : Req) : List RouteConfig → Option String
  | [] => some "default"
  | rc :: rest =>
    match specRoute p env rc q with
    | .t => some rc.name
    | .f => specRouteNames p env q rest
    | .e _ => none

def specMatchedRoute (p : Params) (env : Env) (cfg : Config) (q : Req) : Option String := specRouteNames p env q cfg.routes

end SSV.Router.Spec
