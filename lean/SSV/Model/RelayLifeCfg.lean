import SSV.Gen.C12
import SSV.Model.RelayLife
/-
The step programs regenerated from the four relay files (SSV.Gen.C12), assembled into `Programs`,
and the model configuration each of them denotes.
-/
namespace SSV.RelayLife
open SSV.Gen

def progsNatGeneric : Programs :=
  { cleanup := C12.natGeneric_cleanup, initCalls := C12.natGeneric_initCalls, initClosesNat := C12.natGeneric_initClosesNat, uplinkExit := C12.natGeneric_uplinkExit,
    uplinkTail := C12.natGeneric_uplinkTail, stop := C12.natGeneric_stop }
def progsNatMmsg : Programs :=
  { cleanup := C12.natMmsg_cleanup, initCalls := C12.natMmsg_initCalls, initClosesNat := C12.natMmsg_initClosesNat, uplinkExit := C12.natMmsg_uplinkExit,
    uplinkTail := C12.natMmsg_uplinkTail, stop := C12.natMmsg_stop }
def progsSessionGeneric : Programs :=
  { cleanup := C12.sessionGeneric_cleanup, initCalls := C12.sessionGeneric_initCalls, initClosesNat := C12.sessionGeneric_initClosesNat, uplinkExit := C12.sessionGeneric_uplinkExit,
    uplinkTail := C12.sessionGeneric_uplinkTail, stop := C12.sessionGeneric_stop }
def progsSessionMmsg : Programs :=
  { cleanup := C12.sessionMmsg_cleanup, initCalls := C12.sessionMmsg_initCalls, initClosesNat := C12.sessionMmsg_initClosesNat, uplinkExit := C12.sessionMmsg_uplinkExit,
    uplinkTail := C12.sessionMmsg_uplinkTail, stop := C12.sessionMmsg_stop }

def progsOf : String → Option Programs
  | "natGeneric" => some progsNatGeneric
  | "natMmsg" => some progsNatMmsg
  | "sessionGeneric" => some progsSessionGeneric
  | "sessionMmsg" => some progsSessionMmsg
  | _ => none

end SSV.RelayLife
