import Driver.Common
import SSV.Model.Persist
open SSV SSV.Persist

/-
Line protocol of the C20 driver.

  prog
      -> the decoded programs (`save=<n stmts> dequeue=<n nodes>`), or `gen-undecodable`
  save <kill|efbig> <k> <oldhex> <newhex>
      one run of the regenerated save program on a store file holding <old>, writing <new>, with the
      file-size limit k (RLIMIT_FSIZE): `kill` = the process dies at the write that crosses the limit,
      `efbig` = that write returns an error after k bytes and the procedure runs on.
      -> target=<hex|-|absent> tmps=<hex;hex|none> err=<0|1> link=<0|1> dest=<hex|none> verdict=<old|new|empty|absent|other>
  save <mode> <k> <oldhex> <newhex> <reg|link> <none|fixed|pattern> <leftoverhex>
      the same with the store path being a symbolic link and/or a left-over file next to the store
  hist <reg|link> <none|fixed|pattern> <leftoverhex> <mode> <k> <oldhex> <newhex> <new2a> <new2b>
      save 1 cut at byte k, restart, one more change saved without fault
      -> step1=<old|new|..> + the fields of `save` for the final state (verdict old = new2a, new = new2b)
  killpoints <oldhex> <newhex> <reg|link> <none|fixed|pattern> <leftoverhex>
      -> the distinct directory views after a kill between two calls of a fault-free save, joined by " | "
  stop <tokens>
      tokens: A (API change, acknowledged)  W (synctest.Wait)  T (sleep one cool-down)  C (cancel)  S (Stop)
      -> disks=<v,v,..> acked=<n> lost=<0|1>   (every store version the file can hold when Stop returns)
-/

def hexOpt : Option Bytes → String
  | none => "absent"
  | some b => toHexField b

def insertSorted (x : String) : List String → List String
  | [] => [x]
  | y :: ys => if x ≤ y then x :: y :: ys else y :: insertSorted x ys

def sortStrings (xs : List String) : List String := xs.foldr insertSorted []

def tmpContents (fs : FS) : List String :=
  sortStrings (fs.tmps.map (fun p => match fs.inodes[p.2]? with | some i => toHexField i.cur | none => "dangling"))

def verdict (c : Option Bytes) (old new : Bytes) : String :=
  match c with
  | none => "absent"
  | some d => if d == old then "old" else if d == new then "new" else if d.isEmpty then "empty" else "other"

/-- the directory before the save: store kind (`reg` | `link`) and a left-over file next to the store
(`none` | `fixed` = `<store>.tmp` | `pattern` = `<store>.<digits>.tmp`) with content `lo` -/
def mkFS (old : Bytes) (kind leftover : String) (lo : Bytes) : FS :=
  let base : FS := if kind == "link" then initLinkFS old else initFS old
  match leftover with
  | "fixed" => { base with inodes := base.inodes ++ [⟨lo, true⟩], tmps := [(0, 1)] }
  | "pattern" => { base with inodes := base.inodes ++ [⟨lo, true⟩], tmps := [(7, 1)] }
  | _ => base

def showFS (r : Run) (old new : Bytes) : String :=
  let c := afterKill r.fs
  let tm := tmpContents r.fs
  let tms := if tm.isEmpty then "none" else String.intercalate ";" tm
  let dest := match r.fs.dest with
    | none => "none"
    | some i => match r.fs.inodes[i]? with | some ino => toHexField ino.cur | none => "dangling"
  s!"target={hexOpt c} tmps={tms} err={if r.err then 1 else 0} link={if r.fs.isLink then 1 else 0} dest={dest} verdict={verdict c old new}"

/-- one save, cut at byte `k` (`kill`: the process dies there; `efbig`: the write fails and the run goes on) -/
def runCut (prog : List Stmt) (mode : String) (k : Nat) (new : Bytes) (fs : FS) : Option Run :=
  match writeIndex prog 0 with
  | none => none
  | some wi =>
    let cut := k < new.length
    let fault : Fault := if cut then some (wi, k) else none
    let stop : Option Nat := if cut && mode == "kill" then some wi else none
    some (finalRun new fault stop prog 0 (startRun fs))

def doSave (mode : String) (k : Nat) (old new : Bytes) (kind leftover : String) (lo : Bytes) : String :=
  match saveProg? with
  | none => "gen-undecodable"
  | some prog =>
    match runCut prog mode k new (mkFS old kind leftover lo) with
    | none => "no-write-in-program"
    | some r => showFS r old new

/-- a two-step history: save 1 (old -> new) cut at byte k, the process restarts on what is left, one more
change is saved without fault (new2a if the store shows old, new2b if it shows new) -/
def doHist (kind leftover : String) (lo : Bytes) (mode : String) (k : Nat) (old new new2a new2b : Bytes) : String :=
  match saveProg? with
  | none => "gen-undecodable"
  | some prog =>
    match runCut prog mode k new (mkFS old kind leftover lo) with
    | none => "no-write-in-program"
    | some r1 =>
      let shown := afterKill r1.fs
      let step1 := verdict shown old new
      let new2 := if shown == some new then new2b else new2a
      let r2 := finalRun new2 none none prog 0 (startRun r1.fs)
      s!"step1={step1} " ++ showFS r2 new2a new2b

def showKill (fs : FS) : String :=
  let tm := tmpContents fs
  let tms := if tm.isEmpty then "none" else String.intercalate ";" tm
  let dest := match fs.dest with
    | none => "none"
    | some i => match fs.inodes[i]? with | some ino => toHexField ino.cur | none => "dangling"
  s!"target={hexOpt (afterKill fs)} tmps={tms} link={if fs.isLink then 1 else 0} dest={dest}"

/-- every state a process kill BETWEEN two calls of a fault-free save can leave: before the first statement,
right after each statement, and the end -/
def doKillPoints (old new : Bytes) (kind leftover : String) (lo : Bytes) : String :=
  match saveProg? with
  | none => "gen-undecodable"
  | some prog =>
    let fs0 := mkFS old kind leftover lo
    let sts := (List.range (prog.length + 1)).map (fun i =>
      showKill (finalRun new none (some i) prog 0 (startRun fs0)).fs)
    let all := (showKill fs0 :: sts).foldl (fun acc x => if acc.contains x then acc else acc ++ [x]) []
    String.intercalate " | " all

def natList (xs : List Nat) : String := String.intercalate "," (xs.map toString)

def insertNat (x : Nat) : List Nat → List Nat
  | [] => [x]
  | y :: ys => if x < y then x :: y :: ys else if x = y then y :: ys else y :: insertNat x ys

def doStop (toks : List String) : String :=
  match dequeueProg? with
  | none => "gen-undecodable"
  | some prog =>
    let fuel := 64
    let start := closure prog false fuel [dinit]
    let fin := toks.foldl (fun (ss : List DState) (t : String) =>
      match t with
      | "A" =>
        let s1 := closure prog false fuel (insertNew [] (ss.map apiMutate))
        closure prog false fuel (insertNew [] (s1.map apiEnqueue))
      | "W" => blocked prog false (closure prog false fuel ss)
      | "T" => closure prog true fuel (blocked prog false (closure prog false fuel ss))
      | "C" => closure prog false fuel (insertNew [] (ss.map (fun s => { s with cancelled := true })))
      | "S" => (closure prog true fuel ss).filter (·.exited)
      | _ => ss) start
    let disks := fin.foldl (fun acc s => insertNat s.disk acc) []
    let acked := fin.foldl (fun a s => max a s.acked) 0
    let lost := fin.any (fun s => s.acked > s.disk)
    s!"disks={natList disks} acked={acked} lost={if lost then 1 else 0}"

def stepC20 (u : Unit) (line : String) : Unit × String :=
  match fields line with
  | ["prog"] =>
    match saveProg?, dequeueProg? with
    | some p, some d => (u, s!"save={p.length} dequeue={d.length}")
    | _, _ => (u, "gen-undecodable")
  | ["save", mode, k, old, new] =>
    match k.toNat?, ofHex? old, ofHex? new with
    | some k, some o, some n => (u, doSave mode k o n "reg" "none" [])
    | _, _, _ => (u, "bad-op")
  | ["save", mode, k, old, new, kind, leftover, lo] =>
    match k.toNat?, ofHex? old, ofHex? new, ofHex? lo with
    | some k, some o, some n, some l => (u, doSave mode k o n kind leftover l)
    | _, _, _, _ => (u, "bad-op")
  | ["hist", kind, leftover, lo, mode, k, old, new, n2a, n2b] =>
    match k.toNat?, ofHex? old, ofHex? new, ofHex? lo, ofHex? n2a, ofHex? n2b with
    | some k, some o, some n, some l, some a, some b => (u, doHist kind leftover l mode k o n a b)
    | _, _, _, _, _, _ => (u, "bad-op")
  | ["killpoints", old, new, kind, leftover, lo] =>
    match ofHex? old, ofHex? new, ofHex? lo with
    | some o, some n, some l => (u, doKillPoints o n kind leftover l)
    | _, _, _ => (u, "bad-op")
  | "stop" :: toks => (u, doStop toks)
  | _ => (u, "bad-op")

def main : IO Unit := Driver.run () stepC20
