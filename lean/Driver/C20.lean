import Driver.Common
import SSV.Model.Persist
open SSV SSV.Persist

/-
Line protocol of the C20 driver.

  prog
      -> the decoded programs (`save=<n stmts> dequeue=<n nodes>`), or `gen-undecodable`
  save <kill|efbig> <k> <oldhex> <newhex>
      one run of the regenerated save program on a store file holding <old>, writing <new>, with the
      file-size limit k (RLIMIT_FSIZE): `kill` = the process dies at the write that crosses the limit,
      `efbig` = that write returns an error after k bytes and the procedure runs on.
      -> target=<hex|-|absent> tmps=<hex;hex|none> err=<0|1> verdict=<old|new|empty|absent|other>
  stop <tokens>
      tokens: A (API change, acknowledged)  W (synctest.Wait)  T (sleep one cool-down)  C (cancel)  S (Stop)
      -> disks=<v,v,..> acked=<n> lost=<0|1>   (every store version the file can hold when Stop returns)
-/

def hexOpt : Option Bytes → String
  | none => "absent"
  | some b => toHexField b

def insertSorted (x : String) : List String → List String
  | [] => [x]
  | y :: ys => if x ≤ y then x :: y :: ys else y :: insertSorted x ys

def sortStrings (xs : List String) : List String := xs.foldr insertSorted []

def tmpContents (fs : FS) : List String :=
  sortStrings (fs.tmps.map (fun p => match fs.inodes[p.2]? with | some i => toHexField i.cur | none => "dangling"))

def verdict (c : Option Bytes) (old new : Bytes) : String :=
  match c with
  | none => "absent"
  | some d => if d == old then "old" else if d == new then "new" else if d.isEmpty then "empty" else "other"

def doSave (mode : String) (k : Nat) (old new : Bytes) : String :=
  match saveProg? with
  | none => "gen-undecodable"
  | some prog =>
    match writeIndex prog 0 with
    | none => "no-write-in-program"
    | some wi =>
      let cut := k < new.length
      let fault : Fault := if cut then some (wi, k) else none
      let stop : Option Nat := if cut && mode == "kill" then some wi else none
      let r := finalRun new fault stop prog 0 (startRun (initFS old))
      let c := afterKill r.fs
      let tm := tmpContents r.fs
      let tms := if tm.isEmpty then "none" else String.intercalate ";" tm
      s!"target={hexOpt c} tmps={tms} err={if r.err then 1 else 0} verdict={verdict c old new}"

def natList (xs : List Nat) : String := String.intercalate "," (xs.map toString)

def insertNat (x : Nat) : List Nat → List Nat
  | [] => [x]
  | y :: ys => if x < y then x :: y :: ys else if x = y then y :: ys else y :: insertNat x ys

def doStop (toks : List String) : String :=
  match dequeueProg? with
  | none => "gen-undecodable"
  | some prog =>
    let fuel := 64
    let start := closure prog false fuel [dinit]
    let fin := toks.foldl (fun (ss : List DState) (t : String) =>
      match t with
      | "A" =>
        let s1 := closure prog false fuel (insertNew [] (ss.map apiMutate))
        closure prog false fuel (insertNew [] (s1.map apiEnqueue))
      | "W" => blocked prog false (closure prog false fuel ss)
      | "T" => closure prog true fuel (blocked prog false (closure prog false fuel ss))
      | "C" => closure prog false fuel (insertNew [] (ss.map (fun s => { s with cancelled := true })))
      | "S" => (closure prog true fuel ss).filter (·.exited)
      | _ => ss) start
    let disks := fin.foldl (fun acc s => insertNat s.disk acc) []
    let acked := fin.foldl (fun a s => max a s.acked) 0
    let lost := fin.any (fun s => s.acked > s.disk)
    s!"disks={natList disks} acked={acked} lost={if lost then 1 else 0}"

def stepC20 (u : Unit) (line : String) : Unit × String :=
  match fields line with
  | ["prog"] =>
    match saveProg?, dequeueProg? with
    | some p, some d => (u, s!"save={p.length} dequeue={d.length}")
    | _, _ => (u, "gen-undecodable")
  | ["save", mode, k, old, new] =>
    match k.toNat?, ofHex? old, ofHex? new with
    | some k, some o, some n => (u, doSave mode k o n)
    | _, _, _ => (u, "bad-op")
  | "stop" :: toks => (u, doStop toks)
  | _ => (u, "bad-op")

def main : IO Unit := Driver.run () stepC20
