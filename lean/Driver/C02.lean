import Driver.Common
import SSV.Model.StreamDriver
/- ssv_c02: same model and protocol as ssv_c01; the C02 engine additionally uses the `tamper` commands -/
def main : IO Unit := Driver.run SSV.Stream.Drv.init SSV.Stream.Drv.step
