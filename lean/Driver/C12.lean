import Driver.Common
import SSV.Model.RelayLife
import SSV.Model.RelayLifeCfg
import Std.Data.HashSet
open SSV SSV.RelayLife

/-
Driver of C12: `explore <variant> <scenario>` explores the executable life-cycle model exhaustively
(one client key, at most three datagrams, send channel capacity 2) under the environment of the scenario and
answers the set of abstract outcomes the model allows:
  stop=prompt|timer   (timer: a state after Stop was called in which no goroutine of the relay can move)
  leak=no|yes         (a NAT socket still open when Stop has returned / after eviction / after failed initialisations)
  panic=no|yes        (send on a closed channel, second close)
  evict=.. restart=.. (scenario evict)
-/

namespace C12

def stN : St → Nat | .nil => 0 | .nat => 1 | .srv => 2
def dlN : Dl → Nat | .unset => 0 | .future => 1 | .past => 2
def ipcN : IPc → Nat
  | .getClient => 0 | .newSession => 1 | .listen => 2 | .setDl => 3 | .newPacker => 4 | .swap => 5 | .spawn => 6
  | .dRead => 7 | .dProc => 8 | .cLock => 9 | .cClose => 10 | .cDelete => 11 | .cUnlock => 12 | .cDrain => 13 | .done => 14
def upcN : UPc → Nat
  | .none => 0 | .recv => 1 | .send => 2 | .arm => 3 | .check => 4 | .force => 5 | .closeSock => 6 | .done => 7
def muN : Holder → Nat | .free => 0 | .recv => 1 | .stop => 2 | .cleanup i => 3 + i
def rpcN : RPc → Nat | .read => 0 | .unlock => 1 | .done => 2 | .wantLock c => 3 + 2 * c | .hold c => 4 + 2 * c
def spcN : SPc → Nat
  | .idle => 0 | .dlServer => 1 | .waitMwg => 2 | .lock => 3 | .iter => 4 | .unlock => 5 | .waitWg => 6 | .closeSrv => 7 | .done => 8
  | .pend i => 9 + i
def bN (b : Bool) : Nat := if b then 1 else 0

def encE (e : Entry) : List Nat :=
  [e.key, stN e.st, dlN e.dl, bN e.sock, bN e.chClosed, e.q, bN e.clean, ipcN e.ipc, upcN e.upc, bN e.visited]

/-- key of a state for the visited set (keys < 2) -/
def enc (s : State) (extra : Nat) : List Nat :=
  [extra, s.n, muN s.mu, rpcN s.rpc, spcN s.spc, bN s.srvPast, bN s.panic,
   (s.table 0).getD 99, (s.table 1).getD 99] ++ (List.range s.n).flatMap (fun i => encE (s.ent i))

/-- all internal events that might be enabled -/
def internalEvs (s : State) : List Ev :=
  [.rLock, .rProc true, .rUnlock, .rExit, .stop] ++
  (List.range s.n).flatMap (fun i => [.dTimeout i, .dSend i, .cleanup i, .uRecv i 1, .uRecv i 2, .uStep i, .stopVisit i])

structure Policy where
  arrivals : Nat            -- datagrams of client 0 the environment may still send (counted in `extra`)
  initOk : IPc → Bool       -- outcome of each initialiser call
  heldAt : Option IPc       -- an initialiser call that returns only when the environment releases it (any time)
  dPacket : Bool            -- the target may answer
  timer : State → Nat → Bool
  stopCall : State → Bool
  packFails : Bool := false  -- every PackInPlace of the uplink fails (oversize for the client MTU, unresolvable target)

def idleEstablished (e : Entry) : Bool := e.ipc == .dRead && e.upc == .recv && e.q == 0

/-- events of the policy enabled in (s, used arrivals) with the successor's `extra` -/
def succs (cfg : Cfg) (p : Policy) (s : State) (used : Nat) : List (State × Nat) :=
  let evs : List (Ev × Nat) :=
    ((internalEvs s).filter (fun e => match e with
        | .uStep i => !(p.packFails && (s.ent i).upc == .send)
        | _ => true)).map (fun e => (e, used)) ++
    (if p.packFails then (List.range s.n).map (fun i => (Ev.uFail i, used)) else []) ++
    (if used < p.arrivals then [(.arrive 0, used + 1)] else []) ++
    (List.range s.n).flatMap (fun i =>
      [(Ev.init i (p.initOk (s.ent i).ipc), used)] ++
      (if p.dPacket then [(Ev.dPacket i, used)] else []) ++
      (if p.timer s i then [(Ev.timer i, used)] else [])) ++
    (if p.stopCall s then [(.stopCall, used)] else [])
  evs.filterMap (fun (e, u) => (step cfg s e).map (fun s' => (s', u)))

def internalEnabled (cfg : Cfg) (p : Policy) (s : State) : Bool :=
  (internalEvs s).any (fun e => (match e with
      | .uStep i => !(p.packFails && (s.ent i).upc == .send)
      | _ => true) && (step cfg s e).isSome) ||
  (p.packFails && (List.range s.n).any (fun i => (step cfg s (.uFail i)).isSome)) ||
  (List.range s.n).any (fun i => (step cfg s (.init i (p.initOk (s.ent i).ipc))).isSome)

partial def bfs (cfg : Cfg) (p : Policy) (work : List (State × Nat)) (seen : Std.HashSet (List Nat)) (acc : List (State × Nat)) :
    List (State × Nat) :=
  match work with
  | [] => acc
  | (s, u) :: rest =>
    let k := enc s u
    if seen.contains k then bfs cfg p rest seen acc
    else bfs cfg p (succs cfg p s u ++ rest) (seen.insert k) ((s, u) :: acc)

def anySock (s : State) : Bool := (List.range s.n).any (fun i => (s.ent i).sock)

def setStr (xs : List String) : String := ",".intercalate (xs.eraseDups.mergeSort (fun a b => a ≤ b))

/-- classify the states reached under a policy -/
def classify (cfg : Cfg) (p : Policy) (states : List (State × Nat)) : List String × List String × List String :=
  states.foldl (fun (stop, leak, pan) (s, _) =>
    let pan := if s.panic then "yes" :: pan else pan
    let stuck := s.spc != .idle && s.spc != .done && !internalEnabled cfg p s
    let stop := if stuck then "timer" :: stop else if s.spc == .done then "prompt" :: stop else stop
    let leak := if s.spc == .done then (if anySock s then "yes" else "no") :: leak else leak
    (stop, leak, pan)) ([], [], ["no"])

def allOk : IPc → Bool := fun _ => true

def explore (cfg : Cfg) (scenario : String) : String :=
  let never : State → Nat → Bool := fun _ _ => false
  let run (p : Policy) (starts : List (State × Nat)) := bfs cfg p starts {} []
  let out (stop leak pan : List String) (extra : String) :=
    s!"stop={setStr stop} leak={setStr leak} panic={setStr pan}{extra}"
  match scenario with
  | "stop-flood" =>
    let p : Policy := { arrivals := 3, initOk := allOk, heldAt := none, dPacket := true, timer := never, stopCall := fun _ => true }
    let (a, b, c) := classify cfg p (run p [(State.init, 0)])
    out a b c ""
  | "stop-idle" =>
    let p : Policy := { arrivals := 1, initOk := allOk, heldAt := none, dPacket := true, timer := never,
                        stopCall := fun s => s.n ≥ 1 && s.rpc == .read && (List.range s.n).all (fun i => idleEstablished (s.ent i)) }
    let (a, b, c) := classify cfg p (run p [(State.init, 0)])
    out a b c ""
  | "stop-init-ok" =>
    let p : Policy := { arrivals := 1, initOk := allOk, heldAt := some .newSession, dPacket := false, timer := never, stopCall := fun _ => true }
    let (a, b, c) := classify cfg p (run p [(State.init, 0)])
    out a b c ""
  | "stop-init-fail" =>
    let p : Policy := { arrivals := 1, initOk := fun pc => pc != .newSession, heldAt := some .newSession, dPacket := false, timer := never,
                        stopCall := fun _ => true }
    let (a, b, c) := classify cfg p (run p [(State.init, 0)])
    out a b c ""
  | "init-fail" =>
    -- reject: GetUDPClient fails; unresolvable / refused: NewSession fails.  Both are explored.
    let mk (bad : IPc) : Policy := { arrivals := 2, initOk := fun pc => pc != bad, heldAt := none, dPacket := false, timer := never,
                                     stopCall := fun s => s.rpc == .read && (List.range s.n).all (fun i => (s.ent i).finished) }
    let (a1, b1, c1) := classify cfg (mk .getClient) (run (mk .getClient) [(State.init, 0)])
    let (a2, b2, c2) := classify cfg (mk .newSession) (run (mk .newSession) [(State.init, 0)])
    out (a1 ++ a2) (b1 ++ b2) (c1 ++ c2) ""
  | "evict" | "evict-unpackable" =>
    -- phase 1: one datagram, the session gets established and idle; then the NAT timer fires; internal moves only
    -- (evict-unpackable: the only datagram of the first session cannot be packed by the uplink)
    let p1 : Policy := { arrivals := 1, initOk := allOk, heldAt := none, dPacket := false,
                         timer := fun s i => idleEstablished (s.ent i) && s.rpc == .read, stopCall := fun _ => false,
                         packFails := scenario == "evict-unpackable" }
    let s1 := run p1 [(State.init, 0)]
    let term1 := s1.filter (fun (s, u) => u == 1 && (succs cfg p1 s u).isEmpty)
    let evicted := term1.all (fun (s, _) => s.n == 1 && (s.ent 0).finished && (s.table 0).isNone)
    let leak1 := term1.any (fun (s, _) => anySock s)
    -- phase 2: a second datagram of the same client; then Stop
    let p2 : Policy := { arrivals := 2, initOk := allOk, heldAt := none, dPacket := false, timer := never,
                         stopCall := fun s => s.n ≥ 1 && s.rpc == .read &&
                           (List.range s.n).all (fun i => idleEstablished (s.ent i) || (s.ent i).finished) }
    let s2 := run p2 term1
    let established := s2.any (fun (s, _) => s.n == 2 && s.table 0 == some 1 && idleEstablished (s.ent 1) && (s.ent 1).dl == .future)
    let dead2 := s2.any (fun (s, u) => s.spc == .idle && (succs cfg p2 s u).isEmpty && !(s.n == 2 && idleEstablished (s.ent 1)))
    let (a, b, c) := classify cfg p2 s2
    let c := if s1.any (fun (s, _) => s.panic) then "yes" :: c else c
    let b := if leak1 then "yes" :: b else b
    out a b c s!" evict={if evicted && !term1.isEmpty then "yes" else "no"} restart={if established && !dead2 then "yes" else "no"}"
  | _ => "bad-scenario"

end C12

def stepC12 (u : Unit) (line : String) : Unit × String :=
  match fields line with
  | ["explore", variant, scenario] =>
    match progsOf variant with
    | none => (u, "bad-variant")
    | some p => match cfgOf p 2 with
      | none => (u, "cfg-unrecognised")
      | some cfg => (u, C12.explore cfg scenario)
  | ["cfg", variant] =>
    match progsOf variant with
    | none => (u, "bad-variant")
    | some p => match cfgOf p 2 with
      | none => (u, "cfg-unrecognised")
      | some cfg => (u, s!"recheck={cfg.recheck} closeSetDl={cfg.closeSetDl} closeNewPacker={cfg.closeNewPacker} closeSwap={cfg.closeSwap} uplinkCloses={cfg.uplinkCloses}")
  | _ => (u, "bad-op")

def main : IO Unit := Driver.run () stepC12
