import Driver.Common
import SSV.Model.SWF
import SSV.Model.UdpSession
import SSV.Model.UdpMulti
open SSV SSV.SWF SSV.UdpSession SSV.UdpMulti

/-- driver state: the filter under test (engine `swf`), a server and a client unpacker (engine `udpsess`) -/
structure DState where
  f : Filter
  srv : ServerState
  cli : ClientState
  tbl : Table
  tblSize : Nat

def b01 (s : String) : Option Bool :=
  if s == "1" then some true else if s == "0" then some false else none

def sidStr (s : Option Session) : String :=
  match s with | some x => toString x.sid | none => "-"

def stepSwf (f : Filter) (fs : List String) : Option (Filter × String) :=
  match fs with
  | ["new", n] => n.toNat?.map fun k => (new k, s!"ok {(new k).ring.length}")
  | ["add", n] => n.toNat?.map fun k => let (f', b) := add f k; (f', if b then "1" else "0")
  | ["isok", n] => n.toNat?.map fun k => (f, if isOk f k then "1" else "0")
  | ["check", n] => n.toNat?.map fun k => if isOk f k then (mustAdd f k, "1") else (f, "0")
  | ["mustadd", n] => n.toNat?.map fun k => (mustAdd f k, "ok")
  | ["reset"] => some (reset f, "ok")
  | ["state"] => some (f, s!"{f.last} {f.ring}")
  | _ => none

def optNat (s : String) : Option (Option Nat) :=
  if s == "-" then some none else s.toNat?.map some

def stepC04 (st : DState) (line : String) : DState × String :=
  match fields line with
  | ["eih", "new", n] => match n.toNat? with
      | some k => ({ st with tbl := emptyTable, tblSize := effectiveFilterSize k }, "ok")
      | none => (st, "bad-op")
  | ["eih", "pkt", now, sep, eih, eu, ku, long, sid, pid, hdr, typ, ts, pad, addr] =>
      match now.toNat?, b01 sep, b01 eih, optNat eu, optNat ku, b01 long, sid.toNat?, pid.toNat?, b01 hdr, typ.toNat?, ts.toNat?, b01 pad, b01 addr with
      | some now, some sep, some eih, some eu, some ku, some long, some sid, some pid, some hdr, some typ, some ts, some pad, some addr =>
        let e : EPacket := { sep := sep, eih := eih, eihUser := eu, keyUser := ku,
                             pkt := { long := long, sid := sid, pid := pid, authentic := false, hdr := hdr, typ := typ, ts := BitVec.ofNat 64 ts, csid := 0, padOk := pad, addrOk := addr } }
        let (t', r) := multiStep st.tblSize st.tbl now e
        let who := match t' sid with | some ent => toString ent.user | none => "-"
        ({ st with tbl := t' }, s!"{r.name} {who}")
      | _, _, _, _, _, _, _, _, _, _, _, _, _ => (st, "bad-op")
  | ["srv", "new", n] => match n.toNat? with
      | some k => ({ st with srv := serverInit (effectiveFilterSize k) }, "ok")
      | none => (st, "bad-op")
  | ["srv", "pkt", now, long, pid, auth, hdr, typ, ts, pad, addr] =>
      match now.toNat?, b01 long, pid.toNat?, b01 auth, b01 hdr, typ.toNat?, ts.toNat?, b01 pad, b01 addr with
      | some now, some long, some pid, some auth, some hdr, some typ, some ts, some pad, some addr =>
        let p : Packet := { long := long, sid := 0, pid := pid, authentic := auth, hdr := hdr, typ := typ, ts := BitVec.ofNat 64 ts, csid := 0, padOk := pad, addrOk := addr }
        let (s', r) := serverStep st.srv now p
        ({ st with srv := s' }, s!"{r.name} {if s'.filter.isSome then "filter" else "nofilter"}")
      | _, _, _, _, _, _, _, _, _ => (st, "bad-op")
  | ["cli", "new", n, csid] => match n.toNat?, csid.toNat? with
      | some k, some c => ({ st with cli := clientInit (effectiveFilterSize k) c }, "ok")
      | _, _ => (st, "bad-op")
  | ["cli", "pkt", now, long, sid, pid, auth, hdr, typ, ts, csid, pad, addr] =>
      match now.toNat?, b01 long, sid.toNat?, pid.toNat?, b01 auth, b01 hdr, typ.toNat?, ts.toNat?, csid.toNat?, b01 pad, b01 addr with
      | some now, some long, some sid, some pid, some auth, some hdr, some typ, some ts, some csid, some pad, some addr =>
        let p : Packet := { long := long, sid := sid, pid := pid, authentic := auth, hdr := hdr, typ := typ, ts := BitVec.ofNat 64 ts, csid := csid, padOk := pad, addrOk := addr }
        let (s', r) := clientStep st.cli now p
        ({ st with cli := s' }, s!"{r.name} {sidStr s'.cur} {sidStr s'.old}")
      | _, _, _, _, _, _, _, _, _, _, _ => (st, "bad-op")
  | fs => match stepSwf st.f fs with
      | some (f', o) => ({ st with f := f' }, o)
      | none => (st, "bad-op")

def main : IO Unit := Driver.run { f := new 1, srv := serverInit 1, cli := clientInit 1 0, tbl := emptyTable, tblSize := 1 } stepC04
