import Driver.Common
import SSV.Model.SWF
open SSV SSV.SWF

/-- driver state: the filter under test -/
def stepC04 (f : Filter) (line : String) : Filter × String :=
  match fields line with
  | ["new", n] => match n.toNat? with
      | some k => (new k, s!"ok {(new k).ring.length}")
      | none => (f, "bad-op")
  | ["add", n] => match n.toNat? with
      | some k => let (f', b) := add f k; (f', if b then "1" else "0")
      | none => (f, "bad-op")
  | ["isok", n] => match n.toNat? with
      | some k => (f, if isOk f k then "1" else "0")
      | none => (f, "bad-op")
  | ["check", n] => match n.toNat? with
      | some k => if isOk f k then (mustAdd f k, "1") else (f, "0")
      | none => (f, "bad-op")
  | ["mustadd", n] => match n.toNat? with
      | some k => (mustAdd f k, "ok")
      | none => (f, "bad-op")
  | ["reset"] => (reset f, "ok")
  | ["state"] => (f, s!"{f.last} {f.ring}")
  | _ => (f, "bad-op")

def main : IO Unit := Driver.run (new 1) stepC04
