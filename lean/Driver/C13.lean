import Driver.Common
import SSV.Model.TcpRelay
open SSV SSV.TcpRelay SSV.Gen.C13

/-
Line protocol of ssv_c13 (one line in, one line out):

  hc k=v k=v …      run `handleConn` on the described environment, answer the rendered action list
      sn dis           server native / wait disabled (0|1)
      buf              wait buffer size
      req              0: the handshake failed; 1: a request was returned
      addr user pay    request: target address, user name (`-` = none), payload (hex, `-` = empty)
      rerr             router error code (`-` = routed)
      cn               the routed client's NativeInitialPayload (0|1)
      pok sdl cdl      Proceed / SetReadDeadline / clearing the deadline succeed (0|1)
      cs ts            bytes the client / the target will send (hex)
      wk wn            wait read outcome: d(ata) e(of) t(imeout) x(error), byte count
      derr             dial error code (`-` = connected)
      sched            `auto` (= aL,eL,aR,eR) or a comma list of cL<k> cR<k> eL eR fL fR aL aR uL<U> wL<k> wR<k> (write limit: k bytes, then the write fails if more was due)
  native server|client <proto> <tfo>   the regenerated NativeInitialPayload table
  consts             `<defaultInitialPayloadWaitTimeout ns> <defaultInitialPayloadWaitBufferSize>`
  copy cs=… ts=… sched=…   run the two copy loops alone, answer the final state
-/

def kv (fs : List String) (k : String) : Option String :=
  fs.findSome? (fun f => if f.startsWith (k ++ "=") then some (f.drop (k.length + 1)).toString else none)

def flag (fs : List String) (k : String) : Option Bool :=
  match kv fs k with
  | some "1" => some true
  | some "0" => some false
  | _ => none

def optCode (fs : List String) (k : String) : Option (Option Nat) :=
  match kv fs k with
  | some "-" => some none
  | some s => s.toNat?.map some
  | none => none

def parseSide (c : Char) : Option Side :=
  if c == 'L' then some .left else if c == 'R' then some .right else none

/-- schedule tokens: cL<k> cR<k> eL eR fL fR as labels; aL / aR = one chunk with everything the loop still has to read;
uL<U> = one chunk on the left loop that brings the total uplink (DialStream payload + copied) to U bytes -/
def parseLabel (s : String) (leftTodo rightTodo paylen : Nat) : Option Label :=
  match s.toList with
  | ['a', 'L'] => some (.chunk .left leftTodo)
  | ['a', 'R'] => some (.chunk .right rightTodo)
  | 'w' :: sd :: rest => do
    -- a write limit: the loop delivers at most w bytes; if it has more to deliver the write fails (handled in parseSched)
    let side ← parseSide sd
    let w ← (String.ofList rest).toNat?
    pure (.chunk side (min w (match side with | .left => leftTodo | .right => rightTodo)))
  | 'u' :: 'L' :: rest => do
    let u ← (String.ofList rest).toNat?
    pure (.chunk .left (u - paylen))
  | 'c' :: sd :: rest => do
    let side ← parseSide sd
    let k ← (String.ofList rest).toNat?
    pure (.chunk side k)
  | ['e', sd] => (parseSide sd).map .eof
  | ['f', sd] => (parseSide sd).map .fail
  | _ => none

def parseSched (s : String) (leftTodo rightTodo paylen : Nat) : Option (List Label) :=
  if s == "-" then some []
  else do
    let toks := (if s == "auto" then "aL,eL,aR,eR" else s).splitOn ","
    let ls ← toks.mapM (fun t => do
      let l ← parseLabel t leftTodo rightTodo paylen
      -- w<side><k> with k below what the loop has to deliver: the chunk of k bytes, then the failing write
      match t.toList with
      | 'w' :: sd :: rest =>
        let side ← parseSide sd
        let w ← (String.ofList rest).toNat?
        let todo := match side with | .left => leftTodo | .right => rightTodo
        pure (if w < todo then [l, Label.fail side] else [l])
      | _ => pure [l])
    pure ls.flatten

def parseKind : String → Option ReadKind
  | "d" => some .data
  | "e" => some .eof
  | "t" => some .timeout
  | "x" => some .error
  | _ => none

def parseEnv (fs : List String) : Option Env := do
  let sn ← flag fs "sn"
  let dis ← flag fs "dis"
  let buf ← (← kv fs "buf").toNat?
  let hasReq ← flag fs "req"
  let addr ← kv fs "addr"
  let user ← kv fs "user"
  let pay ← ofHex? (← kv fs "pay")
  let rerr ← optCode fs "rerr"
  let cn ← flag fs "cn"
  let pok ← flag fs "pok"
  let sdl ← flag fs "sdl"
  let cdl ← flag fs "cdl"
  let cs ← ofHex? (← kv fs "cs")
  let ts ← ofHex? (← kv fs "ts")
  let wk ← parseKind (← kv fs "wk")
  let wn ← (← kv fs "wn").toNat?
  let derr ← optCode fs "derr"
  let e0 : Env := { serverNative := sn, waitDisabled := dis, bufSize := buf,
                    req := if hasReq then some { addr := addr, payload := pay, user := if user == "-" then "" else user } else none,
                    routeErr := rerr, clientNative := cn, proceedOk := pok, setDeadlineOk := sdl,
                    clientStream := cs, waitKind := wk, waitN := wn, clearDeadlineOk := cdl,
                    dialErr := derr, targetStream := ts, sched := [] }
  -- what the left loop has to read and what DialStream carries depend on the wait decision (closed form `waits`,
  -- proved equal to the interpreted condition in SSV.Proofs.TcpRelay.handleConn_cases)
  let w := hasReq && waits e0 { addr := addr, payload := pay, user := "" }
  -- trunc=1: an EOF that comes with the wait read ends the client's stream there (what a real connection would do)
  let cs := if w && wk == .eof && (kv fs "trunc") == some "1" then cs.take (waitBytes e0) else cs
  let e0 := { e0 with clientStream := cs }
  let consumed := if w then waitBytes e0 else 0
  let paylen := if w then waitBytes e0 else pay.length
  let sched ← parseSched (← kv fs "sched") (cs.length - consumed) ts.length paylen
  pure { e0 with sched := sched }

def nativeOf (tbl : List (String × Native)) (proto : String) (tfo : Bool) : String :=
  match tbl.lookup proto with
  | some (.const b) => if b then "1" else "0"
  | some .tfo => if tfo then "1" else "0"
  | none => "unknown"

def b01 (b : Bool) : String := if b then "1" else "0"

def stepC13 (u : Unit) (line : String) : Unit × String :=
  match fields line with
  | "hc" :: fs =>
    match parseEnv fs with
    | some e => (u, renderTrace (handleConn e))
    | none => (u, "bad-op")
  | ["native", "server", proto, tfo] => (u, nativeOf serverNative proto (tfo == "1"))
  | ["native", "client", proto, tfo] => (u, nativeOf clientNative proto (tfo == "1"))
  | ["consts"] => (u, s!"{defaultInitialPayloadWaitTimeout} {defaultInitialPayloadWaitBufferSize}")
  | "copy" :: fs =>
    match (do
      let cs ← ofHex? (← kv fs "cs")
      let ts ← ofHex? (← kv fs "ts")
      let sched ← parseSched (← kv fs "sched") cs.length ts.length 0
      pure (runSched (CopySt.init cs ts) sched)) with
    | some c => (u, s!"rxR={toHexField c.rxR} rxL={toHexField c.rxL} cwR={b01 c.cwR} cwL={b01 c.cwL} doneL={b01 c.doneL} doneR={b01 c.doneR} failL={b01 c.failL} failR={b01 c.failR} nL={c.nL} nR={c.nR}")
    | none => (u, "bad-op")
  | _ => (u, "bad-op")

def main : IO Unit := Driver.run () stepC13
