import Driver.Common
import SSV.Model.TcpRelay
open SSV SSV.TcpRelay SSV.Gen.C13

/-
Line protocol of ssv_c13 (one line in, one line out):

  hc k=v k=v …      run `handleConn` on the described environment, answer the rendered action list
      sn dis           server native / wait disabled (0|1)
      buf              wait buffer size
      req              0: the handshake failed; 1: a request was returned
      addr user pay    request: target address, user name (`-` = none), payload (hex, `-` = empty)
      rerr             router error code (`-` = routed)
      cn               the routed client's NativeInitialPayload (0|1)
      pok sdl cdl      Proceed / SetReadDeadline / clearing the deadline succeed (0|1)
      cs ts            bytes the client / the target will send (hex)
      wk wn            wait read outcome: d(ata) e(of) t(imeout) x(error), byte count
      derr             dial error code (`-` = connected)
      sched            `auto` (a complete schedule) or a comma list of cL<k> cR<k> eL eR fL fR
  native server|client <proto> <tfo>   the regenerated NativeInitialPayload table
  consts             `<defaultInitialPayloadWaitTimeout ns> <defaultInitialPayloadWaitBufferSize>`
  copy cs=… ts=… sched=…   run the two copy loops alone, answer the final state
-/

def kv (fs : List String) (k : String) : Option String :=
  fs.findSome? (fun f => if f.startsWith (k ++ "=") then some (f.drop (k.length + 1)).toString else none)

def flag (fs : List String) (k : String) : Option Bool :=
  match kv fs k with
  | some "1" => some true
  | some "0" => some false
  | _ => none

def optCode (fs : List String) (k : String) : Option (Option Nat) :=
  match kv fs k with
  | some "-" => some none
  | some s => s.toNat?.map some
  | none => none

def parseSide (c : Char) : Option Side :=
  if c == 'L' then some .left else if c == 'R' then some .right else none

def parseLabel (s : String) : Option Label :=
  match s.toList with
  | 'c' :: sd :: rest => do
    let side ← parseSide sd
    let k ← (String.ofList rest).toNat?
    pure (.chunk side k)
  | ['e', sd] => (parseSide sd).map .eof
  | ['f', sd] => (parseSide sd).map .fail
  | _ => none

def parseSched (s : String) (cs ts : Bytes) (wb : Nat) : Option (List Label) :=
  if s == "auto" then
    some [.chunk .left (cs.length - wb), .chunk .left wb, .chunk .left cs.length, .eof .left,
          .chunk .right ts.length, .eof .right]
  else if s == "-" then some []
  else (s.splitOn ",").mapM parseLabel

def parseKind : String → Option ReadKind
  | "d" => some .data
  | "e" => some .eof
  | "t" => some .timeout
  | "x" => some .error
  | _ => none

def parseEnv (fs : List String) : Option Env := do
  let sn ← flag fs "sn"
  let dis ← flag fs "dis"
  let buf ← (← kv fs "buf").toNat?
  let hasReq ← flag fs "req"
  let addr ← kv fs "addr"
  let user ← kv fs "user"
  let pay ← ofHex? (← kv fs "pay")
  let rerr ← optCode fs "rerr"
  let cn ← flag fs "cn"
  let pok ← flag fs "pok"
  let sdl ← flag fs "sdl"
  let cdl ← flag fs "cdl"
  let cs ← ofHex? (← kv fs "cs")
  let ts ← ofHex? (← kv fs "ts")
  let wk ← parseKind (← kv fs "wk")
  let wn ← (← kv fs "wn").toNat?
  let derr ← optCode fs "derr"
  let e0 : Env := { serverNative := sn, waitDisabled := dis, bufSize := buf,
                    req := if hasReq then some { addr := addr, payload := pay, user := if user == "-" then "" else user } else none,
                    routeErr := rerr, clientNative := cn, proceedOk := pok, setDeadlineOk := sdl,
                    clientStream := cs, waitKind := wk, waitN := wn, clearDeadlineOk := cdl,
                    dialErr := derr, targetStream := ts, sched := [] }
  let sched ← parseSched (← kv fs "sched") cs ts (waitBytes e0)
  pure { e0 with sched := sched }

def nativeOf (tbl : List (String × Native)) (proto : String) (tfo : Bool) : String :=
  match tbl.lookup proto with
  | some (.const b) => if b then "1" else "0"
  | some .tfo => if tfo then "1" else "0"
  | none => "unknown"

def b01 (b : Bool) : String := if b then "1" else "0"

def stepC13 (u : Unit) (line : String) : Unit × String :=
  match fields line with
  | "hc" :: fs =>
    match parseEnv fs with
    | some e => (u, renderTrace (handleConn e))
    | none => (u, "bad-op")
  | ["native", "server", proto, tfo] => (u, nativeOf serverNative proto (tfo == "1"))
  | ["native", "client", proto, tfo] => (u, nativeOf clientNative proto (tfo == "1"))
  | ["consts"] => (u, s!"{defaultInitialPayloadWaitTimeout} {defaultInitialPayloadWaitBufferSize}")
  | "copy" :: fs =>
    match (do
      let cs ← ofHex? (← kv fs "cs")
      let ts ← ofHex? (← kv fs "ts")
      let sched ← parseSched (← kv fs "sched") cs ts 0
      pure (runSched (CopySt.init cs ts) sched)) with
    | some c => (u, s!"rxR={toHexField c.rxR} rxL={toHexField c.rxL} cwR={b01 c.cwR} cwL={b01 c.cwL} doneL={b01 c.doneL} doneR={b01 c.doneR} failL={b01 c.failL} failR={b01 c.failR} nL={c.nL} nR={c.nR}")
    | none => (u, "bad-op")
  | _ => (u, "bad-op")

def main : IO Unit := Driver.run () stepC13
