import SSV.Base.Util
/-
Line-protocol loop shared by all drivers: one operation per input line,
exactly one output line per input line, flushed, until end of input.
-/
namespace Driver

partial def loop {σ : Type} (inp out : IO.FS.Stream) (st : σ)
    (step : σ → String → σ × String) : IO Unit := do
  let line ← inp.getLine
  if line.isEmpty then return ()
  let (st', o) := step st line
  out.putStrLn o
  out.flush
  loop inp out st' step

def run {σ : Type} (init : σ) (step : σ → String → σ × String) : IO Unit := do
  loop (← IO.getStdin) (← IO.getStdout) init step

end Driver
