import Driver.Common
import SSV.Model.Packet
import SSV.Model.PacketLimit
import SSV.Model.PacketHistory
import SSV.Model.PacketRefused
open SSV SSV.Packet

/-! Line-protocol driver of the C05 packet model.  State: the current buffer and a saved wire packet. -/

structure St where
  buf : Bytes := []
  wire : Bytes := []
  shared : Bytes := []                 -- the reused packet buffer of a history
  cache : DomainCache := []            -- the server unpacker's DomainCache
  res : ResState := ⟨[], none⟩         -- the direct packer's resolver cache
  cu : CUState := {}                   -- the ss2022 client unpacker's session state

def canary (seed i : Nat) : UInt8 := UInt8.ofNat (i * 167 + (i / 256) * 13 + seed)
def payByte (seed j : Nat) : UInt8 := UInt8.ofNat (j * 59 + (j / 256) * 7 + seed * 3 + 101)

def arg (fs : List String) (k : String) : Option String :=
  (fs.find? (fun f => f.startsWith (k ++ "="))).map (fun f => (f.drop (k.length + 1)).toString)

def argNat (fs : List String) (k : String) : Option Nat := (arg fs k).bind (·.toNat?)
def argInt (fs : List String) (k : String) : Option Int := (arg fs k).bind (·.toInt?)
def argHex (fs : List String) (k : String) : Option Bytes := (arg fs k).bind ofHex?

def parseIP (s : String) : Option IP :=
  match s.splitOn ":" with
  | ["4", h] => (ofHex? h).map .v4
  | ["6", h] => (ofHex? h).map .v6
  | _ => none

def parseAddrPort (s : String) : Option AddrPort :=
  match s.splitOn ":" with
  | ["4", h, p] => do pure ⟨.v4 (← ofHex? h), ← p.toNat?⟩
  | ["6", h, p] => do pure ⟨.v6 (← ofHex? h), ← p.toNat?⟩
  | _ => none

def parseAddr (s : String) : Option Addr :=
  match s.splitOn ":" with
  | ["z"] => some .zero
  | ["d", h, p] => do pure (.dom (← ofHex? h) (← p.toNat?))
  | _ => (parseAddrPort s).map .ip

def showAddrPort (a : AddrPort) : String :=
  match a.ip with
  | .v4 x => s!"4:{toHexField x}:{a.port}"
  | .v6 x => s!"6:{toHexField x}:{a.port}"

def showAddr : Addr → String
  | .zero => "z"
  | .ip ap => showAddrPort ap
  | .dom n p => s!"d:{toHexField n}:{p}"

def parsePolicy : String → Option Policy
  | "n" => some .noPadding
  | "d" => some .padPlainDNS
  | "a" => some .padAll
  | _ => none

def parseProto (s : String) : Option Proto :=
  match s.splitOn ":" with
  | ["direct"] => some .direct
  | ["none"] => some .none
  | ["socks5"] => some .socks5
  | ["ss", k] => k.toNat?.map .ss2022
  | _ => none

def showErr : Err → String
  | .tooBig => "tooBig" | .tooSmall => "tooSmall" | .incomplete => "incomplete" | .typeMismatch => "typeMismatch"
  | .badTimestamp => "badTimestamp" | .csidMismatch => "csidMismatch" | .addr => "addr" | .frag => "frag"
  | .source => "source" | .aeadOpen => "open" | .userNotFound => "userNotFound" | .resolve => "resolve"
  | .tooManySessions => "tooManySessions" | .replay => "replay"

def h (bs : Bytes) : String := toString (fnv64 bs).toNat

/-- split the hashes of identity headers (16 bytes each) and pair them with the toy identity keys -/
def eihOf (hashes : Bytes) : List (Bytes × Bytes) :=
  (List.range (hashes.length / 16)).map (fun i => ([UInt8.ofNat (10 + i)], sub hashes (16 * i) 16))

def userBlock : Bytes := [1]
def aeadKey : Bytes := [2]
/-- the block key of the server side: the first identity key when the client uses identity headers -/
def blockFor (idh : Nat) : Bytes := if idh = 0 then userBlock else [10]

/-- `ws`/`we`: an earlier packet window (relay: the receive window) whose bytes depend on the cipher;
the compared prefix/suffix hashes stay outside both windows. -/
def outPacked (st : St) (fs : List String) (o : Outcome Packed) : St × String :=
  match o with
  | .ok r =>
    let ps := r.packetStart.toNat
    let pl := r.packetLen.toNat
    let lo := match argNat fs "ws" with | some w => min w ps | none => ps
    let hi := match argNat fs "we" with | some w => max w (ps + pl) | none => ps + pl
    ({ st with buf := r.buf }, s!"ok {r.packetStart} {r.packetLen} {h r.view} {h (r.buf.take lo)} {h (r.buf.drop hi)}")
  | .err e => (st, s!"err {showErr e}")
  | .panic => (st, "panic")
  | .noRoom => (st, "noRoom")

def outUnpacked {α : Type} (sh : α → String) (st : St) (fs : List String) (ps pl : Nat) (o : Outcome (Unpacked α)) : St × String :=
  match o with
  | .ok r =>
    let lo := match argNat fs "ws" with | some w => min w ps | none => ps
    let hi := match argNat fs "we" with | some w => max w (ps + pl) | none => ps + pl
    ({ st with buf := r.buf },
      s!"ok {sh r.addr} {r.payloadStart} {r.payloadLen} {h (sub r.buf r.payloadStart.toNat r.payloadLen.toNat)} {h (r.buf.take lo)} {h (r.buf.drop hi)}")
  | .err e => (st, s!"err {showErr e}")
  | .panic => (st, "panic")
  | .noRoom => (st, "noRoom")

/-- a refused none / SOCKS5 pack still wrote its header: report (and keep) the buffer it leaves -/
def outRefused (st : St) (fs : List String) (o : Outcome Packed) (refused : Bytes) : St × String :=
  match o with
  | .err e =>
    -- in the relay flows (`ws=` given) the buffer holds cipher-dependent leftovers: no whole-buffer comparison there
    if (arg fs "ws").isSome then ({ st with buf := refused }, s!"err {showErr e}")
    else ({ st with buf := refused }, s!"err {showErr e} {h refused}")
  | _ => outPacked st fs o

def showHeadroom (x : Headroom) : String := s!"{x.front} {x.rear}"

def stepPack (st : St) (kind : String) (fs : List String) : Option (St × String) := do
  let start ← argNat fs "start"
  let len ← argNat fs "len"
  match kind with
  | "ssc" =>
    let r := ssClientPack toyCrypto userBlock aeadKey (eihOf (← argHex fs "eih")) (← argInt fs "mps") (← (arg fs "pol").bind parsePolicy)
      st.buf (← (arg fs "addr").bind parseAddr) start len (← argNat fs "rand") (← argHex fs "ts") (← argHex fs "sid") (← argHex fs "pid")
    pure (outPacked st fs r)
  | "sss" =>
    let r := ssServerPack toyCrypto userBlock aeadKey (← (arg fs "pol").bind parsePolicy) st.buf
      (← (arg fs "src").bind parseAddrPort) start len (← argInt fs "max") (← argNat fs "rand") (← argHex fs "ts")
      (← argHex fs "ssid") (← argHex fs "spid") (← argHex fs "csid")
    pure (outPacked st fs r)
  | "nonec" =>
    let a ← (arg fs "addr").bind parseAddr
    pure (outRefused st fs (plainClientPack false (← argInt fs "limit") st.buf a start len) (plainClientPackRefusedBuf false st.buf a start))
  | "socks5c" =>
    let a ← (arg fs "addr").bind parseAddr
    pure (outRefused st fs (plainClientPack true (← argInt fs "limit") st.buf a start len) (plainClientPackRefusedBuf true st.buf a start))
  | "nones" =>
    let a ← (arg fs "src").bind parseAddrPort
    pure (outRefused st fs (plainServerPack false st.buf a start len (← argInt fs "max")) (plainServerPackRefusedBuf false st.buf a start))
  | "socks5s" =>
    let a ← (arg fs "src").bind parseAddrPort
    pure (outRefused st fs (plainServerPack true st.buf a start len (← argInt fs "max")) (plainServerPackRefusedBuf true st.buf a start))
  | "directc" =>
    let res ← arg fs "res"
    let res? ← (if res == "-" then some none else (parseIP res).map some)
    pure (outPacked st fs (directClientPack (← argInt fs "mtu") res? st.buf (← (arg fs "addr").bind parseAddr) start len))
  | "directh" =>
    let resArg ← arg fs "res"
    let res? ← (if resArg == "-" then some none else (parseIP resArg).map some)
    let r := directClientPackS SSV.Gen.C05.updateDomainIPCacheProg (← argInt fs "mtu") res? st.res (← (arg fs "addr").bind parseAddr) start len
    let out := match r.2 with
      | .ok p => s!"ok {p.packetStart} {p.packetLen} {match p.dest with | some (.v4 x) => "4:" ++ toHexField x | some (.v6 x) => "6:" ++ toHexField x | none => "-"}"
      | .err e => s!"err {showErr e}"
      | .panic => "panic"
      | .noRoom => "noRoom"
    pure ({ st with res := r.1 }, out)
  | "directs" =>
    pure (outPacked st fs (directServerPack (← (arg fs "target").bind parseAddr) ((← argNat fs "only") == 1) st.buf
      (← (arg fs "src").bind parseAddrPort) start len (← argInt fs "max")))
  | _ => none

def stepUnpack (st : St) (kind : String) (fs : List String) : Option (St × String) := do
  let start ← argNat fs "start"
  let len ← argNat fs "len"
  match kind with
  | "sss" =>
    let idh ← argNat fs "idh"
    let lookup := (← argNat fs "lookup") == 1
    -- the user table of a multi-user server: the other users (each with its own session key) and the client's user
    let others : Bytes := (argHex fs "others").getD []
    let otherUsers : List (Bytes × Bytes) := (List.range (others.length / 16)).map (fun i => (sub others (16 * i) 16, [9, UInt8.ofNat i]))
    let upos := (argNat fs "upos").getD 0
    let users : List (Bytes × Bytes) := otherUsers.take upos ++ [((← argHex fs "uhash"), aeadKey)] ++ otherUsers.drop upos
    let r := ssServerUnpackC st.cache toyCrypto (blockFor idh) aeadKey idh lookup users (← argInt fs "now") st.buf start len
    pure (outUnpacked showAddr { st with cache := r.1 } fs start len r.2)
  | "sscs" =>
    -- the stateful client unpacker (one instance per session); every server session uses the toy session key
    let r := ssClientUnpackS toyCrypto userBlock (fun _ => aeadKey) (← argHex fs "csid") (← argInt fs "now") st.cu st.buf start len
    pure (outUnpacked showAddrPort { st with cu := r.1 } fs start len r.2)
  | "ssc" =>
    pure (outUnpacked showAddrPort st fs start len
      (ssClientUnpack toyCrypto userBlock aeadKey (← argHex fs "csid") (← argInt fs "now") st.buf start len))
  | "nones" =>
    let r := plainServerUnpackC st.cache false st.buf start len
    pure (outUnpacked showAddr { st with cache := r.1 } fs start len r.2)
  | "socks5s" =>
    let r := plainServerUnpackC st.cache true st.buf start len
    pure (outUnpacked showAddr { st with cache := r.1 } fs start len r.2)
  | "nonec" =>
    pure (outUnpacked showAddrPort st fs start len
      (plainClientUnpack false (← (arg fs "server").bind parseAddrPort) (← (arg fs "from").bind parseAddrPort) st.buf start len))
  | "socks5c" =>
    pure (outUnpacked showAddrPort st fs start len
      (plainClientUnpack true (← (arg fs "server").bind parseAddrPort) (← (arg fs "from").bind parseAddrPort) st.buf start len))
  | "directs" => pure (outUnpacked showAddr st fs start len (directServerUnpack (← (arg fs "target").bind parseAddr) st.buf start len))
  | "directc" => pure (outUnpacked showAddrPort st fs start len (directClientUnpack (← (arg fs "from").bind parseAddrPort) st.buf start len))
  | _ => none

def stepOpt (st : St) (fs : List String) : Option (St × String) :=
  match fs with
  | ["buf", n, seed] => do
    let n ← n.toNat?
    let seed ← seed.toNat?
    pure ({ st with buf := (List.range n).map (canary seed) }, "ok")
  | ["fill", start, len, seed] => do
    let start ← start.toNat?
    let len ← len.toNat?
    let seed ← seed.toNat?
    if start + len > st.buf.length then pure (st, "panic")
    else pure ({ st with buf := splice st.buf start ((List.range len).map (payByte seed)) }, "ok")
  | ["stash"] => pure ({ st with shared := st.buf }, "ok")
  | ["unstash"] => pure ({ st with buf := st.shared }, "ok")
  | ["newsession"] => pure ({ st with cache := [], res := ⟨[], none⟩, cu := {} }, "ok")
  | ["take", start, len] => do
    let start ← start.toNat?
    let len ← len.toNat?
    if start + len > st.buf.length then pure (st, "panic")
    else pure ({ st with wire := sub st.buf start len }, "ok")
  | ["put", start] => do
    let start ← start.toNat?
    if start + st.wire.length > st.buf.length then pure (st, "panic")
    else pure ({ st with buf := splice st.buf start st.wire }, "ok")
  | ["set", start, hex] => do
    let start ← start.toNat?
    let d ← ofHex? hex
    if start + d.length > st.buf.length then pure (st, "panic")
    else pure ({ st with buf := splice st.buf start d }, "ok")
  | ["get", start, len] => do
    let start ← start.toNat?
    let len ← len.toNat?
    pure (st, toHexField (sub st.buf start len))
  | ["hash", start, len] => do
    let start ← start.toNat?
    let len ← len.toNat?
    pure (st, h (sub st.buf start len))
  | "pack" :: kind :: rest => stepPack st kind rest
  | "unpack" :: kind :: rest => stepUnpack st kind rest
  | ["headroom", role, proto] => do
    let p ← parseProto proto
    match role with
    | "cp" => pure (st, showHeadroom (clientPackerHeadroom p))
    | "su" => pure (st, showHeadroom (serverUnpackerHeadroom p))
    | "sp" => pure (st, showHeadroom (serverPackerHeadroom p))
    | "cu" => pure (st, showHeadroom (clientUnpackerHeadroom p))
    | _ => none
  | "layout" :: "up" :: rest => do
    let l := uplinkLayout (← argInt rest "mtu") ⟨← argInt rest "cf", ← argInt rest "cr"⟩ (← (arg rest "server").bind parseProto)
    pure (st, s!"{l.front} {l.recvSize} {l.bufSize}")
  | "layout" :: "down" :: rest => do
    let l := downlinkLayout ((← argNat rest "session") == 1) (← argInt rest "recv") (← (arg rest "server").bind parseProto)
      (← (arg rest "client").bind parseProto)
    pure (st, s!"{l.front} {l.recvSize} {l.bufSize}")
  | "maxheadroom" :: rest => do
    let m := maxHeadroom ⟨← argInt rest "af", ← argInt rest "ar"⟩ ⟨← argInt rest "bf", ← argInt rest "br"⟩
    pure (st, showHeadroom m)
  | "limit" :: rest => do
    let prog ← (match arg rest "prog" with
      | some "g" => some SSV.Gen.C05.sessionRefreshGeneric
      | some "m" => some SSV.Gen.C05.sessionRefreshMmsg
      | _ => none)
    let a0 ← (arg rest "a0").bind parseAddrPort
    let evs ← arg rest "ev"
    let events ← (if evs == "-" then some [] else (evs.splitOn ",").mapM parseAddrPort)
    let stl := limRun (← argInt rest "mtu") prog a0 events
    pure (st, s!"{stl.limit} {showAddrPort stl.dest}")
  | ["mps", mtu, fam] => do
    let mtu ← mtu.toInt?
    pure (st, toString (SSV.Gen.C05.maxPacketSizeForAddr mtu (fam == "4")))
  | _ => none

def stepC05 (st : St) (line : String) : St × String :=
  match stepOpt st (fields line) with
  | some r => r
  | none => (st, "bad-op")

def main : IO Unit := Driver.run ({} : St) stepC05
