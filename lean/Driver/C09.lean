import Driver.Common
import SSV.Model.Router
open SSV SSV.Router

/-
Line protocol of ssv_c09 (one answer line per input line):
  reset
  env geoip=0 resolvers=r1,r2 rmap=r1,r2 tcp=a,b udp=a servers=s0,s1 dsets=d1 psets=p1 deftcp=x defudp=y
  res <resolver> <domain> a4:<n> | a6:<n> | l | f:<tag>       resolver behaviour (default: l = ErrLookup)
  dset <name> <domain,...>                                   domains of the universe that the named set matches
  pset <name> <prefix,...>                                   prefixes of the named prefix set (4:<n>/<bits>)
  route name=.. net=.. client=.. resolver=.. fs=.. fu=.. fp=.. fpr=.. fx=.. fxs=.. fg=.. tp=.. tpr=.. td=.. tds=..
        ex=.. exs=.. eg=.. tx=.. txs=.. tg=.. flags=<letters>
  build                                                     -> ok | err <class>
  req net=tcp srv=0 user=u src=4:<n> sport=1 dip=4:<n> | ddom=<name> dport=80
                                                            -> client <name> @<route> | rejected @<route> | err <class> | panic      (fpr/tpr: the range string in hex)
-/

structure St where
  env : Env := {}
  cfg : Config := {}
  resTab : List (String × String × LookupRes) := []
  dsetTab : List (String × List String) := []
  psetTab : List (String × List Prefix) := []
  router : Option Router := none

def splitComma (s : String) : List String :=
  if s.isEmpty then [] else (s.splitOn ",")

def kv (tok : String) : String × String :=
  match tok.splitOn "=" with
  | [] => ("", "")
  | [k] => (k, "")
  | k :: rest => (k, "=".intercalate rest)

def lookupKV (kvs : List (String × String)) (k : String) : String :=
  match kvs.find? (fun x => x.1 == k) with
  | some x => x.2
  | none => ""

def parseIP (s : String) : Option IP :=
  match s.splitOn ":" with
  | ["4", n] => n.toNat?.map IP.v4
  | ["6", n] => n.toNat?.map IP.v6
  | _ => none

def parsePrefix (s : String) : Option Prefix :=
  match s.splitOn "/" with
  | [a, b] => do
    let ip ← parseIP a
    let bits ← b.toNat?
    pure ⟨ip, bits⟩
  | _ => none

/-- a port-range string travels as hex (it may hold any bytes); absent = empty -/
def parseRangeStr (s : String) : Option (List UInt8) :=
  if s.isEmpty then some [] else ofHex? s

def parseLookupRes (s : String) : Option LookupRes :=
  if s == "l" then some .errLookup
  else if s.startsWith "f:" then some (.fail (s.drop 2).toString)
  else if s.startsWith "a" then (parseIP (s.drop 1).toString).map LookupRes.addr
  else none

def allSome {α : Type} : List (Option α) → Option (List α)
  | [] => some []
  | none :: _ => none
  | some a :: r => (allSome r).map (a :: ·)

def parseRoute (kvs : List (String × String)) : Option RouteConfig := do
  let g := lookupKV kvs
  let flags := (g "flags").toList
  let f (c : Char) : Bool := flags.contains c
  let fp ← allSome ((splitComma (g "fp")).map String.toNat?)
  let tp ← allSome ((splitComma (g "tp")).map String.toNat?)
  let fpr ← parseRangeStr (g "fpr")
  let tpr ← parseRangeStr (g "tpr")
  let fx ← allSome ((splitComma (g "fx")).map parsePrefix)
  let ex ← allSome ((splitComma (g "ex")).map parsePrefix)
  let tx ← allSome ((splitComma (g "tx")).map parsePrefix)
  pure {
    name := g "name", network := g "net", client := g "client", resolver := g "resolver",
    fromServers := splitComma (g "fs"), fromUsers := splitComma (g "fu"),
    fromPorts := fp, fromPortRanges := fpr, fromPrefixes := fx, fromPrefixSets := splitComma (g "fxs"),
    fromGeoIPCountries := splitComma (g "fg"),
    toPorts := tp, toPortRanges := tpr, toDomains := splitComma (g "td"), toDomainSets := splitComma (g "tds"),
    toMatchedDomainExpectedPrefixes := ex, toMatchedDomainExpectedPrefixSets := splitComma (g "exs"),
    toMatchedDomainExpectedGeoIPCountries := splitComma (g "eg"),
    toPrefixes := tx, toPrefixSets := splitComma (g "txs"), toGeoIPCountries := splitComma (g "tg"),
    disableNameResolutionForIPRules := f 'd',
    invertFromServers := f 's', invertFromUsers := f 'u', invertFromPrefixes := f 'x',
    invertFromGeoIPCountries := f 'g', invertFromPorts := f 'p', invertToDomains := f 'D',
    invertToMatchedDomainExpectedPrefixes := f 'E', invertToMatchedDomainExpectedGeoIPCountries := f 'H',
    invertToPrefixes := f 'X', invertToGeoIPCountries := f 'G', invertToPorts := f 'P' }

def St.params (st : St) : Params where
  resolve r d := match st.resTab.find? (fun x => x.1 == r && x.2.1 == d) with
    | some x => x.2.2
    | none => .errLookup
  domSet n d := match st.dsetTab.find? (fun x => x.1 == n) with
    | some x => x.2.contains d
    | none => false
  pfxSet n a := match st.psetTab.find? (fun x => x.1 == n) with
    | some x => x.2.any (fun pf => pf.contains a)
    | none => false
  pfx pf a := pf.contains a
  country _ := none

def buildErrName : BuildErr → String
  | .badName => "badName" | .geoipNoDb => "geoipNoDb" | .noResolvers => "noResolvers"
  | .noDomainCriteria => "noDomainCriteria" | .resolverNotFound => "resolverNotFound" | .badNetwork => "badNetwork"
  | .tcpClientNotFound => "tcpClientNotFound" | .udpClientNotFound => "udpClientNotFound"
  | .serverNotFound => "serverNotFound" | .badFromPorts => "badFromPorts" | .badFromPortRanges => "badFromPortRanges"
  | .pointlessFromPorts => "pointlessFromPorts" | .badToPorts => "badToPorts" | .badToPortRanges => "badToPortRanges"
  | .pointlessToPorts => "pointlessToPorts" | .prefixSetNotFound => "prefixSetNotFound"
  | .domainSetNotFound => "domainSetNotFound" | .unreachable => "unreachable"
  | .defaultTCPNotFound => "defaultTCPNotFound" | .defaultUDPNotFound => "defaultUDPNotFound"

def resName : Res → String
  | .client c => s!"client {c}"
  | .rejected => "rejected"
  | .error .noAvailableResolvers => "err noAvailableResolvers"
  | .error (.resolver t) => s!"err resolver:{t}"
  | .error .geoip => "err geoip"
  | .panic => "panic"

def parseReq (kvs : List (String × String)) : Option Req := do
  let g := lookupKV kvs
  let net ← (if g "net" == "tcp" then some Net.tcp else if g "net" == "udp" then some Net.udp else none)
  let srv ← (g "srv").toNat?
  let src ← parseIP (g "src")
  let sport ← (g "sport").toNat?
  let dport ← (g "dport").toNat?
  let target ← (if g "ddom" != "" then some (Target.domain (g "ddom")) else (parseIP (g "dip")).map Target.ip)
  -- the user name travels as hex in `userx` (it may hold spaces or control characters)
  let user ← (if g "userx" == "" then some (g "user")
              else (ofHex? (g "userx")).bind (fun bs => String.fromUTF8? ⟨bs.toArray⟩))
  pure { net := net, server := srv, user := user, srcIP := src, srcPort := sport, target := target, dstPort := dport }

def stepC09 (st : St) (line : String) : St × String :=
  match fields line with
  | ["reset"] => ({}, "ok")
  | "env" :: toks =>
    let g := lookupKV (toks.map kv)
    ({ st with
        env := { hasGeoip := g "geoip" == "1", resolvers := splitComma (g "resolvers"), resolverMap := splitComma (g "rmap"), tcpClients := splitComma (g "tcp"),
                 udpClients := splitComma (g "udp"), servers := splitComma (g "servers"), domSets := splitComma (g "dsets"),
                 pfxSets := splitComma (g "psets") },
        cfg := { st.cfg with defaultTCPClientName := g "deftcp", defaultUDPClientName := g "defudp" } }, "ok")
  | ["res", r, d, v] =>
    match parseLookupRes v with
    | some x => ({ st with resTab := (r, d, x) :: st.resTab }, "ok")
    | none => (st, "bad-op")
  | ["dset", n] => ({ st with dsetTab := (n, []) :: st.dsetTab }, "ok")
  | ["dset", n, ds] => ({ st with dsetTab := (n, splitComma ds) :: st.dsetTab }, "ok")
  | ["pset", n] => ({ st with psetTab := (n, []) :: st.psetTab }, "ok")
  | ["pset", n, ps] =>
    match allSome ((splitComma ps).map parsePrefix) with
    | some l => ({ st with psetTab := (n, l) :: st.psetTab }, "ok")
    | none => (st, "bad-op")
  | "route" :: toks =>
    match parseRoute (toks.map kv) with
    | some rc => ({ st with cfg := { st.cfg with routes := st.cfg.routes ++ [rc] } }, "ok")
    | none => (st, "bad-op")
  | ["build"] =>
    match buildRouter st.env st.cfg with
    | .ok r => ({ st with router := some r }, "ok")
    | .error e => ({ st with router := none }, s!"err {buildErrName e}")
  | "req" :: toks =>
    match st.router, parseReq (toks.map kv) with
    | some r, some q =>
      (st, resName (getClient st.params r q) ++
        (match matchedRoute st.params r q with
         | some n => s!" @{n}"
         | none => ""))
    | none, _ => (st, "no-router")
    | _, none => (st, "bad-op")
  | _ => (st, "bad-op")

def main : IO Unit := Driver.run ({} : St) stepC09
