import Driver.Common
import SSV.Model.PortSet
import SSV.Model.DomainSet
import SSV.Model.PrefixSet
open SSV

/-! Line-protocol driver for C10: engines `portset`, `domainset`, `prefixset` (see harness/cmd/corr_c10). -/

namespace C10Driver

def hexList (xs : List (List UInt8)) : String :=
  if xs.isEmpty then "." else ",".intercalate (xs.map toHexField)

def parseHexList (s : String) : Option (List (List UInt8)) :=
  if s == "." then some [] else (s.splitOn ",").mapM ofHex?

def hex16 (w : Nat) : String :=
  String.ofList ((List.range 16).map (fun i => hexDigit ((w >>> (4 * (15 - i))) % 16)))

def wordsHex (ws : List Nat) : String := String.join (ws.map hex16)

/-- pack `f 0 … f 65535` into 1024 words (bit `p % 64` of word `p / 64`) -/
def bitmapWords (f : Nat → Bool) : List Nat :=
  (List.range 1024).map (fun i =>
    (List.range 64).foldl (fun acc b => if f (i * 64 + b) then acc ||| (1 <<< b) else acc) 0)

def rangesStr (rs : List PortSet.Range) : String :=
  if rs.isEmpty then "-" else ",".intercalate (rs.map (fun r => s!"{r.lo}-{r.hi}"))

def portsetLine (portsField strField : String) : String :=
  let ports? : Option (List Nat) :=
    if portsField == "-" then some [] else (portsField.splitOn ",").mapM (·.toNat?)
  match ports?, ofHex? strField with
  | some ports, some str =>
    let (ws, ok) := PortSet.build ports str
    let rs := PortSet.rangeSet ws
    let rc := PortSet.rangeCount ws
    let rbits := if rs.length ≤ 64 then wordsHex (bitmapWords (PortSet.rangesContain rs)) else "-"
    let (reprName, mbits) := match PortSet.choose ws with
      | .unreachable => ("unreachable", "-")
      | .pointless => ("pointless", "-")
      | r@(.single q) => (s!"single:{q}", wordsHex (bitmapWords (fun p => p != 0 && (r.meet p).getD false)))
      | r@(.ranges _) => ("ranges", wordsHex (bitmapWords (fun p => p != 0 && (r.meet p).getD false)))
      | r@(.bits _) => ("bits", wordsHex (bitmapWords (fun p => p != 0 && (r.meet p).getD false)))
    let okS := if ok then "ok" else "err"
    s!"{okS} cnt={PortSet.count ws} first={PortSet.first ws} rc={rc} rs={rangesStr rs} words={wordsHex ws} rbits={rbits} repr={reprName} mbits={mbits} zero={(PortSet.contains ws 0).isNone}"
  | _, _ => "bad-op"

structure St where
  b : DomainSet.Builder := DomainSet.Builder.emptyText
  ms : Option (List DomainSet.Matcher) := none
  reBad : List (List UInt8) := []
  reTrue : List (List UInt8 × List UInt8) := []

def domainKind : DomainSet.DomainB → String
  | .linear _ => "linear" | .bsearch _ => "bsearch" | .map _ => "map"
def suffixKind : DomainSet.SuffixB → String
  | .linear _ => "linear" | .map _ => "map" | .trie _ => "trie"

def showBuilder (b : DomainSet.Builder) : String :=
  s!"D={domainKind b.domains}:{hexList b.domains.rules} S={suffixKind b.suffixes}:{hexList b.suffixes.rules} K={hexList b.keywords} R={hexList b.regexps}"

def matcherKind : DomainSet.Matcher → String
  | .domainLinear _ => "DomainLinearMatcher" | .domainBSearch _ => "DomainBinarySearchMatcher" | .domainMap _ => "DomainMapMatcher"
  | .suffixLinear _ => "SuffixLinearMatcher" | .suffixMap _ => "SuffixMapMatcher" | .suffixTrie _ => "DomainSuffixTrie"
  | .keyword _ => "KeywordLinearMatcher" | .regexp _ => "RegexpMatcher"

def errName : DomainSet.TextErr → String
  | .emptySet => "empty" | .badHint => "badhint" | .invalidLine => "invalid"

/-- the (pattern, domain) pairs on which the real regexp library answered true: `pat:dom` pairs -/
def parseReTrue (s : String) : Option (List (List UInt8 × List UInt8)) :=
  if s == "." then some [] else
  (s.splitOn ",").mapM (fun e =>
    match e.splitOn ":" with
    | [p, d] => do let pb ← ofHex? p; let db ← ofHex? d; pure (pb, db)
    | _ => none)

def newDomainB : String → Option DomainSet.DomainB
  | "linear" => some (.linear []) | "bsearch" => some (.bsearch []) | "map" => some (.map []) | _ => none
def newSuffixB : String → Option DomainSet.SuffixB
  | "linear" => some (.linear []) | "map" => some (.map []) | "trie" => some (.trie .nil) | _ => none

def step (st : St) (line : String) : St × String :=
  match fields line with
  | ["ps", ports, str] => (st, portsetLine ports str)
  | ["text", h] =>
    match ofHex? h with
    | some t =>
      match DomainSet.builderFromTextX t with
      | .ok b => ({ st with b := b, ms := none }, "ok " ++ showBuilder b)
      | .error e => ({ st with b := DomainSet.Builder.emptyText, ms := none }, "err " ++ errName e)
      | .panic => ({ st with b := DomainSet.Builder.emptyText, ms := none }, "err panic")
    | none => (st, "bad-op")
  | ["dlc", tg, h] =>
    match ofHex? tg, ofHex? h with
    | some tag, some t =>
      match DomainSet.builderFromDlc tag t with
      | .ok b => ({ st with b := b, ms := none }, "ok " ++ showBuilder b)
      | .error e => ({ st with b := DomainSet.Builder.emptyText, ms := none }, "err " ++ errName e)
      | .panic => ({ st with b := DomainSet.Builder.emptyText, ms := none }, "err panic")
    | _, _ => (st, "bad-op")
  | ["new", dk, sk] =>
    match newDomainB dk, newSuffixB sk with
    | some d, some s => ({ st with b := ⟨d, s, [], []⟩, ms := none }, "ok")
    | _, _ => (st, "bad-op")
  | ["ins", k, h] =>
    match ofHex? h with
    | some r =>
      let b := st.b
      match k with
      | "d" => ({ st with b := { b with domains := b.domains.insert r } }, "ok")
      | "s" => ({ st with b := { b with suffixes := b.suffixes.insert r } }, "ok")
      | "k" => ({ st with b := { b with keywords := b.keywords ++ [r] } }, "ok")
      | "r" => ({ st with b := { b with regexps := b.regexps ++ [r] } }, "ok")
      | _ => (st, "bad-op")
    | none => (st, "bad-op")
  | ["show"] => (st, showBuilder st.b)
  | ["gobrt"] =>
    let b := (DomainSet.BuilderGob.ofBuilder st.b).builder
    ({ st with b := b, ms := none }, showBuilder b)
  | ["wtext"] => (st, toHexField st.b.writeText)
  | ["textrt"] =>
    match DomainSet.builderFromText st.b.writeText with
    | .ok b => ({ st with b := b, ms := none }, "ok " ++ showBuilder b)
    | .error e => (st, "err " ++ errName e)
  | ["rebad", h] =>
    match parseHexList h with
    | some l => ({ st with reBad := l }, "ok")
    | none => (st, "bad-op")
  | ["build"] =>
    match st.b.domainSet (fun p => !st.reBad.contains p) with
    | some ms => ({ st with ms := some ms }, "ok " ++ ",".intercalate (ms.map matcherKind))
    | none => ({ st with ms := none }, "err")
  | ["retrue", h] =>
    match parseReTrue h with
    | some l => ({ st with reTrue := l }, "ok")
    | none => (st, "bad-op")
  | ["probes", h] =>
    match parseHexList h, st.ms with
    | some ds, some ms =>
      let re := fun (p d : List UInt8) => st.reTrue.contains (p, d)
      (st, String.ofList (ds.map (fun d => if DomainSet.matchSet re ms d then '1' else '0')))
    | some _, none => (st, "nobuild")
    | _, _ => (st, "bad-op")
  | ["suffix1", dh, sh] =>
    match ofHex? dh, ofHex? sh with
    | some d, some s => (st, if DomainSet.matchDomainSuffix d s then "1" else "0")
    | _, _ => (st, "bad-op")
  | ["plines", h] =>
    match ofHex? h with
    | some t => (st, hexList (PrefixSet.prefixLines t))
    | none => (st, "bad-op")
  | ["lines", h] =>
    match ofHex? h with
    | some t => (st, hexList (DomainSet.nonEmptyLines t))
    | none => (st, "bad-op")
  | ["hint", h] =>
    match ofHex? h with
    | some l => (st, match DomainSet.parseCapacityHint l with
        | .absent => "absent" | .bad => "bad" | .found v => s!"found {v}")
    | none => (st, "bad-op")
  | _ => (st, "bad-op")

end C10Driver

def main : IO Unit := Driver.run ({} : C10Driver.St) C10Driver.step
