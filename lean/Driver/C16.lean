import Driver.Common
import SSV.Model.HttpProxy
open SSV SSV.HttpProxy

/-! Line-protocol driver for C16. Strings travel as hex of their UTF-8 bytes (`-` = empty). -/

def strOfHex? (s : String) : Option Str := do
  let bs ← ofHex? s
  let str ← String.fromUTF8? (ByteArray.mk bs.toArray)
  pure str.toList

def hexOfStr (s : Str) : String := toHexField (String.ofList s).toUTF8.toList

def splitOnChar (c : Char) (s : String) : List String :=
  (s.split (fun x => x == c)).toList.map (·.toString)

/-- `k:v,k:v` (hex) or `-`; names are canonicalised here (textproto's reading of a field line) -/
def parseFields (s : String) : Option Header :=
  if s == "-" then some [] else
  (splitOnChar ',' s).mapM (fun kv =>
    match splitOnChar ':' kv with
    | [k, v] => do
      let k ← strOfHex? k
      let v ← strOfHex? v
      pure (canonKey k, v)
    | _ => none)

def parseNames (s : String) : Option (List Str) :=
  if s == "-" then some [] else (splitOnChar ',' s).mapM (fun k => (strOfHex? k).map canonKey)

def parseToks (s : String) : Option (List Str) :=
  if s == "-" then some [] else (splitOnChar ',' s).mapM strOfHex?

def showFields (h : Header) : String :=
  if h.isEmpty then "-" else ",".intercalate (h.map (fun f => hexOfStr f.1 ++ ":" ++ hexOfStr f.2))

def bit (s : String) : Bool := s == "1"
def b2s (b : Bool) : String := if b then "1" else "0"

inductive Phase
  | handshake
  | forwarding (fixedHost : Str)
  | ended
deriving Inhabited

structure Sess where
  auth : Option (List Str) := none
  phase : Phase := .handshake
  /-- the requests forwarded so far (the model's announcements), in order -/
  pending : List Req := []
  /-- the responses of the origin so far -/
  resps : List Resp := []
  /-- number of deliveries `respond pending resps` has made so far -/
  delivered : Nat := 0
  /-- a malformed response arrived (ReadResponse failed: 502, the response forwarder returned) -/
  respStopped : Bool := false
deriving Inhabited

def onClientMsg (s : Sess) (m : ClientMsg) : Sess × String :=
  match s.phase with
  | .ended => (s, "dead")
  | .handshake =>
    match serverHandle s.auth [m] 0 with
    | .readErr 0 => ({ s with phase := .ended }, "readerr")
    | .readErr _ => (s, "407")
    | .authClosed _ => ({ s with phase := .ended }, "407-closed")
    | .connect _ _ => ({ s with phase := .ended }, "connect")
    | .bad400 _ => ({ s with phase := .ended }, "400")
    | .forward _ first _ =>
      let r := filterReq first
      ({ s with phase := .forwarding first.host, pending := [r] }, s!"fwd {showFields r.header} {showFields r.trailer}")
  | .forwarding fixed =>
    match accepts fixed m with
    | some r => ({ s with pending := s.pending ++ [r] }, s!"fwd {showFields r.header} {showFields r.trailer}")
    | none => ({ s with phase := .ended }, "end")

def stepC16 (s : Sess) (line : String) : Sess × String :=
  match fields line with
  | ["canon", x] => match strOfHex? x with
    | some v => (s, hexOfStr (canonKey v))
    | none => (s, "bad-op")
  | ["trim", x] => match strOfHex? x with
    | some v => (s, hexOfStr (trimSpace v))
    | none => (s, "bad-op")
  | ["hostclass", x] => match strOfHex? x with
    | some v => (s, match hostClass v with
        | .empty => "empty"
        | .hostPort80 h => s!"hp80 {hexOfStr h}"
        | .parse p => s!"parse {hexOfStr p}")
    | none => (s, "bad-op")
  | ["cfg", a, toks] => match parseToks toks with
    | some ts => ({ auth := if bit a then some ts else none }, "ok")
    | none => (s, "bad-op")
  | ["garbage"] => onClientMsg s .garbage
  | ["req", m, h, cl, ok, hs, an, ts] =>
    match strOfHex? m, strOfHex? h, parseFields hs, parseNames an, parseFields ts with
    | some m, some h, some hs, some an, some ts =>
      onClientMsg s (.req { method := m, host := h, close := bit cl, header := hs, announced := an, trailer := ts } (bit ok))
    | _, _, _, _, _ => (s, "bad-op")
  | ["badresp"] =>
    if s.respStopped then (s, "dead")
    else
      -- does the response forwarder still read? (it does unless the last delivery ended the connection or no request is left)
      let probe : Resp := { status := 200, connClose := false, bodyEOF := false, header := [], announced := [], trailer := [], locHost := none }
      if (respond s.pending (s.resps ++ [probe])).length > s.delivered then ({ s with respStopped := true }, "502")
      else ({ s with respStopped := true }, "unsolicited")
  | ["resp", st, cc, eof, loc, hs, an, ts] =>
    let locHost : Option (Option Str) :=
      if loc == "n" then some none
      else if loc.startsWith "h" then (strOfHex? (loc.drop 1).toString).map some
      else none
    match st.toNat?, locHost, parseFields hs, parseNames an, parseFields ts with
    | some st, some lh, some hs, some an, some ts =>
      if s.respStopped then (s, "dead")
      else
        let p : Resp := { status := st, connClose := bit cc, bodyEOF := bit eof, header := hs, announced := an, trailer := ts, locHost := lh }
        -- the model's serverForwardResponses on everything the origin has sent so far
        let out := respond s.pending (s.resps ++ [p])
        let s' := { s with resps := s.resps ++ [p] }
        if out.length > s.delivered then
          match out.getLast? with
          | some (p', q) =>
            ({ s' with delivered := out.length },
             s!"deliver {b2s (filterResp p q).2} {b2s (isFinal st)} {showFields p'.header} {showFields p'.trailer}")
          | none => (s', "dead")
        else (s', "dead")
    | _, _, _, _, _ => (s, "bad-op")
  | _ => (s, "bad-op")

def main : IO Unit := Driver.run ({} : Sess) stepC16
