import Driver.Common
import SSV.Model.Stats
open SSV SSV.Stats SSV.Gen.C14

/-
Line protocol of ssv_c14 (one answer line per input line):
  new <cred users, comma separated | ->        -> ok
  tcp|udpdown|udpup <user | -> <x0> <x1>       -> ok          ("-" = the empty username)
  snap | reset                                 -> T=<6 values> U=<name>:<6 values>;…   (Snapshot / SnapshotAndReset)
  stats <n> <v1> … <vn>                        -> 200 <json pairs sorted by key> users=[username=<name>,<pairs>;…]
                                                  (n `clear` query values, "E" = the empty string)
  user <name | ->                              -> 404 | 200 username=<name> <json pairs sorted by key>
-/

structure DState where
  sh : Shared
  creds : List String

def vals (c : Counters) : String :=
  ",".intercalate (Field.all.map (fun f => toString (c.get f)))

def insStr (e : String × Nat) : List (String × Nat) → List (String × Nat)
  | [] => [e]
  | x :: xs => if e.1 < x.1 then e :: x :: xs else x :: insStr e xs

def jsonPairs (c : Counters) : String :=
  let ps := (Field.all.map (fun f => (f.jsonName, c.get f))).foldr insStr []
  ",".intercalate (ps.map (fun p => s!"{p.1}={p.2}"))

def showResult (r : Result) : String :=
  "T=" ++ vals r.total ++ " U=" ++ ";".intercalate (r.users.map (fun e => s!"{e.1}:{vals e.2}"))

def showStats (r : Result) : String :=
  "200 " ++ jsonPairs r.total ++ s!" {usersJSONName}=[" ++
    ";".intercalate (r.users.map (fun e => s!"{usernameJSONName}={e.1},{jsonPairs e.2}")) ++ "]"

abbrev Table := List (Target × Counters)

@[noinline] def ofTable (tab : Table) : Store := fun t =>
  match tab.find? (fun e => e.1 == t) with
  | some e => e.2
  | none => Counters.zero

@[noinline] def tabulate (sh : Shared) : Table :=
  (Target.anon :: sh.names.map Target.user).map (fun t => (t, ⟨Field.all.map (fun f => (f, (sh.ctr t).get f))⟩))

/-- rebuild the store as a table look-up (keeps the closure chain short in long scripts) -/
def compact (sh : Shared) : Shared := { sh with ctr := ofTable (tabulate sh) }

def uname (s : String) : String := if s == "-" then "" else s

def callOf : String → Option Call
  | "tcp" => some .tcp
  | "udpdown" => some .udpDown
  | "udpup" => some .udpUp
  | _ => none

def stepC14 (st : DState) (line : String) : DState × String :=
  match fields line with
  | ["new", cs] => ({ sh := Shared.init, creds := if cs == "-" then [] else (cs.splitOn ",") }, "ok")
  | ["snap"] => let (sh, r) := doSnapshot st.sh false; ({ st with sh := compact sh }, showResult r)
  | ["reset"] => let (sh, r) := doSnapshot st.sh true; ({ st with sh := compact sh }, showResult r)
  | "stats" :: n :: vs =>
    if n.toNat? == some vs.length then
      let (sh, r) := apiStats st.sh (vs.map (fun v => if v == "E" then "" else v))
      ({ st with sh := compact sh }, showStats r)
    else (st, "bad-op")
  | ["user", u0] =>
    let u := uname u0
    match apiUser st.sh (st.creds.contains u) u with
    | some c => (st, s!"200 {usernameJSONName}={u} {jsonPairs c}")
    | none => (st, "404")
  | [op, u, a, b] =>
    match callOf op, a.toNat?, b.toNat? with
    | some c, some x0, some x1 => ({ st with sh := compact (doCollect st.sh c (uname u) x0 x1) }, "ok")
    | _, _, _ => (st, "bad-op")
  | _ => (st, "bad-op")

def main : IO Unit := Driver.run ({ sh := Shared.init, creds := [] } : DState) stepC14
