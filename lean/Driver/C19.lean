import Driver.Common
import SSV.Model.ClientGroups
open SSV SSV.ClientGroups

/-
Line protocol of ssv_c19 (one answer line per input line):
  rrnew                      -> ok                 fresh round-robin selector
  rrset <ctr>                -> ok                 (model only) put the counter somewhere, e.g. near 2^63
  rr <n>                     -> <index>            one Select on a group of n clients
  new <avail|lat|minmax> <n> <timeoutNs> -> <sel>  fresh probe group
  round <o_0> ... <o_{n-1}>  -> <sel>              one whole round; o = f (failed) | <latency ns>
  job <i> <o>                -> <sel>              the job of client i finishes (selection as published now)
  finish                     -> <sel>              wg.Wait() returned: count++, scan, publish
  sel                        -> <sel>
  tround <c> <s_0> ... <s_{n-1}> -> <sel> <start_0,...>   one whole round on the clock with c workers from t0 = 0;
                                 s = f (never answers) | <d> (usable answer after d ns) | x<d> (unusable answer after d ns)
-/

structure DState where
  ctr : Nat
  pol : Policy
  timeout : Nat
  st : State

def parseOutcome (s : String) : Option Outcome :=
  if s == "f" then some none else (s.toNat?).map some

def parseOutcomes : List String → Option (List Outcome)
  | [] => some []
  | s :: rest => do
    let o ← parseOutcome s
    let r ← parseOutcomes rest
    pure (o :: r)

def parseScript (s : String) : Option Script :=
  if s == "f" then some { answerAfter := none, ok := false }
  else if s.startsWith "x" then (s.drop 1).toNat?.map (fun d => { answerAfter := some d, ok := false })
  else s.toNat?.map (fun d => { answerAfter := some d, ok := true })

def parseScripts : List String → Option (List Script)
  | [] => some []
  | s :: rest => do
    let o ← parseScript s
    let r ← parseScripts rest
    pure (o :: r)

def parsePolicy (s : String) : Option Policy :=
  if s == "avail" then some .avail else if s == "lat" then some .lat else if s == "minmax" then some .minmax else none

def stepC19 (d : DState) (line : String) : DState × String :=
  match fields line with
  | ["rrnew"] => ({ d with ctr := SSV.Gen.C19.rrInit }, "ok")
  | ["rrset", c] => match c.toNat? with
      | some k => ({ d with ctr := k % rrWord }, "ok")
      | none => (d, "bad-op")
  | ["rr", n] => match n.toNat? with
      | some k => if k = 0 then (d, "panic") else
          let (c', i) := rrSelect d.ctr k
          ({ d with ctr := c' }, toString i)
      | none => (d, "bad-op")
  | ["new", p, n, t] => match parsePolicy p, n.toNat?, t.toNat? with
      | some pol, some k, some to =>
          let st := init pol k
          ({ d with pol := pol, timeout := to, st := st }, toString st.sel)
      | _, _, _ => (d, "bad-op")
  | "round" :: os => match parseOutcomes os with
      | some l => if l.length ≠ d.st.rings.length then (d, "bad-op") else
          let st := round d.pol d.timeout d.st l
          ({ d with st := st }, toString st.sel)
      | none => (d, "bad-op")
  | ["job", i, o] => match i.toNat?, parseOutcome o with
      | some k, some oc =>
          let st := jobDone d.pol d.timeout d.st k oc
          ({ d with st := st }, toString st.sel)
      | _, _ => (d, "bad-op")
  | ["finish"] =>
      let st := finish d.pol d.timeout d.st
      ({ d with st := st }, toString st.sel)
  | "tround" :: c :: ss => match c.toNat?, parseScripts ss with
      | some k, some l => if l.length ≠ d.st.rings.length then (d, "bad-op") else
          let js := dispatch d.pol d.timeout 0 l (List.replicate k 0)
          if js.length ≠ l.length then (d, "deadlock") else
          let st := round d.pol d.timeout d.st (js.map (·.outcome))
          ({ d with st := st }, s!"{st.sel} {",".intercalate (js.map (fun j => toString j.start))}")
      | _, _ => (d, "bad-op")
  | ["sel"] => (d, toString d.st.sel)
  | ["state"] => (d, s!"{d.st.count} {d.st.sel} {d.st.rings}")
  | _ => (d, "bad-op")

def main : IO Unit :=
  Driver.run { ctr := SSV.Gen.C19.rrInit, pol := .avail, timeout := 0, st := init .avail 1 } stepC19
