import Driver.Common
import SSV.Model.Handshake
import SSV.Model.HandshakeHttp
open SSV SSV.HS

/-
Line protocol of the C07 driver (one op per line, one answer per line). Bytes are hex, `-` = empty.
  chunks : hex/hex/...          users : uhex:phex,uhex:phex      addr : 4:iphex:port | 6:iphex:port | d:namehex:port | z
  s5s <auth> <tcp> <udp> <locaddr> <users> <chunks> <P|N|A<code>>  -> <class> <addr> <user> <out> <stream>
  s5c <authmsg> <cmd> <addr> <chunks>                              -> <class> <boundaddr> <out> <stream>
  nones <chunks>                                                   -> <class> <addr> <stream>
  nonec <addr> <payload>                                           -> <bytes>
  reply <code>                                                     -> <reply>
  https <noauth|users> <chunks> <P|N|A<code>>                      -> <class> <addr> <user> <out> <stream>
  httpc <addr> <authheader> <chunks>                               -> <class> <out> <stream>
  b64 <bytes>                                                      -> <bytes>
  addrtext <addr>                                                  -> <text hex> <parse-back addr>
-/

def splitCh (s : String) (c : Char) : List String :=
  (s.split (fun x => x == c)).toList.map (·.toString)

def parseChunks (s : String) : Option Chunks :=
  if s == "-" then some [] else (splitCh s '/').mapM ofHex?

def parseUsers (s : String) : Option (List (Bytes × Bytes)) :=
  if s == "-" then some [] else
  (splitCh s ',').mapM fun up =>
    match splitCh up ':' with
    | [u, p] => do pure ((← ofHex? u), (← ofHex? p))
    | _ => none

def parseAddrField (s : String) : Option Addr :=
  match splitCh s ':' with
  | ["z"] => some .zero
  | ["4", h, p] => do pure (.v4 (← ofHex? h) (← p.toNat?))
  | ["6", h, p] => do pure (.v6 (← ofHex? h) (← p.toNat?))
  | ["d", h, p] => do pure (.dom (← ofHex? h) (← p.toNat?))
  | _ => none

def showAddr : Addr → String
  | .zero => "z"
  | .v4 ip p => s!"4:{toHexField ip}:{p}"
  | .v6 ip p => s!"6:{toHexField ip}:{p}"
  | .dom n p => s!"d:{toHexField n}:{p}"

def showErr : Err → String
  | .eof => "eof" | .ueof => "ueof" | .panic => "panic"
  | .badVersion b => s!"ver:{b.toNat}"
  | .zeroNMethods => "nmethods0" | .noAcceptable => "noacc"
  | .badAuthVersion b => s!"authver:{b.toNat}"
  | .zeroULEN => "ulen0" | .zeroPLEN => "plen0" | .badCreds => "badcreds"
  | .badAtyp b => s!"atyp:{b.toNat}" | .badDomainLen => "domlen"
  | .badMethod b => s!"meth:{b.toNat}" | .replyErr b => s!"rep:{b.toNat}"
  | .httpRead => "httpread" | .authFailed => "authfailed" | .badTarget => "badtarget"
  | .connectStatus c => s!"status:{c}" | .oom => "oom"

def parseLoc (s : String) : Option (Bool × Bytes × Nat) :=
  match parseAddrField s with
  | some (.v4 ip p) => some (false, ip, p)
  | some (.v6 ip p) => some (true, ip, p)
  | _ => none

/-- `A<code>` or `A<code>:<err>` with err = nil | errno<n> | werrno<n> | dns | dnsnf | rejected | opaque<k> -/
def parseDial (act : String) : Option DialResult :=
  match splitCh (act.drop 1).toString ':' with
  | [c] => c.toNat?.map fun n => { code := n }
  | [c, e] => do
    let n ← c.toNat?
    let err ← (if e == "nil" then some DialErr.none
      else if e == "dns" then some (.dns false)
      else if e == "dnsnf" then some (.dns true)
      else if e == "rejected" then some .rejected
      else if e.startsWith "werrno" then (e.drop 6).toNat?.map (fun k => DialErr.errno k true)
      else if e.startsWith "errno" then (e.drop 5).toNat?.map (fun k => DialErr.errno k false)
      else if e.startsWith "opaque" then (e.drop 6).toNat?.map DialErr.opaque
      else none)
    pure { code := n, err := err }
  | _ => none

/-- apply Proceed / Abort(dialResult) / nothing to a pending connection -/
def applyAct (act : String) (b : Bytes) : M Unit :=
  if act == "P" then proceed b
  else if act.startsWith "A" then
    match parseDial act with
    | some dr => abort b dr
    | none => pure ()
  else pure ()

def s5sOp (auth tcp udp : Bool) (loc : Bool × Bytes × Nat) (users : List (Bytes × Bytes)) (cs : Chunks) (act : String) : String :=
  let m : M (Bytes × ReqOutcome) := do
    if auth then
      let (u, r, b) ← serverAcceptUserPass users tcp udp loc
      match r with
      | .pending _ => applyAct act b
      | _ => pure ()
      pure (u, r)
    else
      let (r, b) ← serverAccept tcp udp loc
      match r with
      | .pending _ => applyAct act b
      | _ => pure ()
      pure ([], r)
  let (res, s) := m { inp := cs }
  match res with
  | .ok (u, .pending a) =>
    let st := if act == "P" then toHexField s.stream else "-"
    s!"ok {showAddr a} {toHexField u} {toHexField s.out} {st}"
  | .ok (u, .udpDone a) => s!"udp {showAddr a} {toHexField u} {toHexField s.out} -"
  | .ok (u, .unsupported a c) => s!"unsup:{c.toNat} {showAddr a} {toHexField u} {toHexField s.out} -"
  | .error e => s!"err:{showErr e} - - {toHexField s.out} -"

def s5cOp (msg : Bytes) (cmd : Nat) (a : Addr) (cs : Chunks) : String :=
  let m : M Addr := if msg.isEmpty then clientRequest (u8 cmd) a else clientRequestUserPass msg (u8 cmd) a
  let (res, s) := m { inp := cs }
  match res with
  | .ok b => s!"ok {showAddr b} {toHexField s.out} {toHexField s.stream}"
  | .error e => s!"err:{showErr e} - {toHexField s.out} -"

def nonesOp (cs : Chunks) : String :=
  let (res, s) := noneServer { inp := cs }
  match res with
  | .ok a => s!"ok {showAddr a} {toHexField s.stream}"
  | .error e => s!"err:{showErr e} - -"

def httpsOp (tk : Option (List (Bytes × Bytes))) (cs : Chunks) (act : String) : String :=
  let m : M (Bytes × Addr) := do
    let r ← serverHandleH SSV.Gen.C07.connectKeepsReadAhead tk
    if act == "P" then proceedH
    else if act.startsWith "A" then
      match parseDial act with
      | some dr => abortH dr
      | none => pure ()
    else pure ()
    pure r
  let (res, s) := m { inp := cs }
  match res with
  | .ok (u, a) =>
    let st := if act == "P" then toHexField s.stream else "-"
    s!"ok {showAddr a} {toHexField u} {toHexField s.out} {st}"
  | .error e => s!"err:{showErr e} - - {toHexField s.out} -"

def httpcOp (a : Addr) (hdr : Bytes) (cs : Chunks) : String :=
  let (res, s) := (clientConnectH a hdr) { inp := cs }
  match res with
  | .ok () => s!"ok {toHexField s.out} {toHexField s.stream}"
  | .error e => s!"err:{showErr e} {toHexField s.out} -"

def b? (s : String) : Option Bool := if s == "1" then some true else if s == "0" then some false else none

def stepC07 (st : Unit) (line : String) : Unit × String :=
  let bad := (st, "bad-op")
  match fields line with
  | ["s5s", auth, tcp, udp, loc, users, chunks, act] =>
    match b? auth, b? tcp, b? udp, parseLoc loc, parseUsers users, parseChunks chunks with
    | some a, some t, some u, some l, some us, some cs => (st, s5sOp a t u l us cs act)
    | _, _, _, _, _, _ => bad
  | ["s5c", msg, cmd, addr, chunks] =>
    match ofHex? msg, cmd.toNat?, parseAddrField addr, parseChunks chunks with
    | some m, some c, some a, some cs => (st, s5cOp m c a cs)
    | _, _, _, _ => bad
  | ["nones", chunks] =>
    match parseChunks chunks with
    | some cs => (st, nonesOp cs)
    | none => bad
  | ["nonec", addr, payload] =>
    match parseAddrField addr, ofHex? payload with
    | some a, some p => (st, toHexField (noneClient a p))
    | _, _ => bad
  | ["reply", code] =>
    match code.toNat? with
    | some c => (st, toString (replyFromDialResultCode c))
    | none => bad
  | ["https", users, chunks, act] =>
    match parseChunks chunks with
    | none => bad
    | some cs =>
      if users == "noauth" then (st, httpsOp none cs act)
      else match parseUsers users with
        | some us => (st, httpsOp (some (tokenMap b64 us)) cs act)
        | none => bad
  | ["httpc", addr, up, chunks] =>
    match parseAddrField addr, parseChunks chunks with
    | some a, some cs =>
      if up == "-" then (st, httpcOp a [] cs)
      else match parseUsers up with
        | some [(u, p)] => (st, httpcOp a (clientAuthHeader b64 u p) cs)
        | _ => bad
    | _, _ => bad
  | ["b64", x] =>
    match ofHex? x with
    | some b => (st, toHexField (b64 b))
    | none => bad
  | ["addrtext", addr] =>
    match parseAddrField addr with
    | some a =>
      let t := addrString a
      let back := match parseAddr t with
        | some b => showAddr b
        | none => "none"
      (st, s!"{toHexField t} {back} {if httpCarriable a then 1 else 0}")
    | none => bad
  | _ => bad

def main : IO Unit := Driver.run () stepC07
