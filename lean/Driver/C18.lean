import Driver.Common
import SSV.Model.Config
open SSV SSV.Config

/-
Line protocol of ssv_c18 (one line in, one line out).  A configuration is sent as a sequence of
lines, each answered `ok`, and decided by `validate`:

  reset
  server name=.. proto=.. mtu=.. etcp=0/1 eudp=0/1 natsec=.. ubm=.. urb=.. usb=.. ucc=.. tun=absent|ip|domain tonly=0/1
         tls=0/1 cert=0/1 psk=<len> upsk=none|missing|<len> pad=-|s:<text> rej=-|s:<text> fs=<n>
  tl net=.. wt=<ns> wb=<n>                       (TCP listener of the last server)
  ul net=.. bm=.. rb=.. sb=.. cc=.. nat=<ns>     (UDP listener of the last server)
  client name=.. proto=.. net=.. ep=0/1 ta=0/1 ua=0/1 etcp=0/1 eudp=0/1 mtu=.. s5=0/1 s5u=<len> s5p=<len> psk=<len> ipsk=<len,len> pad=.. fs=..
  group name=.. tp=.. tc=a,b up=.. uc=a,b
  dns name=.. type=.. addr=0/1 tc=.. uc=..
  router dt=.. du=.. ds=a,b ps=a,b
  route name=.. net=.. client=.. res=.. fs=a,b fps=.. td=0/1 tds=.. tp=0/1 tps=.. tmp=0/1 tmps=.. fg=0/1 tg=0/1 tmg=0/1 nores=0/1
  api en=0/1 pprof=0/1 static=0/1 secret=none|plain|wild|bad ;  apil tls=0/1 cert=0/1 cas=0/1  (API listener)
  route also: fu=a,b (fromUsers) fp=1,2 (fromPorts) fr=80,1-5,x (fromPortRanges items) tp2=.. tr=.. (toPorts / toPortRanges)
  validate            -> `err <class>` | `ok <effective configuration>`
  migrate             -> replaces the configuration by `Config.migrate` of it, answers `ok`
  decodes             -> `1` | `0`

Strings: `~` is the empty string, `%20` a blank; lists are comma separated, the empty value is the empty list.
-/

abbrev KV := List (String × String)

def parseKV (fs : List String) : KV :=
  fs.filterMap fun f =>
    match f.splitOn "=" with
    | [] => none
    | [_] => none
    | k :: rest => some (k, "=".intercalate rest)

def dec (s : String) : String := if s = "~" then "" else s.replace "%20" " "
def getS (kv : KV) (k : String) : String := dec ((kv.lookup k).getD "")
def getRaw (kv : KV) (k : String) : String := (kv.lookup k).getD ""
def getB (kv : KV) (k : String) : Bool := getRaw kv k = "1"
def getI (kv : KV) (k : String) : Int := ((getRaw kv k).toInt?).getD 0
def getN (kv : KV) (k : String) : Nat := ((getRaw kv k).toNat?).getD 0
def getL (kv : KV) (k : String) : List String :=
  let v := getRaw kv k
  if v = "" then [] else (v.splitOn ",").map dec
def getNL (kv : KV) (k : String) : List Nat := (getL kv k).map (fun s => (s.toNat?).getD 0)
def getP (kv : KV) (k : String) : Option String :=
  let v := getRaw kv k
  if v.startsWith "s:" then some (v.drop 2).toString else none

def addrOf (s : String) : Addr := if s = "ip" then .ip else if s = "domain" then .domain else .absent
def upskOf (s : String) : Upsk :=
  if s = "missing" then .missing else match s.toNat? with
    | some n => .keys n
    | none => .none

def serverOf (kv : KV) : Server :=
  { name := getS kv "name", proto := Proto.ofString (getS kv "proto"), mtu := getI kv "mtu",
    enableTCP := getB kv "etcp", enableUDP := getB kv "eudp", natTimeoutSec := getI kv "natsec",
    udpBatchMode := getS kv "ubm", udpRelayBatch := getI kv "urb", udpRecvBatch := getI kv "usb", udpSendCap := getI kv "ucc",
    tunnel := addrOf (getRaw kv "tun"), targetOnly := getB kv "tonly", httpTLS := getB kv "tls", httpCertList := getB kv "cert",
    pskLen := getN kv "psk", upsk := upskOf (getRaw kv "upsk"), padding := getP kv "pad", reject := getP kv "rej",
    filterSize := getN kv "fs" }

def clientOf (kv : KV) : Client :=
  { name := getS kv "name", proto := Proto.ofString (getS kv "proto"), network := getS kv "net",
    endpoint := getB kv "ep", tcpAddr := getB kv "ta", udpAddr := getB kv "ua",
    enableTCP := getB kv "etcp", enableUDP := getB kv "eudp", mtu := getI kv "mtu",
    s5auth := getB kv "s5", s5userLen := getN kv "s5u", s5passLen := getN kv "s5p",
    pskLen := getN kv "psk", ipskLens := getNL kv "ipsk", padding := getP kv "pad", filterSize := getN kv "fs" }

def portItemOf (s : String) : PortItem :=
  match s.splitOn "-" with
  | [a] => match a.toNat? with
    | some p => .single p
    | none => .junk
  | [a, b] => match a.toNat?, b.toNat? with
    | some lo, some hi => .range lo hi
    | _, _ => .junk
  | _ => .junk

def getItems (kv : KV) (k : String) : List PortItem :=
  let v := getRaw kv k
  if v = "" then [] else (v.splitOn ",").map portItemOf

def secretOf (s : String) : Secret :=
  if s = "plain" then .plain else if s = "wild" then .wildcard else if s = "bad" then .malformed else .none

def routeOf (kv : KV) : Route :=
  { name := getS kv "name", fromUsers := getL kv "fu", fromPorts := getNL kv "fp", fromRanges := getItems kv "fr",
    toPorts := getNL kv "tp2", toRanges := getItems kv "tr", network := getS kv "net", client := getS kv "client", resolver := getS kv "res",
    fromServers := getL kv "fs", fromPrefixSets := getL kv "fps", toDomains := getB kv "td", toDomainSets := getL kv "tds",
    toPrefixes := getB kv "tp", toPrefixSets := getL kv "tps", toMatchedPrefixes := getB kv "tmp",
    toMatchedPrefixSets := getL kv "tmps", fromGeo := getB kv "fg", toGeo := getB kv "tg", toMatchedGeo := getB kv "tmg",
    disableNameRes := getB kv "nores" }

def onLastServer (c : Config) (f : Server → Server) : Config :=
  match c.servers.reverse with
  | [] => c
  | s :: rest => { c with servers := (f s :: rest).reverse }

def optS (o : Option String) : String := match o with | none => "-" | some s => s
def optN (o : Option Nat) : String := match o with | none => "-" | some n => toString n

def showUL (u : EffUL) : String := s!"{u.natTimeout}:{u.relayBatch}:{u.recvBatch}:{u.sendCap}:{u.batchMode}"
def showServer (s : EffServer) : String :=
  s!"{s.name}/T{s.tcp}/U{";".intercalate (s.udp.map showUL)}/{optS s.reject}/{optS s.padding}/{optN s.filterSize}"
def showClient (c : EffClient) : String :=
  s!"{c.name}/{c.network}/{if c.tcp then 1 else 0}{if c.udp then 1 else 0}/{optS c.padding}/{optN c.filterSize}"

def showEff (e : Eff) : String :=
  s!"ok S[{" ".intercalate (e.servers.map showServer)}] C[{" ".intercalate (e.clients.map showClient)}] R[{" ".intercalate (e.routes.map fun p => s!"{p.1}/{p.2}")}]"

def stepC18 (c : Config) (line : String) : Config × String :=
  match fields line with
  | ["reset"] => ({}, "ok")
  | "server" :: fs => ({ c with servers := c.servers ++ [serverOf (parseKV fs)] }, "ok")
  | "tl" :: fs =>
    let kv := parseKV fs
    (onLastServer c fun s => { s with tcpListeners := s.tcpListeners ++
      [{ network := getS kv "net", waitTimeout := getI kv "wt", waitBuf := getI kv "wb" }] }, "ok")
  | "ul" :: fs =>
    let kv := parseKV fs
    (onLastServer c fun s => { s with udpListeners := s.udpListeners ++
      [{ network := getS kv "net", batchMode := getS kv "bm", relayBatch := getI kv "rb", recvBatch := getI kv "sb",
         sendCap := getI kv "cc", natTimeout := getI kv "nat" }] }, "ok")
  | "client" :: fs => ({ c with clients := c.clients ++ [clientOf (parseKV fs)] }, "ok")
  | "group" :: fs =>
    let kv := parseKV fs
    ({ c with groups := c.groups ++ [{ name := getS kv "name", tcpPolicy := getS kv "tp", tcpClients := getL kv "tc",
                                       udpPolicy := getS kv "up", udpClients := getL kv "uc" }] }, "ok")
  | "dns" :: fs =>
    let kv := parseKV fs
    ({ c with resolvers := c.resolvers ++ [{ name := getS kv "name", type := getS kv "type", addrValid := getB kv "addr",
                                             tcpClient := getS kv "tc", udpClient := getS kv "uc" }] }, "ok")
  | "router" :: fs =>
    let kv := parseKV fs
    ({ c with router := { c.router with defaultTCP := getS kv "dt", defaultUDP := getS kv "du",
                                        domainSets := getL kv "ds", prefixSets := getL kv "ps" } }, "ok")
  | "route" :: fs => ({ c with router := { c.router with routes := c.router.routes ++ [routeOf (parseKV fs)] } }, "ok")
  | "api" :: fs =>
    let kv := parseKV fs
    ({ c with api := { c.api with enabled := getB kv "en", pprof := getB kv "pprof", static := getB kv "static",
                                  secret := secretOf (getRaw kv "secret") } }, "ok")
  | "apil" :: fs =>
    let kv := parseKV fs
    ({ c with api := { c.api with listeners := c.api.listeners ++
        [{ tls := getB kv "tls", certList := getB kv "cert", clientCAs := getB kv "cas" }] } }, "ok")
  | ["migrate"] => (c.migrate, "ok")
  | ["decodes"] => (c, if c.decodes then "1" else "0")
  | ["validate"] =>
    match validate c with
    | .error e => (c, s!"err {e}")
    | .ok e => (c, showEff e)
  | _ => (c, "bad-op")

def main : IO Unit := Driver.run ({} : Config) stepC18
