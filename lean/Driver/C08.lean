import Driver.Common
import SSV.Model.Cred
open SSV SSV.Cred SSV.Gen.C08

/-
Line protocol of the C08 driver (one answer line per input line):
  init <pskLen> <tcp 0|1> <udp 0|1> <doc> <k1,k2,…>   RegisterServer on a store file; the key list is the universe observed in dumps
  add <name> <key> | update <name> <key> | delete <name> | reload | edit <doc> | tick
  race <op>;<op>[;<op>][;edit <doc>]   every outcome of every interleaving (then a tick), sorted, joined by '|';
                                      results are listed for the API operations in their order, edits have none
names: `-` is the empty username.  keys: <id>/<len>.  docs: E (zero bytes) | G (rejected by the decoder) | J:<name>=<key>,… (members in file order)
answer: <result>;creds=…;tcp=…;htcp=…;udp=…;hudp=…;file=<doc>
-/

def hashOf (k : Key) : Hash := k.id

structure DSt where
  st : St
  keys : List Key

def parseName (s : String) : Name := if s == "-" then "" else s
def showName (n : Name) : String := if n == "" then "-" else n

def parseKey (s : String) : Option Key :=
  match s.splitOn "/" with
  | [a, b] => do let i ← a.toNat?; let l ← b.toNat?; pure ⟨i, l⟩
  | _ => none

def showKey (k : Key) : String := s!"{k.id}/{k.len}"

def parseEntry (s : String) : Option Entry :=
  match s.splitOn "=" with
  | [n, k] => do let k ← parseKey k; pure (parseName n, k)
  | _ => none

def parseDoc (s : String) : Option Doc :=
  if s == "E" then some .empty
  else if s == "G" then some .garbage
  else if s.startsWith "J:" then
    let body := (s.drop 2).toString
    if body == "" then some (.entries [])
    else (body.splitOn ",").mapM parseEntry |>.map Doc.entries
  else none

def showDoc : Doc → String
  | .empty => "E"
  | .garbage => "G"
  | .entries l => "J:" ++ ",".intercalate (l.map fun (n, k) => s!"{showName n}={showKey k}")

def showRes : Res → String
  | .ok => "ok" | .errEmptyName => "err:empty-name" | .errLen => "err:len" | .errExists => "err:exists"
  | .errNoUser => "err:nouser" | .errSame => "err:same" | .errDup => "err:dup" | .errParse => "err:parse"
  | .errInvalid => "err:invalid" | .panicked => "panic"

def showLive (keys : List Key) (live : Option ULM) (hs : Bool) : String :=
  match live with
  | none => "none"
  | some m => ",".intercalate (keys.map fun k =>
      let who := if hs then handshake hashOf m k else (find m (hashOf k)).map (·.1)
      s!"{k.id}:" ++ (match who with | some n => showName n | none => "!"))

def dump (d : DSt) : String :=
  let st := d.st
  "creds=" ++ ",".intercalate ((listed st).map fun (n, k) => s!"{showName n}:{showKey k}") ++
  ";tcp=" ++ showLive d.keys st.tcp false ++ ";htcp=" ++ showLive d.keys st.tcp true ++
  ";udp=" ++ showLive d.keys st.udp false ++ ";hudp=" ++ showLive d.keys st.udp true ++
  ";file=" ++ showDoc st.file ++ (if st.fault then ";FAULT" else "")

def parseOp (ws : List String) : Option Op :=
  match ws with
  | ["add", n, k] => (parseKey k).map (Op.add (parseName n))
  | ["update", n, k] => (parseKey k).map (Op.update (parseName n))
  | ["delete", n] => some (Op.delete (parseName n))
  | ["reload"] => some Op.reload
  | _ => none

/-- steps that neither read nor write shared state: they commute with every other thread's segments -/
def isLocal : Step → Bool
  | .guardName | .guardLen | .deferClose | .ret | .hashKey | .mkConfig | .guardConfigOk | .mkCred => true
  | _ => false

/-- all terminal systems over every interleaving of the threads' segments and the pending external edits
(in their given order); local segments run eagerly: they commute with everything -/
def explore : Nat → Sys → List Doc → List Sys
  | 0, s, _ => [s]
  | fuel + 1, s, edits =>
    let idx := List.range s.threads.length
    let live := idx.filter fun i => match s.threads[i]? with | some t => !t.prog.isEmpty | none => false
    if live.isEmpty && edits.isEmpty then [s]
    else
      match live.find? (fun i => match s.threads[i]? with | some t => (t.prog.head?.map isLocal).getD false | none => false) with
      | some i => explore fuel (s.act hashOf (.thread i)) edits
      | none =>
        (live.flatMap fun i => explore fuel (s.act hashOf (.thread i)) edits) ++
        (match edits with
         | [] => []
         | d :: rest => explore fuel (s.act hashOf (.edit d)) rest)

def dedupSorted (l : List String) : List String :=
  let s := l.mergeSort (fun a b => decide (a ≤ b))
  s.foldr (fun x acc => match acc with | y :: _ => if x == y then acc else x :: acc | [] => [x]) []

def raceOutcomes (d : DSt) (ops : List Op) (edits : List Doc) : String :=
  let s0 := Sys.start d.st ops
  let fuel := (s0.threads.map (·.prog.length)).foldl (· + ·) (1 + edits.length)
  let finals := explore fuel s0 edits
  let outs := finals.map fun s =>
    let rs := ",".intercalate (s.threads.map fun t => showRes (t.res.getD .ok))
    rs ++ ";" ++ dump { d with st := tick s.st }
  "|".intercalate (dedupSorted outs)

def stepC08 (d : DSt) (line : String) : DSt × String :=
  let ws := fields line
  match ws with
  | ["init", pl, tcp, udp, doc, keys] =>
    match pl.toNat?, parseDoc doc, (keys.splitOn ",").mapM parseKey with
    | some pl, some doc, some keys =>
      let (st, res) := call hashOf (fresh pl (tcp == "1") (udp == "1") doc) .reload
      let d' : DSt := { st := st, keys := keys }
      (d', showRes res ++ ";" ++ dump d')
    | _, _, _ => (d, "bad-op")
  | ["edit", doc] =>
    match parseDoc doc with
    | some doc => let d' := { d with st := { d.st with file := doc } }; (d', "ok;" ++ dump d')
    | none => (d, "bad-op")
  | ["tick"] => let d' := { d with st := tick d.st }; (d', "ok;" ++ dump d')
  | "race" :: rest =>
    let parts := ((" ".intercalate rest).splitOn ";").map fields
    let editParts := parts.filter (fun ws => ws.head? == some "edit")
    let opParts := parts.filter (fun ws => ws.head? != some "edit")
    match opParts.mapM parseOp, editParts.mapM (fun ws => match ws with | [_, doc] => parseDoc doc | _ => none) with
    | some ops, some edits => (d, raceOutcomes d ops edits)
    | _, _ => (d, "bad-op")
  | _ =>
    match parseOp ws with
    | some op =>
      let (st, res) := call hashOf d.st op
      let d' := { d with st := st }
      (d', showRes res ++ ";" ++ dump d')
    | none => (d, "bad-op")

def main : IO Unit := Driver.run ({ st := fresh 16 true true .empty, keys := [] } : DSt) stepC08
