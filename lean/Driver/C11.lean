import Driver.Common
import SSV.Model.Relay
open SSV SSV.Relay

/-
Line protocol of ssv_c11 (one line in, one line out):
  cfg <cap> <byaddr 0|1> <src 0|1> <shared 0|1|code> [<upip> <upport>]
                                                          reset; `shared=code` uses the regenerated Gen fact; upip/upport = upstream proxy
  recv <key> <src> none | ip <a> <port> <pl> | dom <d> <port> <pl>
                                                          -> noop | new <sid> <qlen> | old <sid> <qlen>
  initok <sid> | initfail <sid> | evict <sid>             -> ok | noop
  packerr <sid>                                           -> ok | noop   (PackInPlace fails for a non-resolver reason)
  take <sid>                                              -> noop | sent <ip> <port> <pl> | hit | resolving <d>
  resolved <sid> <ip|fail>                                -> ok | noop
  storeip <sid>                                           -> ok | noop
  readsend <sid>                                          -> noop | sent <ip> <port> <pl>
  pack <sid> <ip|fail|->   (take; if resolving: resolved, storeip; readsend — the real call at resolver-block granularity,
                            `-` = no answer needed)       -> noop | sent … | failed | blocked <d>
  down <sid> none | <srcip> <srcport> <pl>                -> noop | reply <to> <srcip>:<srcport>|- <pl>
  facts                                                   -> shared=<b> recvok=<b> cleanupok=<b> fresh=<b>
-/

structure DSt where
  cfg : Config
  st : State

def boolOf (s : String) : Bool := s == "1"

def parsePkt : List String → Option (Option Pkt)
  | ["none"] => some none
  | ["ip", a, p, pl] => do some (some ⟨.ip (← a.toNat?) (← p.toNat?), ← pl.toNat?⟩)
  | ["dom", d, p, pl] => do some (some ⟨.dom (← d.toNat?) (← p.toNat?), ← pl.toNat?⟩)
  | _ => none

def lastSent (old new : State) : String :=
  if new.sent.length > old.sent.length then
    match new.sent.getLast? with
    | some w => s!"sent {w.ip} {w.port} {w.pkt.payload}"
    | none => "noop"
  else "noop"

def qlen (st : State) (sid : Nat) : Nat := match st.sess sid with | some s => s.queue.length | none => 0

def sessChanged (old new : State) (sid : Nat) : String :=
  if old.sess sid == new.sess sid then "noop" else "ok"

def stepC11 (d : DSt) (line : String) : DSt × String :=
  match fields line with
  | "cfg" :: cap :: ba :: src :: sh :: up =>
    match cap.toNat? with
    | some c =>
      let shared := if sh == "code" then SSV.Gen.C11.packerShared else boolOf sh
      let upstream : Option (IP × Nat) := match up with
        | [a, p] => do some (← a.toNat?, ← p.toNat?)
        | _ => none
      ({ cfg := { cap := c, byAddr := boolOf ba, carriesSource := boolOf src, insertFirst := !codeRecvOK,
                  upstream := upstream, packerOf := packerOfShared shared }, st := State.init }, "ok")
    | none => (d, "bad-op")
  | "recv" :: key :: src :: rest =>
    match key.toNat?, src.toNat?, parsePkt rest with
    | some k, some a, some r =>
      let st' := recv d.cfg d.st k a r
      let out :=
        if st'.next > d.st.next then s!"new {d.st.next} {qlen st' d.st.next}"
        else if st'.recvd.length > d.st.recvd.length then
          match st'.table k with
          | some sid => s!"old {sid} {qlen st' sid}"
          | none => "noop"
        else "noop"
      ({ d with st := st' }, out)
    | _, _, _ => (d, "bad-op")
  | ["initok", sid] => match sid.toNat? with
    | some i => let st' := initOk d.st i; ({ d with st := st' }, sessChanged d.st st' i)
    | none => (d, "bad-op")
  | ["initfail", sid] => match sid.toNat? with
    | some i => let st' := initFail d.st i; ({ d with st := st' }, sessChanged d.st st' i)
    | none => (d, "bad-op")
  | ["evict", sid] => match sid.toNat? with
    | some i => let st' := evict d.st i; ({ d with st := st' }, sessChanged d.st st' i)
    | none => (d, "bad-op")
  | ["take", sid] => match sid.toNat? with
    | some i =>
      let st' := take d.cfg d.st i
      let out := match st'.sess i with
        | some s => match s.pc with
          | .resolving _ dm => s!"resolving {dm}"
          | .storedIP _ => if d.st.sess i == st'.sess i then "noop" else "hit"
          | _ => lastSent d.st st'
        | none => "noop"
      ({ d with st := st' }, out)
    | none => (d, "bad-op")
  | ["packerr", sid] => match sid.toNat? with
    | some i => let st' := packErr d.st i; ({ d with st := st' }, sessChanged d.st st' i)
    | none => (d, "bad-op")
  | ["resolved", sid, ans] => match sid.toNat? with
    | some i =>
      let a := if ans == "fail" then none else ans.toNat?
      let st' := resolved d.cfg d.st i a
      ({ d with st := st' }, sessChanged d.st st' i)
    | none => (d, "bad-op")
  | ["storeip", sid] => match sid.toNat? with
    | some i => let st' := storeIP d.cfg d.st i; ({ d with st := st' }, sessChanged d.st st' i)
    | none => (d, "bad-op")
  | ["readsend", sid] => match sid.toNat? with
    | some i => let st' := readSend d.cfg d.st i; ({ d with st := st' }, lastSent d.st st')
    | none => (d, "bad-op")
  | ["pack", sid, ans] => match sid.toNat? with
    | some i =>
      let st1 := take d.cfg d.st i
      match st1.sess i with
      | some s =>
        match s.pc with
        | .resolving _ dm =>
          if ans == "-" then ({ d with st := st1 }, s!"blocked {dm}") else
          let a := if ans == "fail" then none else ans.toNat?
          let st2 := resolved d.cfg st1 i a
          match a with
          | none => ({ d with st := st2 }, "failed")
          | some _ =>
            let st3 := readSend d.cfg (storeIP d.cfg st2 i) i
            ({ d with st := st3 }, lastSent d.st st3)
        | .storedIP _ =>
          if d.st.sess i == st1.sess i then (d, "noop") else
          let st3 := readSend d.cfg st1 i
          ({ d with st := st3 }, lastSent d.st st3)
        | _ => ({ d with st := st1 }, lastSent d.st st1)
      | none => (d, "noop")
    | none => (d, "bad-op")
  | "down" :: sid :: rest => match sid.toNat? with
    | some i =>
      let r : Option (Option ((IP × Nat) × Payload)) := match rest with
        | ["none"] => some none
        | [a, p, pl] => do some (some ((← a.toNat?, ← p.toNat?), ← pl.toNat?))
        | _ => none
      match r with
      | some r =>
        let st' := down d.cfg d.st i r
        let out := if st'.replies.length > d.st.replies.length then
            match st'.replies.getLast? with
            | some rp =>
              let src := match rp.src with | some (a, p) => s!"{a}:{p}" | none => "-"
              s!"reply {rp.to} {src} {rp.payload}"
            | none => "noop"
          else "noop"
        ({ d with st := st' }, out)
      | none => (d, "bad-op")
    | none => (d, "bad-op")
  | ["facts"] =>
    (d, s!"shared={SSV.Gen.C11.packerShared} recvok={codeRecvOK} cleanupok={codeCleanupOK} fresh={SSV.Gen.C11.clientPackerFresh.all (·.2)}")
  | _ => (d, "bad-op")

def main : IO Unit :=
  Driver.run { cfg := codeConfig 1024 true true, st := State.init } stepC11
