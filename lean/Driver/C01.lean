import Driver.Common
-- stub driver (not yet implemented)
def main : IO Unit := Driver.run () (fun s _ => (s, "bad-op"))
