import Driver.Common
import SSV.Model.StreamDriver
/- ssv_c01: line-protocol driver of the SS2022 stream model (toy crypto); protocol in SSV.Model.StreamDriver -/
def main : IO Unit := Driver.run SSV.Stream.Drv.init SSV.Stream.Drv.step
