import Driver.Common
import SSV.Model.Lru
import SSV.Model.Dns
open SSV SSV.Dns

/-! Line-protocol driver for C17: engines `lru` (pointer-level model of cache/cache.go) and `dns`. -/

structure DState where
  lru : Option (Lru.Cache Nat Nat) := some (Lru.new 1)   -- `none` after a modelled nil dereference
  cfg : Config := { hasUDP := false, hasTCP := true, cap := 1 }
  st : State := {}
  cst : CState := {}

def showEntries (l : List (Nat × Nat) × Bool) : String :=
  let body := if l.1.isEmpty then "-" else ",".intercalate (l.1.map (fun (k, v) => s!"{k}={v}"))
  if l.2 then body else body ++ "!unterminated"

def b2s (b : Bool) : String := if b then "1" else "0"

def lruStep (c : Lru.Cache Nat Nat) (args : List String) : Option (Lru.Cache Nat Nat) × String :=
  match args with
  | ["get", k] => match k.toNat? with
    | some k => match Lru.get c k with
      | some (c', some v) => (some c', s!"some {v}")
      | some (c', none) => (some c', "none")
      | none => (none, "PANIC")
    | none => (some c, "bad-op")
  | ["set", k, v] => match k.toNat?, v.toNat? with
    | some k, some v => match Lru.set c k v with
      | some c' => (some c', "ok")
      | none => (none, "PANIC")
    | _, _ => (some c, "bad-op")
  | ["insert", k, v] => match k.toNat?, v.toNat? with
    | some k, some v => match Lru.insertNew c k v with
      | some (c', b) => (some c', b2s b)
      | none => (none, "PANIC")
    | _, _ => (some c, "bad-op")
  | ["remove", k] => match k.toNat? with
    | some k => match Lru.removeKey c k with
      | some (c', b) => (some c', b2s b)
      | none => (none, "PANIC")
    | none => (some c, "bad-op")
  | ["contains", k] => match k.toNat? with
    | some k => (some c, b2s (Lru.contains c k))
    | none => (some c, "bad-op")
  | ["len"] => (some c, toString (Lru.len c))
  | ["all"] => (some c, showEntries (Lru.all c))
  | ["backward"] => (some c, showEntries (Lru.backward c))
  | _ => (some c, "bad-op")

-- ---------- parsing of the upstream script ----------

def pBool (s : String) : Option Bool := if s == "1" then some true else if s == "0" then some false else none

def pAns (s : String) : Option Ans :=
  match s.splitOn "," with
  | [k, t, a] => do pure { kind := ← k.toNat?, ttl := ← t.toNat?, addr := a }
  | _ => none

def pList {α : Type} (f : String → Option α) (s : String) : Option (List α) :=
  if s == "-" then some [] else (s.splitOn ";").mapM f

def pAuth (s : String) : Option (Bool × Nat) :=
  match s.splitOn "," with
  | [b, t] => do pure (← pBool b, ← t.toNat?)
  | _ => none

def pAnsEnd (s : String) : Option AnsEnd :=
  match s.splitOn "," with
  | ["d"] => some .done
  | ["h"] => some .hdrErr
  | ["b", t] => do pure (.bodyErr (← t.toNat?))
  | _ => none

def pAuthEnd (s : String) : Option AuthEnd :=
  match s.splitOn "," with
  | ["d"] => some .done
  | ["h"] => some .hdrErr
  | ["s", b, t] => do pure (.skipErr (← pBool b) (← t.toNat?))
  | _ => none

def pWire (s : String) : Option Wire :=
  match s.splitOn "/" with
  | ["g"] => some .garbage
  | ["m", id, resp, ra, tc, rcode, qok, answers, ansend, auths, authend] => do
    pure (.msg { id := ← id.toNat?, response := ← pBool resp, ra := ← pBool ra, tc := ← pBool tc, rcode := ← rcode.toNat?,
                 qOk := ← pBool qok, answers := ← pList pAns answers, ansEnd := ← pAnsEnd ansend,
                 auths := ← pList pAuth auths, authEnd := ← pAuthEnd authend })
  | _ => none

structure PState where
  udp : List UdpEv := []
  conns : List Conn := []          -- finished connections
  cur : Option (List Frame) := none -- frames of the connection being read

def pTok (p : PState) (tok : String) : Option PState :=
  match tok.splitOn ":" with
  | ["ud", dt, fs, w] => do pure { p with udp := p.udp ++ [.dgram (← dt.toNat?) (← pBool fs) (← pWire w)] }
  | ["ue", dt] => do pure { p with udp := p.udp ++ [.readErr (← dt.toNat?)] }
  | ["us"] => some { p with udp := p.udp ++ [.silence] }
  | ["C"] => match p.cur with
    | none => some { p with cur := some [] }
    | some _ => none
  | ["D"] => match p.cur with
    | some [] => some { p with conns := p.conns ++ [.dialFail], cur := none }
    | _ => none
  | ["f", dt, w] => do
    let fr ← p.cur
    pure { p with cur := some (fr ++ [.wire (← dt.toNat?) (← pWire w)]) }
  | ["z", dt] => do
    let fr ← p.cur
    pure { p with cur := some (fr ++ [.zero (← dt.toNat?)]) }
  | ["E", "c", dt] => do
    let fr ← p.cur
    pure { p with conns := p.conns ++ [.conn fr (.close (← dt.toNat?))], cur := none }
  | ["E", "m", dt] => do
    let fr ← p.cur
    pure { p with conns := p.conns ++ [.conn fr (.closeMid (← dt.toNat?))], cur := none }
  | ["E", "h"] => do
    let fr ← p.cur
    pure { p with conns := p.conns ++ [.conn fr .hang], cur := none }
  | _ => none

def pUpstream (toks : List String) : Option Upstream := do
  let p ← toks.foldlM pTok {}
  match p.cur with
  | some _ => none
  | none => pure { udp := p.udp, conns := p.conns }

def showAddrs (l : List String) : String := if l.isEmpty then "-" else ",".intercalate l

def showExp : Option Nat → String
  | none => "zero"
  | some e => toString e

def showRes (r : Result) : String := s!"a={showAddrs r.a} aaaa={showAddrs r.aaaa} exp={showExp r.exp}"

def showSend : Option SendOut → String
  | none => "q=- udp=-"
  | some s =>
    let q := if s.tcpTried then (if s.tcpQueries.isEmpty then "none" else "/".intercalate s.tcpQueries) else "-"
    let u := match s.udp with
      | none => "-"
      | some u =>
        let w := match u.why with
          | .timeout => "timeout" | .parseError => "parse-error" | .truncated => "truncated" | .done => "done"
        s!"{w},{b2s u.cancel4},{b2s u.cancel6},{u.used}"
    s!"q={q} udp={u}"

def showOut (o : LookupOut) : String :=
  let head := match o.out with
    | .hit r => s!"hit {showRes r}"
    | .fresh r => s!"fresh {showRes r}"
    | .stale r => s!"stale {showRes r}"
    | .fail => "fail a=- aaaa=- exp=zero"
  s!"{head} t={o.st.now} {showSend o.send}"

def showEv (ev : Option CEvent) (dflt : String) : String :=
  match ev with
  | none => dflt
  | some e => match e.out with
    | .hit r => s!"hit {showRes r}"
    | .fresh r => s!"fresh {showRes r}"
    | .stale r => s!"stale {showRes r}"
    | .fail => "fail a=- aaaa=- exp=zero"

def stepC17 (s : DState) (line : String) : DState × String :=
  match fields line with
  | "lru" :: "new" :: [n] => match n.toInt? with
    | some k => ({ s with lru := some (Lru.new k) }, "ok")
    | none => (s, "bad-op")
  | "lru" :: args => match s.lru with
    | some c => let (c', out) := lruStep c args; ({ s with lru := c' }, out)
    | none => (s, "PANIC")
  | ["dns", "new", cap, u, t] => match cap.toInt?, pBool u, pBool t with
    | some cap, some u, some t =>
      -- NewBoundedCache: a non-positive capacity means math.MaxInt
      ({ s with cfg := { hasUDP := u, hasTCP := t, cap := (Lru.new (K := Nat) (V := Nat) cap).cap }, st := {} }, "ok")
    | _, _, _ => (s, "bad-op")
  | "dns" :: "lookup" :: gap :: name :: toks => match gap.toNat?, pUpstream toks with
    | some gap, some up =>
      let o := lookup s.cfg { s.st with now := s.st.now + gap } name up
      ({ s with st := o.st }, showOut o)
    | _, _ => (s, "bad-op")
  | ["conc", "new", cap] => match cap.toInt? with
    | some cap =>
      ({ s with cfg := { hasUDP := false, hasTCP := true, cap := (Lru.new (K := Nat) (V := Nat) cap).cap }, cst := {} }, "ok")
    | none => (s, "bad-op")
  | ["conc", "probe", tid, name, now] => match tid.toNat?, now.toNat? with
    | some tid, some now =>
      let (cs, ev) := cstep s.cfg s.cst (.probe tid name now)
      ({ s with cst := cs }, showEv ev "pending")
    | _, _ => (s, "bad-op")
  | "conc" :: "finish" :: tid :: toks => match tid.toNat?, pUpstream toks with
    | some tid, some up =>
      let (cs, ev) := cstep s.cfg s.cst (.finish tid up)
      ({ s with cst := cs }, showEv ev "noop")
    | _, _ => (s, "bad-op")
  | ["dns", "cache"] => (s, showAddrs (s.st.cache.map (fun (k, r) => s!"{k}:{showExp r.exp}")))
  | _ => (s, "bad-op")

def main : IO Unit := Driver.run ({} : DState) stepC17
