import Driver.Common
import SSV.Model.Pipe
/-
ssv_c15 — lock-step acceptance driver for the pipe model.

The harness drives the real `netio.NewPipe` inside a synctest bubble: it issues ONE call, waits until every
goroutine is durably blocked (quiescence), and reports which calls returned with what.  The driver keeps the
SET of model states (one `SSV.Pipe.State` per direction) that are consistent with everything observed so far:
after every call it explores ALL maximal runs of internal steps (`SSV.Pipe.succs`) to the quiescent states,
then filters by the observations.  Answer `ok <k>` = k candidate states remain; `reject …` = the implementation
did something no interleaving of the model can do.

lines:  new <nthreads> | nq call <t> <end> w <hex> (start only, no quiescence) | call <t> <end> r <cap> | call <t> <end> w <hex> | call <t> <end> wt <ff:0|1> <cap,cap,…|->
        call <t> <end> cr|cw|c|cre|cwe | call <t> <end> srd|swd|sd <zero|future|past> | advance
        ret <t> <n> <err> | pend <t> | stream <dir> <hex> | quiet
-/
open SSV SSV.Pipe

structure Cand where
  d0 : State        -- end 0 writes, end 1 reads
  d1 : State        -- end 1 writes, end 0 reads
  memo : RErr       -- first half of a SetDeadline

structure DState where
  n : Nat
  cands : List Cand
  where_ : List (Nat × Nat × Bool)   -- thread ↦ (direction of its current call, composite-sd?)

def skey (n : Nat) (s : State) :=
  ((List.range n).map s.thr, s.done, s.err, s.mu, s.rdl, s.wdl, s.panicked, s.hs, s.wlog, s.rret)

def dedupS (n : Nat) (l : List State) : List State :=
  l.foldl (fun acc s => if acc.any (fun t => skey n t == skey n s) then acc else acc ++ [s]) []

/-- all quiescent states reachable by internal steps -/
partial def quiesce (n : Nat) (frontier acc : List State) : List State :=
  match frontier with
  | [] => acc
  | _ =>
    let st := frontier.map (fun s => (s, if s.panicked then [] else succs n s))
    let term := st.filterMap (fun p => if p.2.isEmpty then some p.1 else none)
    quiesce n (dedupS n (st.flatMap (·.2))) (dedupS n (acc ++ term))

def ckey (n : Nat) (c : Cand) := (skey n c.d0, skey n c.d1, c.memo)

def dedupC (n : Nat) (l : List Cand) : List Cand :=
  l.foldl (fun acc s => if acc.any (fun t => ckey n t == ckey n s) then acc else acc ++ [s]) []

def Cand.dir (c : Cand) (d : Nat) : State := if d == 0 then c.d0 else c.d1
def Cand.setDir (c : Cand) (d : Nat) (s : State) : Cand := if d == 0 then { c with d0 := s } else { c with d1 := s }

/-- start `op` by thread `t` in direction `d` of every candidate and run to quiescence -/
def startIn (ds : DState) (t d : Nat) (op : Op) (q : Bool := true) : List Cand :=
  dedupC ds.n <| ds.cands.flatMap fun c =>
    match start (c.dir d) t op with
    | none => []
    | some s => (if q then quiesce ds.n [s] [] else [s]).map (c.setDir d)

def errName : RErr → String
  | .nil => "nil" | .eof => "eof" | .closedPipe => "closed" | .timeout => "timeout" | .sink => "sink"
  | .custom k => s!"custom{k}"

def retOf : PC → Option (Nat × RErr)
  | .rRet n e => some (n, e)
  | .wRet n e _ => some (n, e)
  | .uRet e => some (0, e)
  | _ => none

def parseKind : String → Option DKind
  | "zero" => some .zero | "future" => some .future | "past" => some .past | _ => none

def parsePlan (s : String) : Option (List Nat) :=
  if s == "-" then some [] else (s.splitOn ",").mapM (·.toNat?)

def answer (ds : DState) (cands : List Cand) (why : String) : DState × String :=
  if cands.isEmpty then (ds, "reject " ++ why) else ({ ds with cands := cands }, s!"ok {cands.length}")

/-- finish thread t's returned unit call in direction d (used between the halves of Close / SetDeadline) -/
def finishUnit (ds : DState) (cs : List Cand) (t d : Nat) (keep : Bool) : List Cand :=
  cs.filterMap fun c =>
    match (c.dir d).thr t with
    | .uRet e => (finish (c.dir d) t).map fun s => { (c.setDir d s) with memo := if keep then e else c.memo }
    | _ => none

def describe (ds : DState) (t d : Nat) : String :=
  String.intercalate "|" ((ds.cands.map fun c => match retOf ((c.dir d).thr t) with
    | some (n, e) => s!"{n},{errName e}"
    | none => if (c.dir d).thr t = .idle then "idle" else "pending").eraseDups)

def stepC15 (ds : DState) (line : String) : DState × String :=
  let setWhere (t d : Nat) (sd : Bool) : List (Nat × Nat × Bool) := (t, d, sd) :: ds.where_.filter (·.1 != t)
  match fields line with
  | ["new", n] => match n.toNat? with
      | some k => ({ n := k, cands := [{ d0 := init, d1 := init, memo := .nil }], where_ := [] }, "ok 1")
      | none => (ds, "bad-op")
  | ["nq", "call", t, e, "r", cap] => match t.toNat?, e.toNat?, cap.toNat? with
      | some t, some e, some cap =>
          answer { ds with where_ := setWhere t (1 - e) false } (startIn ds t (1 - e) (.read cap) false) "thread-busy"
      | _, _, _ => (ds, "bad-op")
  | ["call", t, e, "r", cap] => match t.toNat?, e.toNat?, cap.toNat? with
      | some t, some e, some cap =>
          answer { ds with where_ := setWhere t (1 - e) false } (startIn ds t (1 - e) (.read cap)) "thread-busy"
      | _, _, _ => (ds, "bad-op")
  | ["call", t, e, "wt", ff, plan] => match t.toNat?, e.toNat?, parsePlan plan with
      | some t, some e, some plan =>
          answer { ds with where_ := setWhere t (1 - e) false } (startIn ds t (1 - e) (.writeTo plan (ff == "1"))) "thread-busy"
      | _, _, _ => (ds, "bad-op")
  | ["nq", "call", t, e, "w", hex] => match t.toNat?, e.toNat?, ofHex? hex with
      -- a Write issued WITHOUT waiting for quiescence (it queues behind wrMu): its steps interleave with the next call's
      | some t, some e, some b =>
          answer { ds with where_ := setWhere t e false } (startIn ds t e (.write b) false) "thread-busy"
      | _, _, _ => (ds, "bad-op")
  | ["call", t, e, "w", hex] => match t.toNat?, e.toNat?, ofHex? hex with
      | some t, some e, some b =>
          answer { ds with where_ := setWhere t e false } (startIn ds t e (.write b)) "thread-busy"
      | _, _, _ => (ds, "bad-op")
  | ["call", t, e, "cr"] => match t.toNat?, e.toNat? with
      | some t, some e => answer { ds with where_ := setWhere t (1 - e) false } (startIn ds t (1 - e) (.closeRead none)) "thread-busy"
      | _, _ => (ds, "bad-op")
  | ["call", t, e, "cw"] => match t.toNat?, e.toNat? with
      | some t, some e => answer { ds with where_ := setWhere t e false } (startIn ds t e (.closeWrite none)) "thread-busy"
      | _, _ => (ds, "bad-op")
  | ["call", t, e, "cre"] => match t.toNat?, e.toNat? with
      | some t, some e => answer { ds with where_ := setWhere t (1 - e) false } (startIn ds t (1 - e) (.closeRead (some 1))) "thread-busy"
      | _, _ => (ds, "bad-op")
  | ["call", t, e, "cwe"] => match t.toNat?, e.toNat? with
      | some t, some e => answer { ds with where_ := setWhere t e false } (startIn ds t e (.closeWrite (some 1))) "thread-busy"
      | _, _ => (ds, "bad-op")
  | ["call", t, e, "c"] => match t.toNat?, e.toNat? with
      | some t, some e =>
          let c1 := finishUnit ds (startIn ds t (1 - e) (.closeRead none)) t (1 - e) false
          answer { ds with where_ := setWhere t e false } (startIn { ds with cands := c1 } t e (.closeWrite none)) "thread-busy"
      | _, _ => (ds, "bad-op")
  | ["call", t, e, "srd", k] => match t.toNat?, e.toNat?, parseKind k with
      | some t, some e, some k => answer { ds with where_ := setWhere t (1 - e) false } (startIn ds t (1 - e) (.setRD k)) "thread-busy"
      | _, _, _ => (ds, "bad-op")
  | ["call", t, e, "swd", k] => match t.toNat?, e.toNat?, parseKind k with
      | some t, some e, some k => answer { ds with where_ := setWhere t e false } (startIn ds t e (.setWD k)) "thread-busy"
      | _, _, _ => (ds, "bad-op")
  | ["call", t, e, "sd", k] => match t.toNat?, e.toNat?, parseKind k with
      | some t, some e, some k =>
          let c1 := finishUnit ds (startIn ds t (1 - e) (.setRD k)) t (1 - e) true
          answer { ds with where_ := setWhere t e true } (startIn { ds with cands := c1 } t e (.setWD k)) "thread-busy"
      | _, _, _ => (ds, "bad-op")
  | ["advance"] =>
      let fireAll (s : State) : State :=
        let s1 := (fire s false).getD s
        (fire s1 true).getD s1
      let cs := dedupC ds.n <| ds.cands.flatMap fun c =>
        (quiesce ds.n [fireAll c.d0] []).flatMap fun a => (quiesce ds.n [fireAll c.d1] []).map fun b => { c with d0 := a, d1 := b }
      answer ds cs "advance"
  | ["ret", t, n, err] => match t.toNat?, n.toNat? with
      | some t, some n =>
          match ds.where_.find? (·.1 == t) with
          | none => (ds, "reject ret-of-unknown-call")
          | some (_, d, sd) =>
              let cs := ds.cands.filterMap fun c =>
                let s := c.dir d
                if s.panicked then none else
                match retOf (s.thr t) with
                | some (m, e) =>
                    let e' := if sd && c.memo != .nil then c.memo else e
                    if m == n && errName e' == err then (finish s t).map fun s' => { (c.setDir d s') with memo := .nil } else none
                | none => none
              answer ds (dedupC ds.n cs) s!"ret t={t} impl={n},{err} model={describe ds t d}"
      | _, _ => (ds, "bad-op")
  | ["pend", t] => match t.toNat? with
      | some t =>
          match ds.where_.find? (·.1 == t) with
          | none => (ds, "reject pend-of-unknown-call")
          | some (_, d, _) =>
              let cs := ds.cands.filter fun c =>
                let s := c.dir d
                !s.panicked && (retOf (s.thr t)).isNone && s.thr t != .idle
              answer ds cs s!"pend t={t} model={describe ds t d}"
      | none => (ds, "bad-op")
  | ["stream", d, hex] => match d.toNat?, ofHex? hex with
      | some d, some b =>
          let cs := ds.cands.filter fun c => (c.dir d).rret == b
          answer ds cs s!"stream d={d} model={String.intercalate "|" ((ds.cands.map fun c => toHexField (c.dir d).rret).eraseDups)}"
      | _, _ => (ds, "bad-op")
  | ["quiet"] =>
      -- no candidate may have a panicked direction
      let cs := ds.cands.filter fun c => !c.d0.panicked && !c.d1.panicked
      answer ds cs "model-panicked"
  | _ => (ds, "bad-op")

def main : IO Unit := Driver.run ({ n := 0, cands := [], where_ := [] } : DState) stepC15
