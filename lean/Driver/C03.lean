import Driver.Common
import SSV.Model.SaltPool
import SSV.Model.SaltPoolFast
import SSV.Gen.C03
open SSV SSV.SaltPool

/-- the model's parameters = the constants regenerated from /repo -/
def genParams : Params := { maxEpochDiff := SSV.Gen.C03.MaxEpochDiff, window := SSV.Gen.C03.ReplayWindowDuration }

def bit? (c : Char) : Option Bool := if c == '1' then some true else if c == '0' then some false else none

/-- flags = 6 chars 0/1: complete prefixOk userOk authOk typeOk bodyOk -/
def parseReq (salt flags ts : String) : Option Request := do
  let s ← salt.toNat?
  let t ← ts.toNat?
  match flags.toList with
  | [a, b, c, d, e, f] =>
    pure { salt := s, complete := (← bit? a), prefixOk := (← bit? b), userOk := (← bit? c), authOk := (← bit? d),
           typeOk := (← bit? e), ts := BitVec.ofNat 64 t, bodyOk := (← bit? f) }
  | _ => none

def b2s (b : Bool) : String := if b then "1" else "0"

def stepC03 (st : State) (line : String) : State × String :=
  match fields line with
  | ["consts"] => (st, s!"{genParams.maxEpochDiff} {genParams.window}")
  | ["reset", n] => match n.toNat? with
      | some t => ({ now := t, pool := [] }, "ok")
      | none => (st, "bad-op")
  | ["adv", d] => match d.toNat? with
      | some k => let st' := (step genParams st (.advance k)).1; (st', s!"ok {st'.now}")
      | none => (st, "bad-op")
  | ["present", salt, flags, ts, c] =>
      match parseReq salt flags ts, c.toList with
      | some r, [cb] => match bit? cb with
        | some cont =>
          match step genParams st (.present r cont) with
          | (st', some e) => (st', e.verdict.name)
          | (st', none) => (st', "bad-op")
        | none => (st, "bad-op")
      | _, _ => (st, "bad-op")
  | ["present", salt, flags, ts, c, fb, g] =>
      match parseReq salt flags ts, c.toList, fb.toList, g.toList with
      | some r, [cb], [fbb], [gb] => match bit? cb, bit? fbb, bit? gb with
        | some cont, some fbv, some gv =>
          let res := handleStream genParams fbv gv cont st.now r st.pool
          ({ st with pool := res.1 }, res.2.name)
        | _, _, _ => (st, "bad-op")
      | _, _, _, _ => (st, "bad-op")
  | ["pfill", now, start, n, stp] => match now.toNat?, start.toNat?, n.toNat?, stp.toNat? with
      | some t, some s0, some k, some d =>
        -- long floods run on the fast representation, proved to compute the list model
        -- (SSV.C03.fast_pool_refines; the driver's pool has distinct salts by SSV.C03.salts_stay_distinct)
        let res := fcountAdds genParams (FPool.ofPool st.pool) (floodCalls t s0 k d)
        let pool' := res.1.toPool
        ({ st with pool := pool' }, s!"filled={res.2} len={pool'.length}")
      | _, _, _, _ => (st, "bad-op")
  | ["plen"] => (st, s!"{st.pool.length}")
  | ["padd", now, salt] => match now.toNat?, salt.toNat? with
      | some t, some s => let res := add genParams t s st.pool; ({ st with pool := res.1 }, b2s res.2)
      | _, _ => (st, "bad-op")
  | ["pcontains", salt] => match salt.toNat? with
      | some s => (st, b2s (contains st.pool s))
      | none => (st, "bad-op")
  | ["ptry", salt, c] => match salt.toNat?, c.toList with
      | some s, [cb] => match bit? cb with
        | some cont => (st, b2s (tryContains cont st.pool s))
        | none => (st, "bad-op")
      | _, _ => (st, "bad-op")
  | ["pclear"] => ({ st with pool := [] }, "ok")
  | ["ts", ts, ne] => match ts.toNat?, ne.toNat? with
      | some t, some n => (st, b2s (tsValidWord genParams (BitVec.ofNat 64 t) (BitVec.ofNat 64 n)))
      | _, _ => (st, "bad-op")
  | ["dump"] => (st, s!"{st.now} {st.pool.map (fun n => (n.salt, n.expiresAt))}")
  | _ => (st, "bad-op")

def main : IO Unit := Driver.run ({ now := 0, pool := [] } : State) stepC03
