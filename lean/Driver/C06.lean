import Driver.Common
import SSV.Model.Parsers
import SSV.Model.Repack
import SSV.Model.StreamHS
/-
C06 driver: one entry point call per line, answer `ok <canonical value>` | `err <class>` | `panic`.
Bytes are hex (`-` = empty). See harness/cmd/corr_c06 for the line formats.
-/
open SSV SSV.Go SSV.Outcome SSV.Parsers

namespace C06D

def showR {α : Type} (f : α → String) : R α → String
  | .ok a => "ok " ++ f a
  | .err e => "err " ++ e.name
  | .panic => "panic"

def showII (x : Int × Int) : String := s!"{x.1} {x.2}"
def showAN (x : Addr × Nat) : String := s!"{x.1.render} {x.2}"
def showASL (x : Addr × Nat × Int) : String := s!"{x.1.render} {x.2.1} {x.2.2}"

def int? (s : String) : Option Int :=
  if s.startsWith "-" then (String.ofList (s.toList.drop 1)).toNat?.map (fun n => -(n : Int)) else s.toNat?.map (fun n => (n : Int))

def bool? (s : String) : Option Bool := if s == "1" then some true else if s == "0" then some false else none

/-! #### router configuration syntax
routes `|`-separated, criteria `,`-separated; a criterion is
`tcp` `udp` `sp=N` `spr=a-b+c-d` `sps=p+p+..` `dp=` `dpr=` `dps=` `dd=hexdom+hexdom` (exact names)
`dip=PFX+PFX` `drip=PFX+PFX` (resolver = the line's resolver table) `ddx=hexdom+..~CRIT` `!CRIT` `or(CRIT;CRIT;..)`.
PFX = `4:hexaddr/bits` | `6:hexaddr/bits`.  Resolver table: `hexdom>4:hexip` entries `+`-separated (`-` = empty; missing = lookup error). -/

def splitOn1 (s : String) (c : Char) : List String := (s.split (· == c)).toList.map (·.toString)

def ports? (s : String) : Option (List Nat) := (splitOn1 s '+').mapM (·.toNat?)

def ranges? (s : String) : Option (List (Nat × Nat)) :=
  (splitOn1 s '+').mapM (fun r => match splitOn1 r '-' with
    | [a, b] => do pure ((← a.toNat?), (← b.toNat?))
    | _ => none)

def ipOf? (s : String) : Option (Bool × Bytes) :=
  match splitOn1 s ':' with
  | ["4", h] => (ofHex? h).map (fun a => (true, a))
  | ["6", h] => (ofHex? h).map (fun a => (false, a))
  | _ => none

def prefix? (s : String) : Option Prefix :=
  match splitOn1 s '/' with
  | [ip, bits] => do
    let (is4, a) ← ipOf? ip
    pure ⟨is4, a, ← bits.toNat?⟩
  | _ => none

def prefixes? (s : String) : Option (List Prefix) := (splitOn1 s '+').mapM prefix?

def doms? (s : String) : Option (List Bytes) := (splitOn1 s '+').mapM ofHex?

def resolver? (s : String) : Option (List (Bytes × (Bool × Bytes))) :=
  if s == "-" then some [] else
  (splitOn1 s '+').mapM (fun e => match splitOn1 e '>' with
    | [d, ip] => do pure ((← ofHex? d), (← ipOf? ip))
    | _ => none)

def lookup (tbl : List (Bytes × (Bool × Bytes))) (d : Bytes) : Option (Bool × Bytes) :=
  (tbl.find? (·.1 == d)).map (·.2)

/-- split `a;b;c` at top level (no nesting of `or(` inside `or(` is generated) -/
partial def crit? (tbl : List (Bytes × (Bool × Bytes))) (s : String) : Option Crit :=
  if s.startsWith "!" then (crit? tbl (String.ofList (s.toList.drop 1))).map Crit.inverted
  else if s.startsWith "or(" && s.endsWith ")" then
    let inner := String.ofList ((s.toList.drop 3).dropLast)
    ((splitOn1 inner ';').mapM (crit? tbl)).map Crit.groupOr
  else if s == "tcp" then some .networkTCP
  else if s == "udp" then some .networkUDP
  else match splitOn1 s '=' with
    | ["sp", v] => v.toNat?.map Crit.srcPort
    | ["spr", v] => (ranges? v).map Crit.srcPortRanges
    | ["sps", v] => (ports? v).map (fun ps => Crit.srcPortSet (fun p => ps.contains p))
    | ["dp", v] => v.toNat?.map Crit.dstPort
    | ["dpr", v] => (ranges? v).map Crit.dstPortRanges
    | ["dps", v] => (ports? v).map (fun ps => Crit.dstPortSet (fun p => ps.contains p))
    | ["dd", v] => (doms? v).map (fun ds => Crit.dstDomain (fun d => ds.contains d))
    | ["dip", v] => (prefixes? v).map Crit.dstIP
    | ["drip", v] => (prefixes? v).map (fun ps => Crit.dstResolvedIP ps (lookup tbl))
    | ["ddx", v] => match splitOn1 v '~' with
        | [ds, inner] => do
          let ds ← doms? ds
          let c ← crit? tbl (inner.replace "@" "=")
          pure (Crit.dstDomainExpectedIP (fun d => ds.contains d) c)
        | _ => none
    | _ => none

def routes? (tbl : List (Bytes × (Bool × Bytes))) (s : String) : Option (List (List Crit)) :=
  if s == "-" then some [] else
  (splitOn1 s '|').mapM (fun r => if r == "*" then some [] else (splitOn1 r ',').mapM (crit? tbl))

def addr? (s : String) : Option Addr :=
  match splitOn1 s ':' with
  | ["none"] => some .none
  | ["4", h, p] => do pure (.ip4 (← ofHex? h) (← p.toNat?))
  | ["6", h, p] => do pure (.ip6 (← ofHex? h) (← p.toNat?))
  | ["d", h, p] => do pure (.dom (← ofHex? h) (← p.toNat?))
  | _ => none

/-- result of `netip.ParseAddr` as told by the harness: `none`, `zoned` (a marker address), or `4:hex:0` / `6:hex:0` -/
def ipParam? (s : String) : Option (Option (Bool × Bytes)) :=
  if s == "none" then some none
  else if s == "zoned" then some (some (false, [122]))
  else match addr? s with
    | some (.ip4 a _) => some (some (true, a))
    | some (.ip6 a _) => some (some (false, a))
    | _ => none

/-- the toy block cipher of the driver: the identity (the harness sends separate headers already decrypted) -/
def idCiphers (openResult : Option Bytes) : Ciphers := ⟨id, fun _ _ => openResult⟩

def optBytes? (s : String) : Option (Option Bytes) :=
  if s == "none" then some none else (ofHex? s).map some

/-- the user table of the harness' SOCKS5 server: user/pass and a 255/255-byte pair -/
def s5Check (u p : Bytes) : Bool :=
  (u == "user".toUTF8.toList && p == "pass".toUTF8.toList) ||
  (u == List.replicate 255 117 && p == List.replicate 255 112)

def step (_ : Unit) (line : String) : Unit × String :=
  let bad := ((), "bad-op")
  let r : Option String := match fields line with
    | ["addrport", h] => do pure (showR showAN (addrPortFromSlice (← ofHex? h)))
    | ["connaddr", h] => do pure (showR showAN (connAddrFromSlice (← ofHex? h)))
    | ["connaddrdc", h] => do pure (showR showAN (connAddrFromSliceDC (← ofHex? h)))
    | ["appendreader", h] => do
        pure (showR (fun (x : Bytes × Bytes) => s!"{toHexField x.1} {x.2.length}") (appendFromReader (← ofHex? h)))
    | ["connaddrreader", h] => do
        pure (showR (fun (x : Addr × Bytes) => s!"{x.1.render} {x.2.length}") (connAddrFromReader (← ofHex? h)))
    | ["tcpfixed", now, h] => do
        pure (showR (fun (n : Nat) => s!"{n}") (parseTCPRequestFixedLengthHeader (← int? now) (← ofHex? h)))
    | ["tcpvar", h] => do
        pure (showR (fun (x : Addr × Bytes) => s!"{x.1.render} {toHexField x.2}") (parseTCPRequestVariableLengthHeader (← ofHex? h)))
    | ["tcpresp", now, salt, h] => do
        pure (showR (fun (n : Nat) => s!"{n}") (parseTCPResponseHeader (← int? now) (← ofHex? salt) (← ofHex? h)))
    | ["udpclient", now, h] => do pure (showR showASL (parseUDPClientMessageHeader (← int? now) (← ofHex? h)))
    | ["udpserver", now, csid, h] => do
        pure (showR showASL (parseUDPServerMessageHeader (← int? now) (← csid.toNat?) (← ofHex? h)))
    | ["noneserver", ps, pl, h] => do pure (showR showASL (noneServerUnpack (← ofHex? h) (← ps.toNat?) (← pl.toNat?)))
    | ["noneclient", fs, ps, pl, h] => do
        pure (showR showASL (noneClientUnpack (← bool? fs) (← ofHex? h) (← ps.toNat?) (← pl.toNat?)))
    | ["s5server", ps, pl, h] => do pure (showR showASL (socks5ServerUnpack (← ofHex? h) (← ps.toNat?) (← pl.toNat?)))
    | ["s5client", fs, ps, pl, h] => do
        pure (showR showASL (socks5ClientUnpack (← bool? fs) (← ofHex? h) (← ps.toNat?) (← pl.toNat?)))
    | ["sessioninfo", h] => do
        pure (showR (fun (x : Nat × Bytes) => s!"{x.1}") (udpSessionInfo (idCiphers none) (← ofHex? h)))
    | ["newunpacker", idLen, found, h] => do
        pure (showR (fun (_ : Unit) => "unpacker") (udpNewUnpacker (← idLen.toNat?) (← bool? found) (← ofHex? h)))
    | ["udpsrvunpack", now, hdr, replayed, opened, ps, pl, h] => do
        pure (showR showASL (udpServerUnpack (idCiphers (← optBytes? opened)) (← int? now) (← hdr.toNat?) (← bool? replayed)
          (← ofHex? h) (← ps.toNat?) (← pl.toNat?)))
    | ["udpcliunpack", now, csid, curID, curHas, oldID, oldHas, tooSoon, replayed, opened, ps, pl, h] => do
        let sess : CliSess := ⟨← curID.toNat?, ← bool? curHas, ← oldID.toNat?, ← bool? oldHas⟩
        pure (showR showASL (udpClientUnpack Gen.C06.clientUnpackerGuardsNilAEAD (idCiphers (← optBytes? opened)) (← int? now) (← csid.toNat?) sess
          (← bool? tooSoon) (← bool? replayed) (← ofHex? h) (← ps.toNat?) (← pl.toNat?)))
    | ["udpsrv", now, idLen, found, replayed, opened, ps, pl, h] => do
        pure (showR showASL (udpServerReceive (idCiphers (← optBytes? opened)) (← int? now) (← idLen.toNat?) (← bool? found) (← bool? replayed)
          (← ofHex? h) (← ps.toNat?) (← pl.toNat?)))
    | ["direct", target, targetOnly, srcIsTarget, plen, maxLen] => do
        match directServe Gen.C06.directRejectsTargetOnlyDomain (← addr? target) (← bool? targetOnly) (← bool? srcIsTarget) (← plen.toNat?) (← maxLen.toNat?) with
        | none => pure "rejected"
        | some r => pure (showR (fun (_ : Unit) => "packed") r)
    | ["ssnone", h] => do
        pure (showR (fun (x : Addr × Bytes) => x.1.render) (connAddrFromReader (← ofHex? h)))
    | ["socks5srv", auth, tcp, udp, tcpLocal, fin, h] => do
        let finish : Option UInt8 ← (if fin == "-" then some none else fin.toNat?.map (fun n => some (UInt8.ofNat n)))
        pure (showR (fun (x : Addr × Bytes) => s!"{x.1.render} w={toHexField x.2}")
          (s5Server (← bool? auth) s5Check (← bool? tcp) (← bool? udp) (← bool? tcpLocal) [1, 127, 0, 0, 1, 4, 56] finish (← ofHex? h)))
    | ["socks5cli", auth, cmd, enc, h] => do
        pure (showR (fun (a : Addr) => a.render)
          (s5Client (← bool? auth) [1, 4, 117, 115, 101, 114, 4, 112, 97, 115, 115] (UInt8.ofNat (← cmd.toNat?)) (← ofHex? enc) (← ofHex? h)))
    | ["hosthdr", h, ipHost, ipInner, pa] => do
        let host ← ofHex? h
        let inner := (host.drop 1).dropLast
        let ipH ← ipParam? ipHost
        let ipI ← ipParam? ipInner
        let paA : Option Addr ← (if pa == "none" then some none else if pa == "zoned" then some (some (.ip6 [122] 0)) else (addr? pa).map some)
        let parseIP : Bytes → Option (Bool × Bytes) := fun s => if s == host then ipH else if s == inner then ipI else none
        pure (match hostHeaderToAddr parseIP (fun _ => paA) host with
          | .ok (.ip6 [122] _) => "ok zoned"
          | .ok a => "ok " ++ a.render
          | .err _ => "err host"
          | .panic => "panic")
    | ["repack", "ss2022c", mps, hdr, target, sp, draw, bl, ps, pl] => do
        pure (showR showII (ss2022ClientPack Gen.C06.clientPackerGuardsIntN (← int? mps) (← hdr.toNat?) (← addr? target) (← bool? sp) (← draw.toNat?)
          (← bl.toNat?) (← ps.toNat?) (← pl.toNat?)))
    | ["repack", "ss2022s", mpl, src4, sp, draw, bl, ps, pl] => do
        pure (showR showII (ss2022ServerPack Gen.C06.serverPackerGuardsIntN (← int? mpl) (← bool? src4) (← bool? sp) (← draw.toNat?)
          (← bl.toNat?) (← ps.toNat?) (← pl.toNat?)))
    | ["repack", "prefixc", hdr, target, mps, bl, ps, pl] => do
        pure (showR showII (prefixClientPack (← hdr.toNat?) (← addr? target) (← int? mps) (← bl.toNat?) (← ps.toNat?) (← pl.toNat?)))
    | ["repack", "prefixs", hdr, src4, mpl, bl, ps, pl] => do
        pure (showR showII (prefixServerPack (← hdr.toNat?) (← bool? src4) (← int? mpl) (← bl.toNat?) (← ps.toNat?) (← pl.toNat?)))
    | ["repack", "directc", mtu, target, res, ps, pl] => do
        let r : Option Bool ← (if res == "-" then some none else if res == "4" then some (some true) else if res == "6" then some (some false) else none)
        pure (showR showII (directClientPack (← int? mtu) (← addr? target) (fun _ => r) (← ps.toNat?) (← pl.toNat?)))
    | ["dialsplit", target, plen, draw] => do
        pure (showR (fun (x : Int × Int × Int) => s!"{x.1} {x.2.1} {x.2.2}") (dialStreamSplit (← addr? target) (← plen.toNat?) (← draw.toNat?)))
    | ["s5udpsession", auth, res, h] => do
        let r ← ipParam? res
        pure (match s5UDPNewSession (← bool? auth) [1, 4, 117, 115, 101, 114, 4, 112, 97, 115, 115] (fun _ => r) (← ofHex? h) with
          | .ok x => "ok " ++ (if x.1 then Addr.ip4 x.2.1 x.2.2 else Addr.ip6 x.2.1 x.2.2).render
          | .err _ => "err session"       -- over a real TCP socket the error kind (EOF / reset) is the kernel's business
          | .panic => "panic")
    | ["hs", saltLen, idLen, urspLen, seg, fb, now, chunk0, total, replayed, prefixOk, userFound, saltAdded, openFixed, openVar, rest] => do
        let cfg : HSCfg := ⟨← saltLen.toNat?, ← idLen.toNat?, ← urspLen.toNat?, ← bool? seg, ← bool? fb⟩
        let ov ← optBytes? openVar
        pure (match handleStream cfg (← int? now) (← chunk0.toNat?) (← total.toNat?) (← bool? replayed) (← bool? prefixOk) (← bool? userFound)
            (← bool? saltAdded) (← optBytes? openFixed) (fun _ => ov) (← ofHex? rest) with
          | .ok (some (a, payload), _) => s!"ok {a.render} {toHexField payload}"
          | .ok (none, n) => s!"fallback {n}"
          | .err e => "err " ++ e.name
          | .panic => "panic")
    | ["directpack", target, targetOnly, srcIsTarget, plen, maxLen] => do
        pure (showR (fun (_ : Unit) => "packed") (directServerPack (← addr? target) (← bool? targetOnly) (← bool? srcIsTarget) (← plen.toNat?) (← maxLen.toNat?)))
    | ["directcfg", target, targetOnly] => do
        pure (if directConfigAccepted Gen.C06.directRejectsTargetOnlyDomain (← addr? target) (← bool? targetOnly) then "accepted" else "rejected")
    | ["router", res, cfg, net, sport, target] => do
        let tbl ← resolver? res
        let routes ← routes? tbl cfg
        let q : Req := ⟨net == "tcp", ← sport.toNat?, ← addr? target⟩
        pure (showR (fun (n : Nat) => s!"{n}") (routerMatch curGuards q routes))
    | ["guards"] => some s!"{curGuards.src} {curGuards.dst} {Gen.C06.directRejectsTargetOnlyDomain}"
    | _ => none
  match r with
  | some s => ((), s)
  | none => bad

end C06D

def main : IO Unit := Driver.run () C06D.step
