#!/bin/bash
# Land a repair of a genuine defect as ONE unguarded "fix:" commit in /repo.
#   usage: tools/land_fix.sh <diff> "<commit message starting with fix:>" <pkg patterns to test ...>
# The diff is first applied to a scratch export of /repo's HEAD and the given packages' tests are run there
# (unedited suite); only if they pass is it applied to /repo and committed.
set -eu
DIFF=$(realpath "$1"); MSG=$2; shift 2
case "$MSG" in fix:*) ;; *) echo "message must start with fix:"; exit 2;; esac
export GOFLAGS=-mod=mod GOPROXY=off
S=$(mktemp -d /tmp/ssv_land.XXXXXX); trap 'rm -rf "$S"' EXIT
git -C /repo archive HEAD | tar -x -C "$S"
( cd "$S" && git init -q . && git apply --whitespace=nowarn "$DIFF" )
( cd "$S" && go build ./... && go test -vet=off -count=1 "$@" ) > "$S/.log" 2>&1 || {
  if grep -E '^--- FAIL' "$S/.log" | grep -vE 'TestAddrResolveIP|TestResolver[ /]' | grep -q .; then tail -40 "$S/.log"; echo "tests fail with the fix"; exit 1; fi
  if grep -qE 'build failed|cannot|undefined' "$S/.log"; then tail -40 "$S/.log"; exit 1; fi
}
grep -E '^(ok|FAIL|---)' "$S/.log" | head -30
git -C /repo apply --whitespace=nowarn "$DIFF"
git -C /repo add -A
git -C /repo commit -q -m "$MSG"
git -C /repo log --oneline | head -1
