#!/bin/bash
# Run one or more checks against a SCRATCH copy of /repo with a patch applied (mutation rehearsal /
# seeded changes), without touching /repo or /verif: both are copied under /tmp and removed afterwards.
#   usage: tools/try_patch.sh <patch.diff|-> <ID> [tier] [more IDs...]
#   ("-" = no patch: sanity run of the scratch flow on the unchanged tree)
# Prints the check's output; exit status = the check's (last ID's) exit status.
set -u
PATCH=$1; ID=$2; TIER=${3:-quick}
S=$(mktemp -d /tmp/ssv_scratch.XXXXXX)
trap 'rm -rf "$S"' EXIT
mkdir -p "$S/repo"
( cd /repo && git ls-files -z | xargs -0 cp --parents -t "$S/repo" )
( cd /repo && git ls-files -z --others --exclude-standard | xargs -0 -r cp --parents -t "$S/repo" )
if [ "$PATCH" != "-" ]; then
  PATCH=$(realpath "$PATCH")
  ( cd "$S/repo" && git init -q . 2>/dev/null; git -C "$S/repo" apply --whitespace=nowarn "$PATCH" ) || { echo "patch does not apply"; exit 3; }
fi
rsync -a --exclude .git --exclude replays --exclude .reports --exclude evidence /verif/ "$S/verif/"
mkdir -p "$S/verif/evidence"
export VERIF_REPO="$S/repo"
rc=0
cd "$S/verif"
./check "$ID" "$TIER"; rc=$?
if [ -d replays ]; then
  for f in replays/*.json; do [ -f "$f" ] && { echo "--- $f"; head -c 1500 "$f"; echo; }; done
fi
exit $rc
