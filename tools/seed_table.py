#!/usr/bin/env python3
"""Prints the markdown table of seeded changes and which checks caught them (from seeded/*/meta.json + result.json)."""
import glob, json, os
V = os.path.dirname(os.path.dirname(os.path.abspath(__file__)))
rows = []
for d in sorted(glob.glob(os.path.join(V, "seeded", "*"))):
    try:
        m = json.load(open(os.path.join(d, "meta.json"))); r = json.load(open(os.path.join(d, "result.json")))
    except OSError:
        continue
    caught = []
    for pid, c in r["checks"].items():
        if c["exit"] == 1 and c["violation_lines"]:
            caught.append("%s: %s" % (pid, ("input, keys " + ", ".join("`%s`" % k for k in c["keys"][:3] if "==" not in k)) if c["concrete_input"] else "no-failing-input-found (%s)" % "; ".join(b.split(":")[0] for b in c["broken"][:2])))
    for x in r.get("also_caught_by", []):
        caught.append(x)
    summ = " ".join(m.get("summary", "").split())[:230]
    if r.get("note"):
        caught.append("note: " + r["note"][:300])
    rows.append("| %s | %s | %s | %s | %s |" % (os.path.basename(d), summ.replace("|", "/"), " ".join(m.get("needs_to_manifest", "").split())[:160].replace("|", "/"), r.get("first_run", "?"), "<br>".join(caught) if caught else "not reported"))
print("| seed | change | needs | first run | final: caught by |\n|---|---|---|---|---|")
print("\n".join(rows))
