#!/bin/bash
# Run `./check <ID> <tier>` for the given ids, N at a time; print one summary line per id.
# usage: tools/sweep.sh <tier> <parallel> <ID...>
TIER=$1; PAR=$2; shift 2
mkdir -p /verif/.reports/sweep
printf '%s\n' "$@" | xargs -P "$PAR" -I{} bash -c 'cd /verif && s=$(date +%s); ./check {} '"$TIER"' > .reports/sweep/{}.'"$TIER"'.out 2>&1; rc=$?; echo "{} exit=$rc $(( $(date +%s)-s ))s $(grep -E "^(OK|VIOLATION|KNOWN|check broken)" .reports/sweep/{}.'"$TIER"'.out | head -3 | tr "\n" "|")"'
