#!/bin/bash
# Confirm a seeded change independently: in a scratch copy of /repo's HEAD
#   1. the demonstration PASSES on the unchanged tree,
#   2. the patch applies and builds,
#   3. the demonstration FAILS with the patch,
#   4. the existing test suite (unedited) still passes with the patch
#      (conn.TestAddrResolveIP*, dns.TestResolver fail offline at baseline and are ignored).
# usage: tools/verify_seed.sh <dir with patch.diff, demo/, meta.json>   -> prints VERDICT line, exit 0 iff confirmed
set -u
D=$(realpath "$1")
export GOFLAGS=-mod=mod GOPROXY=off
S=$(mktemp -d /tmp/ssv_vseed.XXXXXX)
trap 'rm -rf "$S"' EXIT
git -C /repo archive HEAD | tar -x -C "$S"
cd "$S"
DEMO_CMD=$(python3 -c "import json,sys;print(json.load(open('$D/meta.json'))['demo_cmd'])")
cp -r "$D/demo/." "$S/"
echo "== demo on unchanged tree: $DEMO_CMD"
if ! bash -c "$DEMO_CMD" > "$S/.demo0.log" 2>&1; then tail -20 "$S/.demo0.log"; echo "VERDICT rejected: demo fails on the unchanged tree"; exit 1; fi
git init -q . 2>/dev/null
if ! git apply --whitespace=nowarn "$D/patch.diff"; then echo "VERDICT rejected: patch does not apply"; exit 1; fi
if ! go build ./... > "$S/.build.log" 2>&1; then tail "$S/.build.log"; echo "VERDICT rejected: does not build"; exit 1; fi
echo "== demo with patch"
if bash -c "$DEMO_CMD" > "$S/.demo1.log" 2>&1; then echo "VERDICT rejected: demo passes with the patch"; exit 1; fi
tail -8 "$S/.demo1.log"
# remove demo files before the suite (the suite must pass unedited)
( cd "$D/demo" && find . -type f ) | while read f; do rm -f "$S/$f"; done
echo "== existing suite with patch"
go test -vet=off -count=1 -timeout 90m ./... > "$S/.suite.log" 2>&1
BAD=$(grep -E '^--- FAIL|^FAIL|^panic' "$S/.suite.log" | grep -vE 'TestAddrResolveIP|TestResolver|shadowsocks-go/conn[[:space:]]|shadowsocks-go/dns[[:space:]]|^FAIL$' )
if [ -n "$BAD" ]; then echo "$BAD" | head; echo "VERDICT rejected: existing tests fail with the patch"; exit 1; fi
# conn / dns packages: only the known offline failures are allowed
OTHER=$(grep -E '^\s*--- FAIL' "$S/.suite.log" | grep -vE 'TestAddrResolveIP|TestAddrResolveIPPort|TestResolver' )
if [ -n "$OTHER" ]; then echo "$OTHER" | head; echo "VERDICT rejected: existing tests fail with the patch"; exit 1; fi
echo "VERDICT confirmed"
exit 0
