#!/usr/bin/env python3
"""Regenerates /verif/MANIFEST.json from meta/*.json (one file per claimed property)."""
import json, os, re
V = os.path.dirname(os.path.dirname(os.path.abspath(__file__)))
props = [json.loads(l) for l in open(os.path.join(V, "properties.jsonl"))]
baseline = json.load(open("/root/.vp/BASELINE.json"))
checks, na = [], []
for p in props:
    pid = p["id"]
    mp = os.path.join(V, "meta", pid + ".json")
    have = os.path.exists(mp) and os.path.exists(os.path.join(V, "lean/SSV/Props", pid + ".lean")) and os.path.isdir(os.path.join(V, "harness/cmd/corr_" + pid.lower()))
    if not have:
        na.append({"property_id": pid, "reason": "machinery for this property is not built yet (Lean model/theorems + correspondence engine pending; see DESIGN.md §5 %s)" % pid})
        continue
    m = json.load(open(mp))
    rp = os.path.join(V, "meta", "ready.json")
    ready = json.load(open(rp)) if os.path.exists(rp) else []
    if pid not in ready:
        na.append({"property_id": pid, "reason": "machinery for this property is still being built/validated in this round (see DESIGN.md §5 %s); not claimed until its check passes the unchanged-tree sweeps" % pid})
        continue
    if m.get("not_applicable"):
        na.append({"property_id": pid, "reason": m["not_applicable"]})
        continue
    checks.append({
        "property_id": pid,
        "quick_cmd": "./check %s quick" % pid,
        "thorough_cmd": "./check %s thorough" % pid,
        "evidence_file": "/verif/evidence/%s.json" % pid,
        "replay_cmd_template": "./check replay {path}",
        "engine": "lean4+corr",
        "level_claimed": {"category": "proof", "text": m["level_text"], "design_ref": m.get("design_ref", "DESIGN.md §5 " + pid)},
        "level_note": m["level_note"],
        "technique": m["technique"],
    })
hooks_commits = []
hp = os.path.join(V, "meta", "hooks.json")
if os.path.exists(hp):
    hooks_commits = json.load(open(hp)).get("source_commits", [])
man = {
    "version": 1,
    "setup_cmd": "./check setup",
    "hooks": {
        "guard": "verif",
        "enable": "go build -tags verif (harness binaries are built with the tag; hook files in /repo, if any, are //go:build verif, add-only)",
        "baseline_off_cmd": "cd /repo && go test -mod=mod -json -vet=off -count=1 -timeout 25m ./...",
        "source_commits": hooks_commits,
        "add_only": True,
    },
    "engines": [
        {"name": "lean4+corr", "path": "/verif/check", "serves_properties": [c["property_id"] for c in checks],
         "kind_free_text": "Lean 4 model + theorems (lean/SSV), regenerated facts (harness/cmd/ssvgen), differential correspondence + property oracles (harness/cmd/corr_*), compiled core-only Lean drivers (lean/Driver)"}
    ],
    "checks": checks,
    "not_applicable": na,
    "notes": "Every check: rebuild harness against /repo -> regenerate SSV/Gen -> lake build of the property theorems + #print axioms audit -> correspondence run -> violation search when a tie or obligation breaks. known_findings.json lists recorded defects of the pinned tree.",
}
json.dump(man, open(os.path.join(V, "MANIFEST.json"), "w"), indent=1)
print("claimed:", [c["property_id"] for c in checks])
