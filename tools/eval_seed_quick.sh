#!/bin/bash
# Session-2 helper: run one property's quick check against /repo with a seeded patch applied, then undo.
# usage: tools/eval_seed_quick.sh <seed dir under /verif/seeded> <property id>
# Prints the check's last lines; the evidence file of the property is restored from git afterwards
# (evidence must come from the unchanged tree).
set -u
D=/verif/seeded/$1; P=$2
[ -z "$(git -C /repo status --porcelain)" ] || { echo "/repo not clean"; exit 2; }
git -C /repo apply --whitespace=nowarn "$D/patch.diff" || exit 2
( cd /verif && ./check "$P" quick 2>&1 | tail -8 ) | tee "$D/.quick.out"
git -C /repo checkout -- .
git -C /verif checkout -- "evidence/$P.json" lean/SSV/Gen
git -C /repo status --porcelain | head -3
# result.json skeleton from the check's output and the first replay
python3 - "$D" "$P" <<'PY'
import json,sys,re,os
D,P=sys.argv[1],sys.argv[2]
out=open(os.path.join(D,'.quick.out')).read()
vl=[l for l in out.split('\n') if l.startswith('VIOLATION')]
first=None; keys=[]; broken=[]
for l in vl:
    m=re.search(r'replay=(\S+)',l)
    if m and os.path.exists(m.group(1)):
        r=json.load(open(m.group(1)))
        if r.get('key') and r['key'] not in keys: keys.append(r['key'])
        if first is None: first={'case':r.get('case'),'detail':r.get('detail')}; broken=r.get('broken',[])
res={'property':P,'name':os.path.basename(D),'repo_head':os.popen('git -C /repo rev-parse --short HEAD').read().strip(),
 'checks':{P:{'exit':1 if vl else 0,'violation_lines':vl,'concrete_input':bool(vl) and not any('no-failing-input-found' in l for l in vl),
 'keys':keys,'first_case':first,'broken':[b[:300] for b in broken]}},
 'first_run':('caught (quick, seed 1)' if vl else 'MISSED (quick, seed 1)')}
old=os.path.join(D,'result.json')
if os.path.exists(old):
    o=json.load(open(old))
    for k in ('confirmed','confirmed_how','note'):
        if k in o: res[k]=o[k]
json.dump(res,open(old,'w'),indent=1)
print('result.json written:',res['first_run'],keys[:3])
PY
rm -f "$D/.quick.out"
