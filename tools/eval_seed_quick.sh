#!/bin/bash
# Session-2 helper: run one property's quick check against /repo with a seeded patch applied, then undo.
# usage: tools/eval_seed_quick.sh <seed dir under /verif/seeded> <property id>
# Prints the check's last lines; the evidence file of the property is restored from git afterwards
# (evidence must come from the unchanged tree).
set -u
D=/verif/seeded/$1; P=$2
[ -z "$(git -C /repo status --porcelain)" ] || { echo "/repo not clean"; exit 2; }
git -C /repo apply --whitespace=nowarn "$D/patch.diff" || exit 2
( cd /verif && ./check "$P" quick 2>&1 | tail -8 ) | tee "$D/.quick.out"
git -C /repo checkout -- .
git -C /verif checkout -- "evidence/$P.json"
git -C /repo status --porcelain | head -3
