#!/usr/bin/env python3
"""Confirm a seeded change (tools/verify_seed.sh) and run the property's check against it (tools/try_patch.sh).
usage: tools/run_seeded.py <src dir with patch.diff demo/ meta.json> <name e.g. C15-1> [--skip-verify]
Copies the seed to /verif/seeded/<name>/ and writes result.json there."""
import json, os, re, shutil, subprocess, sys, time
V = os.path.dirname(os.path.dirname(os.path.abspath(__file__)))
src, name = sys.argv[1], sys.argv[2]
dst = os.path.join(V, "seeded", name)
os.makedirs(dst, exist_ok=True)
if os.path.abspath(src) != dst:
    for f in ("patch.diff", "meta.json"):
        shutil.copy(os.path.join(src, f), dst)
    if os.path.isdir(os.path.join(dst, "demo")):
        shutil.rmtree(os.path.join(dst, "demo"))
    shutil.copytree(os.path.join(src, "demo"), os.path.join(dst, "demo"))
meta = json.load(open(os.path.join(dst, "meta.json")))
pid = meta["property"]
res = {"property": pid, "name": name, "repo_head": subprocess.run(["git", "-C", "/repo", "rev-parse", "--short", "HEAD"], capture_output=True, text=True).stdout.strip()}
rp = os.path.join(dst, "result.json")
if os.path.exists(rp):
    old = json.load(open(rp))
    if "--skip-verify" in sys.argv and "confirmed" in old:
        res["confirmed"], res["verify_tail"] = old["confirmed"], old.get("verify_tail")
if "confirmed" not in res:
    t = time.time()
    r = subprocess.run([os.path.join(V, "tools/verify_seed.sh"), dst], capture_output=True, text=True)
    res["confirmed"] = r.returncode == 0
    res["verify_tail"] = (r.stdout + r.stderr)[-600:]
    res["verify_s"] = round(time.time() - t)
t = time.time()
ids = [pid] + [x for x in sys.argv[3:] if re.match(r"C\d+$", x)]
res["checks"] = {}
for i in ids:
    r = subprocess.run([os.path.join(V, "tools/try_patch.sh"), os.path.join(dst, "patch.diff"), i, "quick"], capture_output=True, text=True)
    out = r.stdout + r.stderr
    vl = [l for l in out.split("\n") if l.startswith("VIOLATION")]
    keys = sorted(set(re.findall(r'"key": "([^"]+)"', out)))
    res["checks"][i] = {"exit": r.returncode, "violation_lines": vl[:6], "concrete_input": any("no-failing-input-found" not in l for l in vl),
                        "keys": keys[:10], "broken": sorted(set(re.findall(r'"((?:gen|theorem|corr|build|model):[^"]{0,160})', out)))[:6],
                        "tail": out[-300:] if not vl else ""}
res["check_s"] = round(time.time() - t)
res["detected"] = any(c["exit"] == 1 and c["violation_lines"] for c in res["checks"].values())
if os.path.exists(rp):  # preserve hand-written annotations across re-runs
    try:
        old = json.load(open(rp))
        for k in ("first_run", "also_caught_by", "note"):
            if k in old and k not in res:
                res[k] = old[k]
    except ValueError:
        pass
json.dump(res, open(rp, "w"), indent=1)
print(name, "confirmed=%s" % res["confirmed"], "detected=%s" % res["detected"], {i: (c["exit"], c["concrete_input"], c["keys"][:3]) for i, c in res["checks"].items()})
